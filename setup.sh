#!/bin/bash
# Offline setup: Python 3.12 overlay venv = /venv's packages (the repository's dependencies) + deal/icontract from the wheelhouse.
set -e
cd "$(dirname "$0")"
if [ ! -x .venv312/bin/python ]; then
  /venv/bin/python -m venv .venv312
  PIP_NO_INDEX=1 .venv312/bin/pip install -q --no-index --find-links /opt/veriftools/wheels deal icontract z3-solver >/dev/null 2>&1 || true
  echo "import site; site.addsitedir('/venv/lib/python3.12/site-packages')" > .venv312/lib/python3.12/site-packages/_repo_deps.pth
fi
.venv312/bin/python -c "import sympy, logzero, tabulate" 
echo setup-ok
