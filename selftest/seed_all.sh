#!/bin/bash
# re-confirm and re-evaluate all seeded changes of the given properties (properties in parallel; A then B)
mkdir -p /tmp/seedlogs
for P in "$@"; do
  ( for V in A B; do [ -f /verif/seeded/$P-$V/patch.diff ] && /verif/selftest/seed_eval.sh $P $V > /tmp/seedlogs/$P-$V.log 2>&1; done ) &
done
wait
