#!/bin/bash
# evaluate all available seeded changes, properties in parallel (each property: A then B)
mkdir -p /tmp/seedlogs
for P in "$@"; do
  ( for V in A B; do [ -f /tmp/seed/${P}_out/$V.patch.diff ] && /verif/selftest/seed_eval.sh $P $V > /tmp/seedlogs/$P-$V.log 2>&1; done ) &
done
wait
