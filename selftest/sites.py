"""Developer aid: print the statement site ids of a contracted function.  usage: sites.py <contract key>"""
import ast, sys
sys.path.insert(0, '/verif')
from pyvc.run import load_contracts
from pyvc.source import SourceIndex
from pyvc.stmts import site_ids
reg = load_contracts()
c = reg.contracts[sys.argv[1]]
fn, mod, _ = SourceIndex(reg, '/repo').find(c)
ids = site_ids(fn)
for n in ast.walk(fn):
    if isinstance(n, ast.stmt) and id(n) in ids:
        k = ids[id(n)]
        print(f"{k[0]}#{k[1]:<3} L{n.lineno}: {ast.unparse(n).splitlines()[0][:90]}")
