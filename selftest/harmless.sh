#!/bin/bash
# harmless rewrites must never give exit 1: usage selftest/harmless.sh
# each line: <property> <file> <sed expression>
run() {
  P=$1; F=$2; E=$3
  D=$(mktemp -d /tmp/pyvc_harmless.XXXX); cp -r /repo/comb_spec_searcher $D/
  sed -i "$E" $D/$F
  if cmp -s $D/$F /repo/$F; then echo "$P $F NOAPPLY"; rm -rf $D; return; fi
  out=$(cd /verif && PYVC_REPO=$D ./check $P --no-harness 2>&1); rc=$?
  echo "$P exit=$rc  [$E]  $(echo "$out" | grep -c VIOLATION) violation lines"
  rm -rf $D
}
# 1 commuted addition
run C10 comb_spec_searcher/strategies/strategy.py 's/^        return tuple(point_sum - mpoint for mpoint in min_points)$/        return tuple(-mpoint + point_sum for mpoint in min_points)/'
# 2 extra logging-free statement
run C06 comb_spec_searcher/equiv_db.py 's/^        while root != path\[-1\]:$/        while path[-1] != root:/'
# 3 comment and blank line
run C15 comb_spec_searcher/class_db.py 's/^        self._empty_num_application += 1$/        # count the application\n        self._empty_num_application += 1/'
# 4 reordered independent assignments
run C03 comb_spec_searcher/rule_db/forest.py 's/^        new_gap = (k, k + self._gap_size - 1)$/        new_gap = (k, self._gap_size + k - 1)/'
# 5 equivalent comparison
run C09 comb_spec_searcher/utils.py 's/        or n < sum(min_sizes)$/        or sum(min_sizes) > n/'
# 6 equivalent boolean
run C16 comb_spec_searcher/class_queue.py 's/                if wp.label not in self.ignore:/                if not (wp.label in self.ignore):/'
# 7 renamed local (no invariant mentions it)
run C20 comb_spec_searcher/strategies/constructor/cartesian.py 's/\bres\b/result_expr/g'
# 8 equivalent guard
run C17 comb_spec_searcher/comb_spec_searcher.py 's/            if self.expand_verified or not self.ruledb.is_verified(label):/            if not self.ruledb.is_verified(label) or self.expand_verified:/'
# 9 commuted addition in the using-entry update (the text-keyed ghost site no longer matches: fewer obligations, no alarm)
run C03 comb_spec_searcher/rule_db/forest.py 's/^            shifts\[class_idx\] = current_shift + 1$/            shifts[class_idx] = 1 + current_shift/'
# 10 a comment inside the registration loop
run C03 comb_spec_searcher/rule_db/forest.py 's/^            for child_idx, child in enumerate(rule_key.children):$/            # register every child position\n            for child_idx, child in enumerate(rule_key.children):/'
# 11 swapped comparison operands in the stage service
run C16 comb_spec_searcher/class_queue.py 's/^        if idx == len(self.expansion_strats):$/        if len(self.expansion_strats) == idx:/'
# 12 flipped loop guard of the object cache
run C07 comb_spec_searcher/strategies/rule.py 's/^        while n >= len(self.objects_cache):$/        while len(self.objects_cache) <= n:/'
# 13 renamed local in the propagation loop
run C03 comb_spec_searcher/rule_db/forest.py 's/\bparent = self._rules\[rule_idx\].parent$/par = self._rules[rule_idx].parent/; s/self._increase_value(parent, rule_idx)/self._increase_value(par, rule_idx)/; s/self._set_infinite(parent)$/self._set_infinite(par)/'
