#!/bin/bash
# usage: selftest/seedfn.sh <seed id e.g. C02-B> <fn,fn,...>   -- pyvc on named functions against a scratch copy with the seeded patch
D=$(mktemp -d /tmp/pyvc_seed.XXXX)
cp -r /repo/comb_spec_searcher $D/
(cd $D && patch -p1 -s < /verif/seeded/$1/patch.diff) || { echo "PATCH FAILED"; rm -rf $D; exit 9; }
cd /verif && python3-vt -m pyvc.run --repo $D --fn "$2" 2>&1 | grep -v "^unsat\|COVER\|WARNING conda" | cut -c1-220 | tail -${3:-8}
rm -rf $D
