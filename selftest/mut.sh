#!/bin/bash
# usage: selftest/mut.sh <relative file> <sed expr> <pyvc args...>   -- run pyvc on a scratch copy with one mutation
set -e
D=$(mktemp -d /tmp/pyvc_mut.XXXX)
mkdir -p $D/$(dirname $1)
cp -r /repo/comb_spec_searcher $D/
sed -i "$2" $D/$1
if cmp -s $D/$1 /repo/$1; then echo "MUTATION DID NOT APPLY"; rm -rf $D; exit 9; fi
shift 2
cd /verif && python3-vt -m pyvc.run --repo $D "$@" | tail -6
rm -rf $D
