#!/bin/bash
# run every check's quick tier once, sequentially; print exit code and wall time
cd /verif
for p in C01 C02 C03 C04 C05 C06 C07 C08 C09 C10 C11 C12 C13 C14 C15 C16 C17 C18 C19 C20; do
  s=$(date +%s); out=$(./check $p --tier ${1:-quick} 2>&1); rc=$?; e=$(date +%s)
  echo "== $p exit=$rc wall=$((e-s))s"; echo "$out" | grep -v "^UNDECIDED\|WARNING" | tail -4
done
