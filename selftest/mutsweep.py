"""Contract-strength audit: small mutants of every function under (verified) contract must make some obligation fail.

usage: python3-vt selftest/mutsweep.py [--per-fn 6] [--props C10,C15] [--jobs 6] [--out selftest/MUTATION_REPORT.md]

For each verified contract the real function is located in /repo, up to N single-token mutants of its body are produced
(comparison/arithmetic/boolean operator swaps, dropped `not`, 0<->1), each is written into a scratch copy of the package
under a fresh temporary directory (removed afterwards) and pyvc is run on that one function.  A mutant is KILLED when some
obligation is not discharged (sat / unknown / undecided / checker error) and SURVIVES when everything is still discharged.
Survivors are equivalent mutants or places where the contract says too little; they are listed, never hidden.
Nothing here decides a property; it audits the machinery (DESIGN.md section 16/20)."""
import argparse
import ast
import copy
import json
import multiprocessing as mp
import os
import random
import shutil
import sys
import tempfile
import textwrap

sys.path.insert(0, os.path.dirname(os.path.dirname(os.path.abspath(__file__))))

CMP = {ast.Lt: ast.LtE, ast.LtE: ast.Lt, ast.Gt: ast.GtE, ast.GtE: ast.Gt, ast.Eq: ast.NotEq, ast.NotEq: ast.Eq,
       ast.In: ast.NotIn, ast.NotIn: ast.In, ast.Is: ast.IsNot, ast.IsNot: ast.Is}
BIN = {ast.Add: ast.Sub, ast.Sub: ast.Add}


def mutants(fn):
    """(description, mutated FunctionDef) for every mutation site of fn (docstring and nested defs excluded)."""
    sites = []
    for node in ast.walk(fn):
        if isinstance(node, ast.Compare):
            for k, op in enumerate(node.ops):
                if type(op) in CMP:
                    sites.append(("cmp", node, k))
        elif isinstance(node, ast.BinOp) and type(node.op) in BIN:
            sites.append(("bin", node, None))
        elif isinstance(node, ast.BoolOp):
            sites.append(("bool", node, None))
        elif isinstance(node, ast.UnaryOp) and isinstance(node.op, ast.Not):
            sites.append(("not", node, None))
        elif isinstance(node, ast.Constant) and type(node.value) is int and node.value in (0, 1):
            sites.append(("const", node, None))
    out = []
    for kind, node, k in sites:
        idx = [i for i, n in enumerate(ast.walk(fn)) if n is node][0]
        m = copy.deepcopy(fn)
        tgt = list(ast.walk(m))[idx]
        line = getattr(node, "lineno", fn.lineno)
        if kind == "cmp":
            old = type(tgt.ops[k]).__name__
            tgt.ops[k] = CMP[type(tgt.ops[k])]()
            desc = f"L{line}: {old} -> {type(tgt.ops[k]).__name__}"
        elif kind == "bin":
            old = type(tgt.op).__name__
            tgt.op = BIN[type(tgt.op)]()
            desc = f"L{line}: {old} -> {type(tgt.op).__name__}"
        elif kind == "bool":
            old = type(tgt.op).__name__
            tgt.op = ast.Or() if isinstance(tgt.op, ast.And) else ast.And()
            desc = f"L{line}: {old} -> {type(tgt.op).__name__}"
        elif kind == "not":
            # replace `not e` by `e` in the parent: emulate with double negation removal via a marker
            tgt.op = ast.UAdd()      # +e == e for bools/ints used as truth values; unparse gives `+e`
            desc = f"L{line}: dropped `not`"
            # `+e` is not valid for arbitrary objects; use bool(e) instead
            new = ast.Call(ast.Name("bool", ast.Load()), [tgt.operand], [])
            for parent in ast.walk(m):
                for f, v in ast.iter_fields(parent):
                    if v is tgt:
                        setattr(parent, f, new)
                    elif isinstance(v, list) and any(x is tgt for x in v):
                        v[[i for i, x in enumerate(v) if x is tgt][0]] = new
        else:
            tgt.value = 1 - tgt.value
            desc = f"L{line}: constant {1 - tgt.value} -> {tgt.value}"
        out.append((desc, m))
    return out


def splice(src_text, fn, new_fn):
    lines = src_text.splitlines(keepends=True)
    body = ast.unparse(new_fn)
    # decorators are part of the unparsed text; the original span starts at the first decorator
    start = min([fn.lineno] + [d.lineno for d in fn.decorator_list]) - 1
    body = textwrap.indent(body, " " * fn.col_offset) + "\n"
    return "".join(lines[:start]) + body + "".join(lines[fn.end_lineno:])


def run_one(job):
    qual, file, source_qual, desc, new_text = job
    d = tempfile.mkdtemp(prefix="pyvc_mutsweep.")
    try:
        shutil.copytree("/repo/comb_spec_searcher", os.path.join(d, "comb_spec_searcher"))
        with open(os.path.join(d, file), "w") as f:
            f.write(new_text)
        import re
        import subprocess
        env = dict(os.environ, PYVC_GEN_S="120", PYVC_PROCS="2")
        root = os.path.dirname(os.path.dirname(os.path.abspath(__file__)))
        try:
            p = subprocess.run(["python3-vt", "-m", "pyvc.run", "--repo", d, "--fn", qual], cwd=root, env=env,
                               capture_output=True, text=True, timeout=900)
        except subprocess.TimeoutExpired:
            return (qual, desc, "killed", "timeout")
        out = p.stdout
        bad = []
        for line in out.splitlines():
            if line.startswith(("sat ", "unknown ")):
                parts = line.split()
                bad.append(parts[1].split("/", 1)[-1] + ":" + parts[0])
            elif line.startswith("UNDECIDED"):
                bad.append("undecided: " + line[10:90])
            elif line.startswith("CHECKER-ERROR"):
                bad.append("error: " + line[14:90])
            elif line.startswith("COVER") and "'unsat'" in line:
                bad.append("vacuous: " + line[:80])
        m = re.search(r"(\d+)/(\d+) obligations discharged", out)
        if m is None:
            return (qual, desc, "broken", "no summary line: " + (p.stderr or out)[-200:].replace("\n", " "))
        if not bad and m.group(1) != m.group(2):
            bad.append("not all discharged")
        if not bad and int(m.group(2)) == 0:
            bad.append("zero obligations")
        return (qual, desc, "killed" if bad else "survived", "; ".join(bad[:3]))
    finally:
        shutil.rmtree(d, ignore_errors=True)


def main():
    ap = argparse.ArgumentParser()
    ap.add_argument("--per-fn", type=int, default=6)
    ap.add_argument("--props", default="")
    ap.add_argument("--jobs", type=int, default=6)
    ap.add_argument("--fns", default="", help="comma separated qualified names: only these functions")
    ap.add_argument("--out", default=os.path.join(os.path.dirname(os.path.abspath(__file__)), "MUTATION_REPORT.md"))
    a = ap.parse_args()
    from pyvc.run import load_contracts
    from pyvc.source import SourceIndex
    reg = load_contracts()
    src = SourceIndex(reg, "/repo")
    props = [p for p in a.props.split(",") if p]
    rnd = random.Random(0)
    jobs = []
    nsites = {}
    for q, c in reg.contracts.items():
        if not c.verify or c.file.startswith("verif:") or getattr(c, "lemma", False):
            continue
        if props and not (set(props) & set(c.props)):
            continue
        if a.fns and q not in a.fns.split(","):
            continue
        fn, mod, _ = src.find(c)
        text = open(os.path.join("/repo", c.file)).read()
        ms = mutants(fn)
        nsites[q] = len(ms)
        rnd.shuffle(ms)
        for desc, m in ms[:a.per_fn]:
            jobs.append((q, c.file, getattr(c, "source", q), desc, splice(text, fn, m)))
    print(f"{len(jobs)} mutants of {len(nsites)} functions", flush=True)
    with mp.get_context("spawn").Pool(a.jobs) as pool:
        results = []
        for k, r in enumerate(pool.imap_unordered(run_one, jobs)):
            results.append(r)
            if k % 20 == 0:
                print(k, r[:3], flush=True)
    by_fn = {}
    for q, desc, verdict, why in results:
        by_fn.setdefault(q, []).append((desc, verdict, why))
    broken = [r for r in results if r[2] == "broken"]
    if broken:
        print("BROKEN RUNS (sweep is not meaningful for these):", broken[:5])
    killed = sum(1 for r in results if r[2] == "killed")
    out = ["# Mutation audit of the contracts (generated by selftest/mutsweep.py; audits the machinery, decides nothing)", "",
           f"{len(results)} single-token mutants of {len(by_fn)} functions under verified contract: **{killed} killed**, "
           f"{len(results) - killed} survived (equivalent mutants or clauses the contract does not state).", "",
           "| function | mutation sites | tried | killed | survivors |", "|---|---|---|---|---|"]
    for q in sorted(by_fn):
        rs = by_fn[q]
        sv = [d for d, v, _ in rs if v == "survived"]
        out.append(f"| `{q}` | {nsites[q]} | {len(rs)} | {len(rs) - len(sv)} | {'; '.join(sv) or '-'} |")
    none = [q for q, n in nsites.items() if n == 0]
    out += ["", "Functions without a mutation site of these kinds: " + ", ".join(f"`{q}`" for q in sorted(none))]
    open(a.out, "w").write("\n".join(out) + "\n")
    json.dump(results, open(a.out.replace(".md", ".json"), "w"), indent=1)
    print(f"killed {killed}/{len(results)}; report {a.out}")


if __name__ == "__main__":
    main()
