#!/bin/bash
# usage: selftest/seed_eval.sh <Cxx> <A|B> [extra checks...]
# Re-confirm the seeded change /verif/seeded/<Cxx>-<V>/ in a scratch worktree of /repo (created under /tmp, removed at the end):
#   1. the patch applies; the repository's test suite passes with it; the demonstration fails with it and passes without it
#   2. ./check <Cxx> --tier quick [+ extra checks] is run against the worktree with the patch applied (PYVC_REPO; results go to
#      /verif/.scratch, never to the committed evidence)
#   3. meta.json is rewritten (what it breaks / needs: seeded/NEEDS.json; what was run; which obligations and checks fired)
# Nothing is ever applied to /repo itself.
P=$1; V=$2; shift 2
D=/verif/seeded/$P-$V; PATCH=$D/patch.diff; DEMO=$D/demo.py
[ -f $PATCH ] || { echo "no patch $PATCH"; exit 9; }
WT=$(mktemp -d /tmp/seedwt.XXXXXX); rmdir $WT
git -C /repo worktree add -q --detach $WT HEAD || exit 9
OUT=$(mktemp -d /tmp/seedout.XXXXXX)
cleanup() { git -C /repo worktree remove --force $WT >/dev/null 2>&1; git -C /repo worktree prune; rm -rf $OUT; }
trap cleanup EXIT
git -C $WT apply $PATCH || { echo "PATCH DOES NOT APPLY"; exit 9; }
T=$(cd $WT && /venv/bin/python -m pytest -q -p no:cacheprovider --timeout=900 2>&1 | tail -1)
(cd /tmp && PYTHONPATH=$WT timeout 900 /venv/bin/python $DEMO >$OUT/with.out 2>&1); DW=$?
RES=""
for C in $P "$@"; do
  s=$(date +%s); out=$(cd /verif && PYVC_REPO=$WT ./check $C --tier quick 2>&1); rc=$?; e=$(date +%s)
  RES="$RES$C:exit=$rc:wall=$((e-s))s;"
  echo "check $C exit=$rc wall=$((e-s))s"; echo "$out" | grep "VIOLATION\|UNDECIDED\|CHECKER-ERROR" | cut -c1-300 | head -5
  echo "$out" | grep "VIOLATION\|UNDECIDED\|CHECKER-ERROR" | cut -c1-400 | head -12 > $OUT/check_$C.out
done
git -C $WT checkout -q -- .
(cd /tmp && PYTHONPATH=$WT timeout 900 /venv/bin/python $DEMO >$OUT/without.out 2>&1); DO=$?
echo "tests_with_change: $T"; echo "demo_with_change_exit: $DW   demo_without_change_exit: $DO"
python3 - <<PY
import json, os, re
caught = []
for C in "$P $*".split():
    f = "$OUT/check_%s.out" % C
    if os.path.exists(f):
        for l in open(f):
            m = re.search(r"VIOLATION property=(\S+) replay=\S+ obligation=(\S+)(.*)", l)
            if m:
                tag = "[P]" if "/" in m.group(2) else "[B]"
                x = f"{tag} {m.group(1)}:{m.group(2)}" + (" (no-failing-input-found)" if "no-failing-input-found" in m.group(3) else "")
                if x not in caught:
                    caught.append(x)
            elif l.startswith("UNDECIDED"):
                x = "[P] undecided (exit 2): " + l.strip()[:160]
                if x not in caught:
                    caught.append(x)
needs = {}
if os.path.exists("/verif/seeded/NEEDS.json"):
    needs = json.load(open("/verif/seeded/NEEDS.json"))
json.dump({"property": "$P", "variant": "$V", "breaks": needs.get("$P-$V", {}).get("breaks", "property $P"),
 "needs_to_manifest": needs.get("$P-$V", {}).get("needs", ""),
 "tests_with_change": """$T""", "demo_exit_with_change": $DW, "demo_exit_without_change": $DO,
 "confirmed": ("45 passed" in """$T""") and $DW != 0 and $DO == 0, "checks": "$RES", "caught_by": caught,
 "ran": "scratch git worktree of /repo under /tmp: git apply patch.diff; full test suite; demo.py (PYTHONPATH=worktree); "
        "PYVC_REPO=<worktree> ./check <id> --tier quick; git checkout -- .; demo.py again; worktree removed"},
 open("$D/meta.json", "w"), indent=1)
PY
