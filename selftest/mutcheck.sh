#!/bin/bash
# usage: selftest/mutcheck.sh <relative file> <sed expr> <Cxx> [check args]  -- full ./check on a scratch copy with one mutation
D=$(mktemp -d /tmp/pyvc_mut.XXXX)
cp -r /repo/comb_spec_searcher $D/
cp /repo/example.py $D/ 2>/dev/null
sed -i "$2" $D/$1
if cmp -s $D/$1 /repo/$1; then echo "MUTATION DID NOT APPLY"; rm -rf $D; exit 9; fi
P=$3; shift 3
cd /verif && PYVC_REPO=$D ./check $P "$@"; echo "exit=$?"
rm -rf $D
