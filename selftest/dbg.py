"""Developer aid: dump hypotheses/goal of one obligation.  usage: dbg.py <repo> <contract key> <obligation substring> [nth]"""
import sys
sys.path.insert(0, '/verif')
from pyvc.run import load_contracts
from pyvc.source import SourceIndex
from pyvc.engine import Executor
import z3
reg = load_contracts()
key = sys.argv[2]
c = reg.contracts[key.split('@')[0]]
if '@' in key:
    c = reg.variant(c, int(key.split('@')[1]))
src = SourceIndex(reg, sys.argv[1])
fn, mod, _ = src.find(c)
ex = Executor(reg, c, fn, mod, src, aliases=getattr(c, 'aliases', None))
obls, covers = ex.run()
n = 0
want = int(sys.argv[4]) if len(sys.argv) > 4 else 1
for o in obls:
    if sys.argv[3] in o.oid:
        n += 1
        if n == want:
            s = z3.Solver(); s.set('timeout', 10000)
            for h in o.hyps: s.add(h)
            s.add(z3.Not(o.goal)); r = s.check(); print(o.oid, r)
            for h in o.hyps: print('  H', str(h)[:600])
            print('  G', str(o.goal)[:1500])
            if r == z3.sat:
                m = s.model()
                for h in o.hyps:
                    if not z3.is_quantifier(h) and not z3.is_true(m.eval(h, model_completion=True)):
                        print('  hyp not true in model:', str(h)[:200])
print('matches', n)
