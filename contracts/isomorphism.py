"""Contracts for comb_spec_searcher/isomorphism.py (property C12): permutation inverse, backtracking stack."""
from pyvc.dsl import *

F = "comb_spec_searcher/isomorphism.py"
StackEntry = Tup(Int, Int, Set(Int))

contract(F, "Bijection._perm_inv", props=["C12"],
         params={"perm": List(Int)}, returns=List(Int), locals={"inv": List(Int)},
         requires=["forall(lambda i: implies(0 <= i and i < len(perm), 0 <= perm[i] and perm[i] < len(perm)))",
                   "forall(lambda i, j: implies(0 <= i and i < j and j < len(perm), perm[i] != perm[j]))"],
         ensures=["fresh(result)", "len(result) == len(perm)",
                  "forall(lambda i: implies(0 <= i and i < len(perm), result[perm[i]] == i))",
                  "forall(lambda j: implies(0 <= j and j < len(result), 0 <= result[j] and result[j] < len(perm)))"],
         loops={0: dict(invariant=["len(inv) == len(perm)",
                                   "forall(lambda k: implies(0 <= k and k < _i0, inv[perm[k]] == k))",
                                   "forall(lambda j: implies(0 <= j and j < len(inv), 0 <= inv[j] and inv[j] < len(perm)))"],
                        modifies=["*inv"])},
         modifies=[], notes="inverse of a permutation of range(n): inv[perm[i]] == i")

for cls, f in (("Isomorphism", F), ("ParallelSpecFinder", "comb_spec_searcher/bijection.py")):
    contract(f, f"{cls}._extend_stack", props=["C12", "C13"],
             params={"i1": Int, "n": Int, "in_use": Set(Int), "stack": List(StackEntry)},
             requires=["n >= 0"],
             ensures=["len(stack) >= old(len(stack))",
                      "forall(lambda k: implies(0 <= k and k < old(len(stack)), stack[k] == old(stack[k])))",
                      # every pushed entry is (i1 + 1, i, in_use + {i}) for an unused index i
                      "forall(lambda k: implies(old(len(stack)) <= k and k < len(stack), stack[k][0] == i1 + 1 and "
                      "0 <= stack[k][1] and stack[k][1] < n and not (stack[k][1] in in_use)))",
                      "forall(lambda k, y: implies(old(len(stack)) <= k and k < len(stack), "
                      "(y in stack[k][2]) == (y in in_use or y == stack[k][1])))",
                      # ... in descending order, and every unused index is pushed
                      "forall(lambda k, l: implies(old(len(stack)) <= k and k < l and l < len(stack), stack[k][1] > stack[l][1]))",
                      "forall(lambda i: implies(0 <= i and i < n and not (i in in_use), "
                      "exists(lambda k: old(len(stack)) <= k and k < len(stack) and stack[k][1] == i)))"],
             loops={0: dict(invariant=[
                 "len(stack) >= at('loop0', len(stack))",
                 "forall(lambda k: implies(0 <= k and k < at('loop0', len(stack)), stack[k] == at('loop0', stack[k])))",
                 "forall(lambda k: implies(at('loop0', len(stack)) <= k and k < len(stack), stack[k][0] == i1 + 1 and "
                 "n - _i0 <= stack[k][1] and stack[k][1] < n and not (stack[k][1] in in_use)))",
                 "forall(lambda k, y: implies(at('loop0', len(stack)) <= k and k < len(stack), "
                 "(y in stack[k][2]) == (y in in_use or y == stack[k][1])))",
                 "forall(lambda k, l: implies(at('loop0', len(stack)) <= k and k < l and l < len(stack), stack[k][1] > stack[l][1]))",
                 "forall(lambda i: implies(n - _i0 <= i and i < n and not (i in in_use), "
                 "exists(lambda k: at('loop0', len(stack)) <= k and k < len(stack) and stack[k][1] == i)))"],
                 modifies=["*stack"])},
             modifies=["*stack"])

# ------------------------------------------------------------------ C18: Bijection._populate_json_map
# every entry of a map keyed by pairs of classes arrives in the two-level JSON map under the pair of identifiers
from .common import CombClass as _CC
AnyV = Opaque("Any")
PairK = Tup(_CC, _CC)
_JM = Dict(Str, Dict(Str, AnyV))
_ENTRY = ("id_map[{k}[0]] in json_map and id_map[{k}[1]] in json_map[id_map[{k}[0]]] and "
          "json_map[id_map[{k}[0]]][id_map[{k}[1]]] == tuple_map[{k}]")
contract(F, "Bijection._populate_json_map", props=["C18"], aliases={"Any": AnyV, "CombClass": _CC, "PairK": PairK},
         params={"tuple_map": Dict(PairK, AnyV), "json_map": _JM, "id_map": Dict(_CC, Str)},
         requires=["forall(lambda k=PairK: implies(k in tuple_map, k[0] in id_map and k[1] in id_map))",
                   # identifiers are distinct for distinct classes (they are positions in the class array)
                   "forall(lambda a=CombClass, b=CombClass: implies(a in id_map and b in id_map and id_map[a] == id_map[b], a == b))",
                   "len(json_map) == 0"],
         ensures=["forall(lambda k=PairK: implies(k in tuple_map, " + _ENTRY.format(k="k") + "))"],
         loops={0: dict(ghost_before=[
             # pairs of classes get distinct pairs of identifiers (consequence of the precondition, proved once)
             "assert forall(lambda k=PairK, l=PairK: implies(k in tuple_map and l in tuple_map and "
             "id_map[k[0]] == id_map[l[0]] and id_map[k[1]] == id_map[l[1]], k == l))"],
             invariant=[
             "forall(lambda j: implies(0 <= j and j < _i0, id_map[_keys0[j][0]] in json_map))",
             "forall(lambda j: implies(0 <= j and j < _i0, id_map[_keys0[j][1]] in json_map[id_map[_keys0[j][0]]]))",
             "forall(lambda j: implies(0 <= j and j < _i0, json_map[id_map[_keys0[j][0]]][id_map[_keys0[j][1]]] == tuple_map[_keys0[j]]))",
             # the inner dictionaries are distinct objects created here
             "forall(lambda s=Str: implies(s in json_map, fresh(json_map[s])))",
             "forall(lambda s=Str, t=Str: implies(s in json_map and t in json_map and s != t, not same(json_map[s], json_map[t])))"],
             modifies=["*json_map", "all:Dict(Str, Any)"])},
         modifies=["*json_map", "all:Dict(Str, Any)"],
         notes="needs distinct identifiers for distinct classes (established by _classes_to_array)")
