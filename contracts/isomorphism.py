"""Contracts for comb_spec_searcher/isomorphism.py (property C12): permutation inverse, backtracking stack."""
from pyvc.dsl import *

F = "comb_spec_searcher/isomorphism.py"
StackEntry = Tup(Int, Int, Set(Int))

contract(F, "Bijection._perm_inv", props=["C12"],
         params={"perm": List(Int)}, returns=List(Int), locals={"inv": List(Int)},
         requires=["forall(lambda i: implies(0 <= i and i < len(perm), 0 <= perm[i] and perm[i] < len(perm)))",
                   "forall(lambda i, j: implies(0 <= i and i < j and j < len(perm), perm[i] != perm[j]))"],
         ensures=["fresh(result)", "len(result) == len(perm)",
                  "forall(lambda i: implies(0 <= i and i < len(perm), result[perm[i]] == i))",
                  "forall(lambda j: implies(0 <= j and j < len(result), 0 <= result[j] and result[j] < len(perm)))"],
         loops={0: dict(invariant=["len(inv) == len(perm)",
                                   "forall(lambda k: implies(0 <= k and k < _i0, inv[perm[k]] == k))",
                                   "forall(lambda j: implies(0 <= j and j < len(inv), 0 <= inv[j] and inv[j] < len(perm)))"],
                        modifies=["*inv"])},
         modifies=[], notes="inverse of a permutation of range(n): inv[perm[i]] == i")

for cls, f in (("Isomorphism", F), ("ParallelSpecFinder", "comb_spec_searcher/bijection.py")):
    contract(f, f"{cls}._extend_stack", props=["C12", "C13"],
             params={"i1": Int, "n": Int, "in_use": Set(Int), "stack": List(StackEntry)},
             requires=["n >= 0"],
             ensures=["len(stack) >= old(len(stack))",
                      "forall(lambda k: implies(0 <= k and k < old(len(stack)), stack[k] == old(stack[k])))",
                      # every pushed entry is (i1 + 1, i, in_use + {i}) for an unused index i
                      "forall(lambda k: implies(old(len(stack)) <= k and k < len(stack), stack[k][0] == i1 + 1 and "
                      "0 <= stack[k][1] and stack[k][1] < n and not (stack[k][1] in in_use)))",
                      "forall(lambda k, y: implies(old(len(stack)) <= k and k < len(stack), "
                      "(y in stack[k][2]) == (y in in_use or y == stack[k][1])))",
                      # ... in descending order, and every unused index is pushed
                      "forall(lambda k, l: implies(old(len(stack)) <= k and k < l and l < len(stack), stack[k][1] > stack[l][1]))",
                      "forall(lambda i: implies(0 <= i and i < n and not (i in in_use), "
                      "exists(lambda k: old(len(stack)) <= k and k < len(stack) and stack[k][1] == i)))"],
             loops={0: dict(invariant=[
                 "len(stack) >= at('loop0', len(stack))",
                 "forall(lambda k: implies(0 <= k and k < at('loop0', len(stack)), stack[k] == at('loop0', stack[k])))",
                 "forall(lambda k: implies(at('loop0', len(stack)) <= k and k < len(stack), stack[k][0] == i1 + 1 and "
                 "n - _i0 <= stack[k][1] and stack[k][1] < n and not (stack[k][1] in in_use)))",
                 "forall(lambda k, y: implies(at('loop0', len(stack)) <= k and k < len(stack), "
                 "(y in stack[k][2]) == (y in in_use or y == stack[k][1])))",
                 "forall(lambda k, l: implies(at('loop0', len(stack)) <= k and k < l and l < len(stack), stack[k][1] > stack[l][1]))",
                 "forall(lambda i: implies(n - _i0 <= i and i < n and not (i in in_use), "
                 "exists(lambda k: at('loop0', len(stack)) <= k and k < len(stack) and stack[k][1] == i)))"],
                 modifies=["*stack"])},
             modifies=["*stack"])

# ------------------------------------------------------------------ C18: Bijection._populate_json_map
# every entry of a map keyed by pairs of classes arrives in the two-level JSON map under the pair of identifiers
from .common import CombClass as _CC
AnyV = Opaque("Any")
PairK = Tup(_CC, _CC)
_JM = Dict(Str, Dict(Str, AnyV))
_ENTRY = ("id_map[{k}[0]] in json_map and id_map[{k}[1]] in json_map[id_map[{k}[0]]] and "
          "json_map[id_map[{k}[0]]][id_map[{k}[1]]] == tuple_map[{k}]")
contract(F, "Bijection._populate_json_map", props=["C18"], aliases={"Any": AnyV, "CombClass": _CC, "PairK": PairK},
         params={"tuple_map": Dict(PairK, AnyV), "json_map": _JM, "id_map": Dict(_CC, Str)},
         requires=["forall(lambda k=PairK: implies(k in tuple_map, k[0] in id_map and k[1] in id_map))",
                   # identifiers are distinct for distinct classes (they are positions in the class array)
                   "forall(lambda a=CombClass, b=CombClass: implies(a in id_map and b in id_map and id_map[a] == id_map[b], a == b))",
                   "len(json_map) == 0"],
         ensures=["forall(lambda k=PairK: implies(k in tuple_map, " + _ENTRY.format(k="k") + "))"],
         loops={0: dict(ghost_before=[
             # pairs of classes get distinct pairs of identifiers (consequence of the precondition, proved once)
             "assert forall(lambda k=PairK, l=PairK: implies(k in tuple_map and l in tuple_map and "
             "id_map[k[0]] == id_map[l[0]] and id_map[k[1]] == id_map[l[1]], k == l))"],
             invariant=[
             "forall(lambda j: implies(0 <= j and j < _i0, id_map[_keys0[j][0]] in json_map))",
             "forall(lambda j: implies(0 <= j and j < _i0, id_map[_keys0[j][1]] in json_map[id_map[_keys0[j][0]]]))",
             "forall(lambda j: implies(0 <= j and j < _i0, json_map[id_map[_keys0[j][0]]][id_map[_keys0[j][1]]] == tuple_map[_keys0[j]]))",
             # the inner dictionaries are distinct objects created here
             "forall(lambda s=Str: implies(s in json_map, fresh(json_map[s])))",
             "forall(lambda s=Str, t=Str: implies(s in json_map and t in json_map and s != t, not same(json_map[s], json_map[t])))"],
             modifies=["*json_map", "all:Dict(Str, Any)"])},
         modifies=["*json_map", "all:Dict(Str, Any)"],
         notes="needs distinct identifiers for distinct classes (established by _classes_to_array)")

# ------------------------------------------------------------------ C12: atoms are matched only with atoms of the same size
from .common import CombObj as _CO
opaque_method("CombClass", "objects_of_size", Seq(_CO), args=[Int])
opaque_method("CombObj", "size", Int)
klass(F, "Isomorphism", fields={}) if "Isomorphism" not in REG.classes else None
_ASZ = "{a}.objects_of_size({a}.minimum_size_of_object())[0].size()"
contract(F, "Isomorphism._atom_match", props=["C12"], lenient=True, aliases={"CombClass": _CC},
         params={"self": Obj("Isomorphism"), "atom1": _CC, "atom2": _CC, "rule1": Obj("Rule"), "rule2": Obj("Rule")},
         returns=Bool, pure_calls=["get_terms"], may_raise=["StopIteration"],
         # a leaf of one specification is matched with a leaf of the other only if their single objects have the same size
         ensures=["implies(result, " + _ASZ.format(a="atom1") + " == " + _ASZ.format(a="atom2") + ")"],
         modifies=["all:Obj('AbstractRule')", "all:List(Opaque('Terms'))"],
         notes="necessary condition for a size-preserving bijection; equality of the terms is not tracked (lenient)")

# ------------------------------------------------------------------ C12: Bijection.__init__ / map / inverse_map
# the inverse direction uses, for every matched pair (c1, c2), the INVERSE child permutation under the swapped key, and the
# two public maps hand the matching tables to ParseTreeMap.map in the right orientation
OrderMap = Dict(Tup(_CC, _CC), List(Int))
DataMap = Dict(Tup(_CC, _CC), AnyV)
SpecT = Opaque("Spec")
klass(F, "Bijection", fields={"_index_data": DataMap, "_inv_index_data": DataMap, "_spec": SpecT, "_other": SpecT,
                              "_get_order": OrderMap, "_get_inverse_order": OrderMap})
_BAL = {"Any": AnyV, "CombClass": _CC, "PairK": PairK, "Spec": SpecT}
_PERM = ("forall(lambda k=PairK: implies(k in get_order, "
         "forall(lambda i: implies(0 <= i and i < len(get_order[k]), 0 <= get_order[k][i] and get_order[k][i] < len(get_order[k]))) and "
         "forall(lambda i, j: implies(0 <= i and i < j and j < len(get_order[k]), get_order[k][i] != get_order[k][j]))))")
contract(F, "Bijection.__init__", props=["C12", "C18"], aliases=_BAL,
         params={"self": Obj("Bijection"), "spec": SpecT, "other": SpecT, "get_order": OrderMap, "index_data": Opt(DataMap)},
         requires=[_PERM],      # every stored child order is a permutation of range(n) (what Isomorphism builds)
         ensures=["self._spec == spec", "self._other == other", "same(self._get_order, get_order)",
                  "implies(not is_none(index_data), same(self._index_data, val(index_data)))",
                  # inverse orders: swapped key, inverse permutation
                  "forall(lambda a=CombClass, b=CombClass: ((b, a) in self._get_inverse_order) == ((a, b) in get_order))",
                  "forall(lambda a=CombClass, b=CombClass: implies((a, b) in get_order, "
                  "len(self._get_inverse_order[(b, a)]) == len(get_order[(a, b)]) and "
                  "forall(lambda i: implies(0 <= i and i < len(get_order[(a, b)]), "
                  "self._get_inverse_order[(b, a)][get_order[(a, b)][i]] == i))))",
                  # inverse index data: swapped key, same datum
                  "forall(lambda a=CombClass, b=CombClass: ((b, a) in self._inv_index_data) == ((a, b) in self._index_data))",
                  "forall(lambda a=CombClass, b=CombClass: implies((a, b) in self._index_data, "
                  "self._inv_index_data[(b, a)] == self._index_data[(a, b)]))"],
         modifies=["*self", "all:Dict(Tup(CombClass, CombClass), Any)", "all:Dict(Tup(CombClass, CombClass), List(Int))",
                   "all:List(Int)"], self_invariant=False,
         notes="construction of the inverse tables")
ObjT = Opaque("CombObj")
contract(F, "ParseTreeMap.map", props=["C12"], verify=False, aliases=_BAL,
         trusted_reason="recursive transport of a parse tree along the matching (bounded stand-in c12: bijectivity on objects)",
         params={"domain": SpecT, "codomain": SpecT, "get_order": OrderMap, "index_data": DataMap, "obj": ObjT},
         returns=ObjT, may_raise=["AssertionError", "StrategyDoesNotApply", "KeyError"], modifies=[])
contract(F, "Bijection.map", props=["C12"], aliases=_BAL,
         params={"self": Obj("Bijection"), "obj": ObjT}, returns=ObjT,
         may_raise=["AssertionError", "StrategyDoesNotApply", "KeyError"],
         call_requires={"ParseTreeMap.map": ["domain == self._spec", "codomain == self._other",
                                             "same(get_order, self._get_order)",
                                             "same(index_data, self._index_data)", "obj == caller_obj"]},
         modifies=[], notes="forward direction: first specification to second, forward tables")
contract(F, "Bijection.inverse_map", props=["C12"], aliases=_BAL,
         params={"self": Obj("Bijection"), "obj": ObjT}, returns=ObjT,
         may_raise=["AssertionError", "StrategyDoesNotApply", "KeyError"],
         call_requires={"ParseTreeMap.map": ["domain == self._other", "codomain == self._spec",
                                             "same(get_order, self._get_inverse_order)",
                                             "same(index_data, self._inv_index_data)", "obj == caller_obj"]},
         modifies=[], notes="backward direction: specifications swapped, inverse tables")
