"""Shared sorts and opaque (user-code) interfaces.  Everything here is assumption A2: user classes honour the
documented contracts and these methods are pure and deterministic."""
from pyvc.dsl import *

CombClass = Opaque("CombClass")
CombObj = Opaque("CombObj")
Strategy = Opaque("Strategy")
TermsT = Opaque("Terms")          # a Counter[Parameters] as an opaque value

opaque_method("CombClass", "minimum_size_of_object", Int)
opaque_method("CombClass", "is_atom", Bool)
opaque_method("CombClass", "is_empty", Bool, may_raise="UserCodeError")

# term providers handed to constructors: subterms[i](m) / parent_terms(m); the value of a Fun is the provider's id
provider("terms", args=[Int], arg_names=["m"], returns=TermsT)

# Terms (a Counter[Parameters]) stored in the per-rule caches: treated as immutable values once cached
opaque_method("Terms", "__getitem__", Int, args=[Seq(Int)])
opaque_attr("CombClass", "extra_parameters", Seq(Str))
