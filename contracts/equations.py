"""Contracts for the equation builders (property C20): which substitution is handed to sympy.

Sympy expressions are opaque values (sort Expr) built with uninterpreted operators; `has_var(e, p)` is the
specification predicate "variable p occurs as a factor of e", axiomatised for variables and products only."""
import z3
from pyvc.dsl import *
from pyvc.core import Val

FD = "comb_spec_searcher/strategies/constructor/disjoint.py"
FC = "comb_spec_searcher/strategies/constructor/cartesian.py"
Expr = Opaque("Expr")
AL = {"Expr": Expr}
provider("sympy_func", args=[Dict(Str, Expr)], arg_names=["subs"], returns=Expr)


def _has_var(ex, st, e, p):
    E = Expr.sort()
    hv = z3.Function("has_var", E, z3.StringSort(), z3.BoolSort())
    var = z3.Function("expr_var", z3.StringSort(), E)
    mul = z3.Function("expr_Mult", E, E, E)
    a, b = z3.Const("hv_a", E), z3.Const("hv_b", E)
    q, r = z3.String("hv_q"), z3.String("hv_r")
    st.assume(z3.ForAll([q, r], hv(var(q), r) == (q == r)))
    st.assume(z3.ForAll([a, b, r], hv(mul(a, b), r) == z3.Or(hv(a, r), hv(b, r))))
    return Val(Bool, hv(e.z, p.z))


spec_fn("has_var", _has_var)

# the substitution handed to rhs_func.subs for one child: child variable c is replaced by an expression whose
# variable factors are exactly the parent variables mapped to c
_SUBS_OK = ("forall(lambda c=Str, p=Str: implies(c in subs, has_var(subs[c], p) == "
            "(p in extra_parameters and extra_parameters[p] == c)))")
_SUBS_DOM = "forall(lambda c=Str: (c in subs) == exists(lambda p=Str: p in extra_parameters and extra_parameters[p] == c))"
_INV = ["forall(lambda c=Str, p=Str: implies(c in subs, has_var(subs[c], p) == "
        "(exists(lambda j: 0 <= j and j < _i1 and _keys1[j] == p) and extra_parameters[p] == c)))",
        "forall(lambda c=Str: (c in subs) == exists(lambda j: 0 <= j and j < _i1 and extra_parameters[_keys1[j]] == c))"]

for file, cls in ((FD, "DisjointUnion"), (FC, "CartesianProduct")):
    klass(file, cls, fields={"extra_parameters": Seq(Dict(Str, Str))}) if cls not in REG.classes else \
        REG.classes[cls].fields.update({"extra_parameters": Seq(Dict(Str, Str))})
    contract(file, f"{cls}.get_equation", props=["C20"], lenient=True, aliases=AL,
             params={"self": Obj(cls), "lhs_func": Expr, "rhs_funcs": Seq(Fun("sympy_func"))},
             locals={"subs": Dict(Str, Expr)},
             requires=["len(rhs_funcs) == len(self.extra_parameters)"],
             provider_requires={"sympy_func": [_SUBS_OK, _SUBS_DOM]},
             loops={1: dict(invariant=_INV, modifies=["*subs"])},
             modifies=["all:Dict(Str, Expr)"],
             notes="several parent statistics mapped to one child statistic are all multiplied into the substitution")

# Quotient / Complement (the reverse constructors): an equation exists only when NO child carries extra parameters --
# with a parameter on any sibling the plain quotient/difference of generating functions would be wrong.
for file, cls in ((FC, "Quotient"), (FD, "Complement")):
    REG.classes[cls].fields.update({"extra_parameters": Seq(Dict(Str, Str))})
    contract(file, f"{cls}.get_equation", props=["C20"], lenient=True, aliases=AL,
             params={"self": Obj(cls), "lhs_func": Expr, "rhs_funcs": Seq(Expr)},
             requires=["len(rhs_funcs) == len(self.extra_parameters)", "len(rhs_funcs) >= 1"],
             raises=[("NotImplementedError", "exists(lambda j: 0 <= j and j < len(self.extra_parameters) and "
                                             "len(self.extra_parameters[j]) > 0)")],
             notes="refuses (NotImplementedError) exactly when some child has extra parameters")

# ---- Rule.get_equation: which functions are handed to the constructor (left: the rule's class; right: its children, in order)
from . import rule as _rule_contracts  # noqa: E402,F401
FRU = "comb_spec_searcher/strategies/rule.py"
FCB = "comb_spec_searcher/strategies/constructor/base.py"
provider("genf", args=[Opaque("CombClass")], arg_names=["c"], returns=Expr)


def _genf_of(ex, st, f, c):
    return Val(Expr, z3.Function("prov_genf", z3.IntSort(), c.z.sort(), Expr.sort())(f.z, c.z))


spec_fn("genf_of", _genf_of)
contract(FCB, "ConstructorAny.get_equation", source="Constructor.get_equation", props=["C20"], verify=False,
         trusted_reason="abstract method: each constructor's own get_equation is verified above (DisjointUnion, CartesianProduct, "
                        "Quotient, Complement)",
         params={"self": Obj("ConstructorAny"), "lhs_func": Expr, "rhs_funcs": Seq(Expr)}, returns=Expr,
         may_raise=["NotImplementedError"], modifies=[])
contract(FRU, "Rule.get_equation", props=["C20"], aliases=AL,
         params={"self": Obj("Rule"), "get_function": Fun("genf")}, returns=Expr,
         may_raise=["NotImplementedError", "StrategyDoesNotApply"],
         call_requires={"ConstructorAny.get_equation": [
             "same(self, ctor_of(caller_self))",
             "lhs_func == genf_of(get_function, caller_self.comb_class)",
             "len(rhs_funcs) == len(children_of(caller_self))",
             "forall(lambda i: implies(0 <= i and i < len(rhs_funcs), rhs_funcs[i] == genf_of(get_function, children_of(caller_self)[i])))"]},
         modifies=["self._constructor", "self._children"],
         notes="the equation relates the generating function of the rule's class to those of its children, in order")
