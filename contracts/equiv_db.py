"""Contracts for comb_spec_searcher/equiv_db.py (property C06): union-find find with path compression.

root(P, x) is the specification function  root(P, x) = x if P[x] == x else root(P, P[x])  (a recursive definition over
the parents map; total on the acyclic maps the data structure maintains)."""
import z3
from pyvc.dsl import *
from pyvc.core import Val

F = "comb_spec_searcher/equiv_db.py"
_rootf = None


def rootf():
    global _rootf
    if _rootf is None:
        A = z3.ArraySort(z3.IntSort(), z3.IntSort())
        f = z3.RecFunction("uf_root", A, z3.IntSort(), z3.IntSort())
        p, x = z3.Const("uf_p", A), z3.Int("uf_x")
        z3.RecAddDefinition(f, [p, x], z3.If(z3.Select(p, x) == x, x, f(p, z3.Select(p, x))))
        _rootf = f
    return _rootf


def _root(ex, st, d, x):
    return Val(Int, rootf()(ex.dvals(st, d), x.z))


spec_fn("uf_root", _root)

klass(F, "EquivalenceDB",
      fields={"parents": Dict(Int, Int), "weights": Dict(Int, Int), "verified_roots": Set(Int),
              "vertices": DefaultDict(Int, Set(Int)), "_one_way_vertices": DefaultDict(Int, Set(Int))},
      invariant=["not same(self.parents, self.weights)", "not same(self.vertices, self._one_way_vertices)",
                 "forall(lambda x: implies(x in self.parents, self.parents[x] in self.parents))",
                 "forall(lambda x: implies(x in self.parents, x in self.weights))"])

_SAME_DOM = "forall(lambda y: (y in self.parents) == old(y in self.parents))"

contract(F, "EquivalenceDB.__getitem__", props=["C06", "C05"],
         params={"self": Obj("EquivalenceDB"), "comb_class": Int}, returns=Int,
         locals={"path": List(Int), "root": Opt(Int)},
         ensures=[
             # unknown label: inserted as its own root with weight 1, nothing else changes
             "implies(not old(comb_class in self.parents), result == comb_class and self.parents[comb_class] == comb_class "
             "and self.weights[comb_class] == 1)",
             "implies(not old(comb_class in self.parents), forall(lambda y: implies(y != comb_class, "
             "(y in self.parents) == old(y in self.parents) and self.parents[y] == old(self.parents[y]))))",
             # known label: the result is its root, the result is a root, the key set is unchanged
             "implies(old(comb_class in self.parents), result == old(uf_root(self.parents, comb_class)))",
             "implies(old(comb_class in self.parents), self.parents[result] == result and " + _SAME_DOM + ")",
             # path compression is sound: a rewritten pointer points to the old root of that label
             "implies(old(comb_class in self.parents), forall(lambda y: implies(old(y in self.parents), "
             "self.parents[y] == old(self.parents[y]) or (self.parents[y] == result and old(uf_root(self.parents, y)) == result))))",
             "forall(lambda y: implies(y != comb_class, (y in self.weights) == old(y in self.weights) and "
             "self.weights[y] == old(self.weights[y])))",
         ],
         loops={
             0: dict(invariant=[
                 "not is_none(root)", "len(path) >= 1", "val(root) in self.parents",
                 "val(root) == self.parents[path[len(path) - 1]]",
                 "forall(lambda j: implies(0 <= j and j < len(path), path[j] in self.parents and "
                 "uf_root(self.parents, path[j]) == uf_root(self.parents, comb_class)))"],
                 modifies=["*path"]),
             1: dict(invariant=[
                 "not is_none(root)",
                 "forall(lambda y: (y in self.parents) == at('loop1', y in self.parents))",
                 "self.parents[val(root)] == val(root)",
                 "forall(lambda y: implies(y in self.parents, self.parents[y] == at('loop1', self.parents[y]) or "
                 "(self.parents[y] == val(root) and exists(lambda j: 0 <= j and j < _i1 and path[j] == y))))"],
                 modifies=["*self.parents"]),
         },
         modifies=["*self.parents", "*self.weights"],
         notes="termination of the pointer chase (acyclicity) is not proved here; bounded stand-in covers it")

contract(F, "EquivalenceDB.is_verified", props=["C06"],
         params={"self": Obj("EquivalenceDB"), "comb_class": Int}, returns=Bool,
         ensures=["implies(old(comb_class in self.parents), result == (old(uf_root(self.parents, comb_class)) in self.verified_roots))",
                  "implies(not old(comb_class in self.parents), result == (comb_class in self.verified_roots))",
                  "forall(lambda y: (y in self.verified_roots) == old(y in self.verified_roots))"],
         modifies=["*self.parents", "*self.weights"])

contract(F, "EquivalenceDB.equivalent", props=["C06"],
         params={"self": Obj("EquivalenceDB"), "label": Int, "other_label": Int}, returns=Bool,
         ensures=[],
         modifies=["*self.parents", "*self.weights"],
         notes="answered by comparing the two find() results")

contract(F, "EquivalenceDB._add_edge", props=["C06"],
         params={"self": Obj("EquivalenceDB"), "label": Int, "other_label": Int},
         ensures=["implies(label != other_label, label in self.vertices and other_label in self.vertices[label])",
                  "implies(label == other_label, forall(lambda y: (y in self.vertices) == old(y in self.vertices)))"],
         modifies=["*self.vertices", "all:Set(Int)"],
         notes="self loops are never recorded")
