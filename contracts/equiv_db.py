"""Contracts for comb_spec_searcher/equiv_db.py (property C06; used by C05/C02/C14).

Ghost state: `rep` -- the representative of every label (a total map; labels the database has not seen represent
themselves).  The representation invariant ties the parent pointers to it without any recursion:
    rep[parents[x]] == rep[x]          (a pointer never leaves the class)
    parents[x] == x  ==>  rep[x] == x  (a root represents itself)
so that the pointer chase of `find` ends at rep[x] (partial correctness; termination/acyclicity is not proved here).
`rep` is updated by ghost statements exactly where a root is re-pointed (union)."""
from pyvc.dsl import *

F = "comb_spec_searcher/equiv_db.py"

klass(F, "EquivalenceDB",
      fields={"parents": Dict(Int, Int), "weights": Dict(Int, Int), "verified_roots": Set(Int),
              "vertices": DefaultDict(Int, Set(Int)), "_one_way_vertices": DefaultDict(Int, Set(Int))},
      ghost_fields={"rep": Map(Int, Int)},
      invariant=["not same(self.parents, self.weights)", "not same(self.vertices, self._one_way_vertices)",
                 "forall(lambda k: implies(k in self.vertices, not same(self.vertices[k], self.verified_roots)))",
                 "forall(lambda k: implies(k in self._one_way_vertices, not same(self._one_way_vertices[k], self.verified_roots)))",
                 "forall(lambda x: implies(x in self.parents, self.parents[x] in self.parents))",
                 "forall(lambda x: implies(x in self.parents, x in self.weights))",
                 "forall(lambda x: implies(x in self.parents, self.rep[self.parents[x]] == self.rep[x]))",
                 "forall(lambda x: implies(x in self.parents and self.parents[x] == x, self.rep[x] == x))",
                 "forall(lambda x: implies(not (x in self.parents), self.rep[x] == x))",
                 "forall(lambda x: implies(x in self.parents, self.rep[x] in self.parents))",
                 "forall(lambda x: self.rep[self.rep[x]] == self.rep[x])"])
E = Obj("EquivalenceDB")
_REP_SAME = "forall(lambda y: self.rep[y] == old(self.rep[y]))"
_VR_SAME = "forall(lambda y: (y in self.verified_roots) == old(y in self.verified_roots))"
_FIND_MODS = ["*self.parents", "*self.weights"]

contract(F, "EquivalenceDB.__getitem__", props=["C06", "C05"],
         params={"self": E, "comb_class": Int}, returns=Int,
         locals={"path": List(Int), "root": Opt(Int)},
         ensures=["result == self.rep[comb_class]", _REP_SAME,
                  "result in self.parents and self.parents[result] == result",
                  "forall(lambda y: implies(y != comb_class, (y in self.parents) == old(y in self.parents)))",
                  "comb_class in self.parents",
                  "forall(lambda y: implies(y != comb_class, (y in self.weights) == old(y in self.weights) and "
                  "self.weights[y] == old(self.weights[y])))",
                  "implies(old(comb_class in self.parents), self.weights[comb_class] == old(self.weights[comb_class]))"],
         loops={
             0: dict(invariant=["not is_none(root)", "len(path) >= 1", "val(root) in self.parents",
                                "val(root) == self.parents[path[len(path) - 1]]", "self.rep[val(root)] == self.rep[comb_class]",
                                "forall(lambda j: implies(0 <= j and j < len(path), path[j] in self.parents and "
                                "self.rep[path[j]] == self.rep[comb_class]))"],
                     modifies=["*path"]),
             1: dict(invariant=["not is_none(root)", "val(root) in self.parents", "self.rep[val(root)] == val(root)",
                                "forall(lambda y: (y in self.parents) == at('loop1', y in self.parents))",
                                "self.parents[val(root)] == val(root)",
                                "forall(lambda x: implies(x in self.parents, self.parents[x] in self.parents))",
                                "forall(lambda x: implies(x in self.parents, self.rep[self.parents[x]] == self.rep[x]))",
                                "forall(lambda x: implies(x in self.parents and self.parents[x] == x, self.rep[x] == x))"],
                     modifies=["*self.parents"]),
         },
         modifies=_FIND_MODS,
         notes="find with path compression: returns the representative, never changes the partition")

contract(F, "EquivalenceDB.is_verified", props=["C06"],
         params={"self": E, "comb_class": Int}, returns=Bool,
         ensures=["result == (self.rep[comb_class] in self.verified_roots)", _REP_SAME, _VR_SAME],
         modifies=_FIND_MODS)

contract(F, "EquivalenceDB.equivalent", props=["C06"],
         params={"self": E, "label": Int, "other_label": Int}, returns=Bool,
         ensures=["result == (self.rep[label] == self.rep[other_label])", _REP_SAME, _VR_SAME],
         modifies=_FIND_MODS, notes="two labels are equivalent iff they have the same representative")

contract(F, "EquivalenceDB.set_verified", props=["C06", "C05", "C14"],
         params={"self": E, "comb_class": Int},
         ensures=[_REP_SAME,
                  "forall(lambda y: (y in self.verified_roots) == (old(y in self.verified_roots) or y == self.rep[comb_class]))"],
         modifies=_FIND_MODS + ["*self.verified_roots"],
         notes="marks the whole class: exactly the representative is added")

_IS_VER = "(self.rep[{y}] in self.verified_roots)"
_WAS_VER = "old(self.rep[{y}] in self.verified_roots)"
contract(F, "EquivalenceDB._set_equivalent", props=["C06"],
         params={"self": E, "label": Int, "other_label": Int},
         ensures=[
             # the two classes are merged, every other class is untouched
             "self.rep[label] == self.rep[other_label]",
             "forall(lambda y: implies(old(self.rep[y]) != old(self.rep[label]) and old(self.rep[y]) != old(self.rep[other_label]), "
             "self.rep[y] == old(self.rep[y])))",
             "forall(lambda y: implies(old(self.rep[y]) == old(self.rep[label]) or old(self.rep[y]) == old(self.rep[other_label]), "
             "self.rep[y] == self.rep[label]))",
             "self.rep[label] == old(self.rep[label]) or self.rep[label] == old(self.rep[other_label])",
             # the verified flag survives the merge whichever root wins
             "forall(lambda y: " + _IS_VER.format(y="y") + " == (" + _WAS_VER.format(y="y") + " or "
             "((old(self.rep[y]) == old(self.rep[label]) or old(self.rep[y]) == old(self.rep[other_label])) and ("
             + _WAS_VER.format(y="label") + " or " + _WAS_VER.format(y="other_label") + "))))"],
         ghost_stmts={"after:assign#4": ["self.rep = remap(self.rep, r, heaviest)"]},
         modifies=_FIND_MODS + ["*self.verified_roots", "self.rep"],
         notes="union by weight; the verified flag is carried to the surviving root")

contract(F, "EquivalenceDB._add_edge", props=["C06"],
         params={"self": E, "label": Int, "other_label": Int},
         ensures=["implies(label != other_label, label in self.vertices and other_label in self.vertices[label])",
                  "implies(label == other_label, forall(lambda y: (y in self.vertices) == old(y in self.vertices)))",
                  _REP_SAME, _VR_SAME],
         modifies=["*self.vertices", "all:Set(Int)"],
         notes="self loops are never recorded")

contract(F, "EquivalenceDB.add_two_way_edge", props=["C06", "C05", "C14"],
         params={"self": E, "label": Int, "other_label": Int},
         ensures=["self.rep[label] == self.rep[other_label]",
                  "forall(lambda y: implies(old(self.rep[y]) != old(self.rep[label]) and old(self.rep[y]) != old(self.rep[other_label]), "
                  "self.rep[y] == old(self.rep[y])))",
                  "forall(lambda y: " + _IS_VER.format(y="y") + " == (" + _WAS_VER.format(y="y") + " or "
                  "((old(self.rep[y]) == old(self.rep[label]) or old(self.rep[y]) == old(self.rep[other_label])) and ("
                  + _WAS_VER.format(y="label") + " or " + _WAS_VER.format(y="other_label") + "))))"],
         modifies=_FIND_MODS + ["*self.verified_roots", "self.rep", "*self.vertices", "all:Set(Int)"],
         notes="records both directions and merges the two classes")

contract(F, "EquivalenceDB.add_one_way_edge", props=["C06", "C05", "C14"],
         params={"self": E, "label": Int, "other_label": Int},
         ensures=[_REP_SAME, "forall(lambda y: " + _IS_VER.format(y="y") + " == " + _WAS_VER.format(y="y") + ")"],
         modifies=_FIND_MODS + ["*self.vertices", "*self._one_way_vertices", "all:Set(Int)"],
         notes="a one-way edge alone never changes the partition")

contract(F, "EquivalenceDB.connect_cycles", props=["C06", "C05"], verify=False,
         trusted_reason="depth-first cycle detection over tuples of paths: outside the verified subset; its effect on the "
                        "partition (merges only, verified flags kept) is summarised here and checked by the bounded SCC oracle",
         params={"self": E},
         ensures=["forall(lambda x, y: implies(old(self.rep[x]) == old(self.rep[y]), self.rep[x] == self.rep[y]))",
                  "forall(lambda y: implies(" + _WAS_VER.format(y="y") + ", " + _IS_VER.format(y="y") + "))"],
         modifies=_FIND_MODS + ["*self.verified_roots", "self.rep", "*self._one_way_vertices", "self._one_way_vertices",
                                "all:Set(Int)", "all:DefaultDict(Int, Set(Int))"])

# get_one_way_vertices: the one-way adjacency is rebuilt over REPRESENTATIVES -- every key and every target of the result is
# the representative of its class, no self loops; the partition and the verified flags are untouched.  (Soundness of the
# rebuilt table; that no edge between different classes is lost is checked by the bounded SCC oracle.)
_OWV = ("forall(lambda k, e: implies(k in {r} and e in {r}[k], self.rep[k] == k and self.rep[e] == e and e != k))")
contract(F, "EquivalenceDB.get_one_way_vertices", props=["C06"],
         params={"self": E}, returns=DefaultDict(Int, Set(Int)),
         locals={"res": DefaultDict(Int, Set(Int))},
         ensures=[_OWV.format(r="result"), "same(result, self._one_way_vertices)", "fresh(result)", _REP_SAME, _VR_SAME],
         loops={0: dict(invariant=["wf(self)", _OWV.format(r="res"), "fresh(res)", _REP_SAME, _VR_SAME,
                                   "forall(lambda k: implies(k in res, fresh(res[k])))",
                                   "forall(lambda k, l: implies(k in res and l in res and k != l, not same(res[k], res[l])))"],
                        modifies=_FIND_MODS + ["*res", "all:Set(Int)"]),
                1: dict(invariant=["wf(self)", _OWV.format(r="res"), "fresh(res)", _REP_SAME, _VR_SAME, "self.rep[start] == start",
                                   "forall(lambda k: implies(k in res, fresh(res[k])))",
                                   "forall(lambda k, l: implies(k in res and l in res and k != l, not same(res[k], res[l])))"],
                        modifies=_FIND_MODS + ["*res", "all:Set(Int)"])},
         modifies=_FIND_MODS + ["self._one_way_vertices", "all:Set(Int)", "all:DefaultDict(Int, Set(Int))"],
         notes="keys and targets of the rebuilt table are representatives; self loops are dropped")

# ---- find_path (C06): an explanation is refused exactly for labels that are not equivalent, and asking for one does not
# change the partition or the verified flags (reading the default dictionary of edges may only add empty entries).  That
# the path starts at the first label, ends at the second and follows recorded edges is NOT proved (an attempt with an
# `each(dequeue, ...)` invariant over the queued paths left one preservation obligation undecided in both solvers):
# bounded stand-in c06.
_V_GROW = ["forall(lambda k: implies(at('loop0', k in self.vertices), k in self.vertices and "
           "same(self.vertices[k], at('loop0', self.vertices[k]))))",
           "forall(lambda k, x: implies(at('loop0', k in self.vertices), (x in self.vertices[k]) == at('loop0', x in self.vertices[k])))"]
_FP_INV = ["wf(self)", "forall(lambda y: self.rep[y] == at('loop0', self.rep[y]))",
           "forall(lambda y: (y in self.verified_roots) == at('loop0', y in self.verified_roots))"] + _V_GROW
contract(F, "EquivalenceDB.find_path", props=["C06"],
         params={"self": E, "comb_class": Int, "other_comb_class": Int}, returns=Seq(Int),
         locals={"path": Seq(Int), "dequeue": Deque(Seq(Int)), "visited": Set(Int)},
         raises=[("KeyError", "self.rep[comb_class] != self.rep[other_comb_class]")],
         ensures=[_REP_SAME, _VR_SAME],
         loops={0: dict(invariant=_FP_INV + ["each(dequeue, lambda p: len(p) >= 1)", "len(dequeue) > 0 or len(path) >= 1"],
                        modifies=["*self.vertices", "all:Set(Int)", "*dequeue"]),
                1: dict(invariant=_FP_INV + ["each(dequeue, lambda p: len(p) >= 1)", "len(path) >= 1"], modifies=["*dequeue"])},
         modifies=_FIND_MODS + ["*self.vertices", "all:Set(Int)"],
         notes="KeyError iff the labels are not equivalent; the partition and the verified flags are left as they were")
