"""Contracts for comb_spec_searcher/strategies/strategy.py (shifts: property C10)."""
import z3
from pyvc.dsl import *
from pyvc.core import Val
from .common import CombClass

F = "comb_spec_searcher/strategies/strategy.py"
OptChildren = Opt(Seq(CombClass))

klass(F, "CartesianProductStrategy", fields={})
klass(F, "DisjointUnionStrategy", fields={})


def _decomp(ex, st, strat, cc):
    f = z3.Function("decomp", z3.IntSort(), CombClass.sort(), OptChildren.sort())
    return Val(OptChildren, f(strat.z, cc.z))


spec_fn("decomp", _decomp)

_EFF = "ite(is_none(children), val(decomp(self, comb_class)), val(children))"

for cls in ("CartesianProductStrategy", "DisjointUnionStrategy"):
    contract(F, f"{cls}.decomposition_function", props=["C10"], verify=False, source="AbstractStrategy.decomposition_function",
             trusted_reason="user strategy code: deterministic function of the class (A2)",
             params={"self": Obj(cls), "comb_class": CombClass}, returns=OptChildren,
             ensures=["result == decomp(self, comb_class)"])

contract(F, "CartesianProductStrategy.shifts", props=["C10", "C02"],
         params={"self": Obj("CartesianProductStrategy"), "comb_class": CombClass, "children": OptChildren},
         returns=Seq(Int),
         raises=[("StrategyDoesNotApply", "is_none(children) and is_none(decomp(self, comb_class))")],
         ensures=[f"len(result) == len({_EFF})",
                  f"forall(lambda i: implies(0 <= i and i < len(result), result[i] == "
                  f"sum(tuple(c.minimum_size_of_object() for c in {_EFF})) - {_EFF}[i].minimum_size_of_object()))"],
         notes="shift of child i = sum of the children's minimum sizes minus its own")

contract(F, "DisjointUnionStrategy.shifts", props=["C10", "C02"],
         params={"self": Obj("DisjointUnionStrategy"), "comb_class": CombClass, "children": OptChildren},
         returns=Seq(Int),
         raises=[("StrategyDoesNotApply", "is_none(children) and is_none(decomp(self, comb_class))")],
         ensures=[f"len(result) == len({_EFF})",
                  "forall(lambda i: implies(0 <= i and i < len(result), result[i] == 0))"])

# ------------------------------------------------------------------ the fixed flags of the library's strategy base classes
# products and unions are two-way, reversible and may be equivalences; verification strategies are none of these (a
# verification rule is never reversed and never merged into an equivalence class)
from .common import CombClass as _CCs
for _cls, _val in (("CartesianProductStrategy", True), ("DisjointUnionStrategy", True), ("VerificationStrategy", False)):
    if _cls not in REG.classes:
        klass(F, _cls, fields={})
    for _m, _ps in (("can_be_equivalent", {}), ("is_two_way", {"comb_class": _CCs}), ("is_reversible", {"comb_class": _CCs})):
        contract(F, f"{_cls}.{_m}", props=["C10", "C02", "C05"], params=dict({"self": Obj(_cls)}, **_ps), returns=Bool,
                 ensures=[f"result == {_val}"], modifies=[], self_invariant=False,
                 notes="constant flag of the base class")
