"""Contracts for the (to_jsonable, from_dict) pairs of strategies/rule.py (property C18): the keys written are exactly
the keys consumed.  JSON dictionaries are Dict(Str, Any); the stored values are not tracked (lenient)."""
from pyvc.dsl import *
from . import rule  # noqa: F401

F = "comb_spec_searcher/strategies/rule.py"
Any = Opaque("Any")
JD = Dict(Str, Any)
for c, b in (("EquivalenceRule", "Rule"), ("EquivalencePathRule", "Rule"), ("VerificationRule", "AbstractRule")):
    if c not in REG.classes:
        klass(F, c, bases=[b], fields={})

_DISPATCH = ['"class_module"', '"rule_class"']
PAIRS = {
    # class: (own keys written on top of the dispatch keys, base whose to_jsonable is extended)
    "AbstractRule": [],
    "Rule": ['"comb_class"', '"children"', '"strategy"'],
    "EquivalenceRule": ['"original_rule"'],
    "EquivalencePathRule": ['"rules"'],
    "ReverseRule": ['"original_rule"', '"idx"'],
    "VerificationRule": ['"comb_class"', '"strategy"'],
}

for cls, own in PAIRS.items():
    contract(F, f"{cls}.to_jsonable", props=["C18"], lenient=True, aliases={"Any": Any},
             params={"self": Obj(cls)}, returns=JD,
             ensures=["fresh(result)", "keys_are(result, " + ", ".join(_DISPATCH + own) + ")"],
             pure_calls=["strategy", "children", "comb_class", "original_rule", "rules", "idx"],
             may_raise=["StrategyDoesNotApply"],
             modifies=["all:Obj('AbstractRule')"], self_invariant=False,
             notes="keys written by the serialiser")
    if cls == "AbstractRule":
        contract(F, "AbstractRule.from_dict", props=["C18"], lenient=True, aliases={"Any": Any},
                 params={"d": JD}, returns=Any,
                 raises=[("KeyError", 'not ("class_module" in d and "rule_class" in d)')],
                 may_raise=["ValueError"], modifies=["*d"],
                 notes="dispatch keys are consumed before delegating to the concrete class")
    else:
        contract(F, f"{cls}.from_dict", props=["C18"], lenient=True, aliases={"Any": Any},
                 params={"d": JD}, requires=["keys_are(d, " + ", ".join(own) + ")"], returns=Any,
                 # KeyError can only come from a malformed NESTED rule dictionary (dispatcher), never from own keys
                 may_raise=["ValueError"] + (["KeyError"] if "original_rule" in str(own) or "rules" in str(own) else []),
                 loops={0: dict(invariant=["keys_are(d)"], modifies=["all:Dict(Str, Any)"])} if cls == "EquivalencePathRule" else {},
                 modifies=["all:Dict(Str, Any)"],
                 notes="consumes exactly the keys the serialiser wrote (the trailing `assert not d` is an obligation)")

# VerificationRule.from_dict: the rule is REBUILT by the deserialised strategy (a verification rule may have children that
# only the strategy can recompute: they are not part of the JSON form)
provider("loaded_strategy", args=[Any], arg_names=["comb_class"], returns=Any)
_vr = REG.contracts["VerificationRule.from_dict"]
_vr.ghost = {"loaded": Fun("loaded_strategy")}
_vr.call_models = {"AbstractStrategy.from_dict": "loaded"}
_vr.ensures = list(_vr.ensures) + ['result == last_result("prov:loaded_strategy")']

# ------------------------------------------------------------------ strategies, packs, specifications: key sets
FST = "comb_spec_searcher/strategies/strategy.py"
FPK = "comb_spec_searcher/strategies/strategy_pack.py"
FSP = "comb_spec_searcher/specification.py"
_SD = ['"class_module"', '"strategy_class"']
for _c, _b in (("AbstractStrategy", None), ("VerificationStrategy", "AbstractStrategy"), ("AtomStrategy", "VerificationStrategy"),
               ("EmptyStrategy", "VerificationStrategy"), ("StrategyFactory", None)):
    if _c not in REG.classes:
        klass(FST, _c, bases=[_b] if _b else [], fields={})
    elif _b and _b not in REG.classes[_c].bases:
        REG.classes[_c].bases.append(_b)
_SKEYS = {
    "AbstractStrategy": _SD + ['"ignore_parent"', '"inferrable"', '"possibly_empty"', '"workable"'],
    "VerificationStrategy": _SD + ['"ignore_parent"'],
    "AtomStrategy": _SD,
    "EmptyStrategy": _SD,
    "StrategyFactory": _SD,
}
for _c, _keys in _SKEYS.items():
    contract(FST, f"{_c}.to_jsonable", props=["C18"], lenient=True, aliases={"Any": Any},
             params={"self": Obj(_c)}, returns=JD, ensures=["fresh(result)", "keys_are(result, " + ", ".join(_keys) + ")"],
             modifies=[], self_invariant=False, notes="keys written by the serialiser")
for _c in ("AtomStrategy", "EmptyStrategy"):
    contract(FST, f"{_c}.from_dict", props=["C18"], lenient=True, aliases={"Any": Any},
             params={"d": JD}, requires=["keys_are(d)"], returns=Any, modifies=[],
             notes="nothing is left once the dispatcher consumed its two keys (`assert not d` is an obligation)")
contract(FST, "strategy_from_dict", props=["C18"], lenient=True, aliases={"Any": Any},
         params={"d": JD}, returns=Any,
         raises=[("KeyError", 'not ("class_module" in d and "strategy_class" in d)')],
         may_raise=["AssertionError"], asserts="raise", modifies=["*d"],
         notes="the dispatch keys are consumed before delegating to the concrete class")

_PK = ['"name"', '"initial_strats"', '"inferral_strats"', '"ver_strats"', '"expansion_strats"', '"symmetries"', '"iterative"']
if "StrategyPack" not in REG.classes:      # class_queue.py (loaded earlier) declares its strategy groups
    klass(FPK, "StrategyPack", fields={})
contract(FPK, "StrategyPack.to_jsonable", props=["C18"], lenient=True, aliases={"Any": Any},
         params={"self": Obj("StrategyPack")}, returns=JD, ensures=["fresh(result)", "keys_are(result, " + ", ".join(_PK) + ")"],
         modifies=[], self_invariant=False)
contract(FPK, "StrategyPack.from_dict", props=["C18"], lenient=True, aliases={"Any": Any},
         params={"d": JD}, requires=["keys_are(d, " + ", ".join(_PK) + ")"], returns=Any, modifies=[],
         notes="reads only keys the serialiser wrote: no KeyError on a serialised pack")

contract(FSP, "CombinatorialSpecification.to_jsonable", props=["C18"], lenient=True, aliases={"Any": Any},
         params={"self": Obj("CombinatorialSpecification")}, returns=JD,
         ensures=["fresh(result)", 'keys_are(result, "root", "rules")'], may_raise=["StrategyDoesNotApply"],
         modifies=["all:Obj('AbstractRule')"], self_invariant=False)
contract(FSP, "CombinatorialSpecification.from_dict", props=["C18"], lenient=True, aliases={"Any": Any},
         params={"d": JD}, requires=['keys_are(d, "root", "rules")'], returns=Any,
         may_raise=["KeyError", "ValueError", "AssertionError"],
         # the rules come back exactly as stored: equivalence paths are NOT regrouped on load
         call_requires={"CombinatorialSpecification.__init__": ["not group_equiv"]},
         modifies=["*d", "all:Dict(Str, Any)", "all:Obj('CombinatorialSpecification')"],
         notes="KeyError can only come from a malformed nested rule dictionary")
