"""Contracts for comb_spec_searcher/specification_extrator.py (property C02: the extractor's self-check implies closure)."""
from pyvc.dsl import *

F = "comb_spec_searcher/specification_extrator.py"
klass(F, "SpecificationRuleExtractor", fields={"rules_dict": Dict(Int, Seq(Int)), "root_label": Int})
X = Obj("SpecificationRuleExtractor")
_ON_RHS = "exists(lambda k2, j: k2 in self.rules_dict and 0 <= j and j < len(self.rules_dict[k2]) and self.rules_dict[k2][j] == {x})"

contract(F, "SpecificationRuleExtractor._check", props=["C02"], asserts="raise",
         params={"self": X}, may_raise=["AssertionError"],
         ensures=[
             # closed: every label on a right-hand side is the left-hand side of a rule
             "forall(lambda k, j: implies(k in self.rules_dict and 0 <= j and j < len(self.rules_dict[k]), "
             "self.rules_dict[k][j] in self.rules_dict))",
             # no stray left-hand side: every key other than the root occurs on some right-hand side
             "forall(lambda k: implies(k in self.rules_dict and k != self.root_label, " + _ON_RHS.format(x="k") + "))"],
         modifies=[], notes="a normal return of the self-check implies the closure statement of C02")

contract(F, "SpecificationRuleExtractor._no_lhs_labels", props=["C02"],
         params={"self": X}, returns=Set(Int),
         ensures=["fresh(result)",
                  "forall(lambda x: (x in result) == ((" + _ON_RHS.format(x="x") + " and not (x in self.rules_dict)) or "
                  "(x == self.root_label and not (self.root_label in self.rules_dict))))"],
         modifies=[], notes="exactly the right-hand-side labels without a rule, plus the root if it has none")
