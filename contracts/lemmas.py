from pyvc.dsl import *

F = "verif:contracts/lemmas_src.py"
_bounded = "len(t) == len(m)", "forall(lambda j: implies(0 <= j and j < len(t), m[j] <= t[j]))"

contract(F, "lemma_sum_ge", props=["C10"], lemma=True,
         params={"t": Seq(Int), "m": Seq(Int)}, requires=list(_bounded),
         ensures=["sum(m) <= sum(t)"], decreases="len(t)")

contract(F, "lemma_part_bound", props=["C10"], lemma=True,
         params={"t": Seq(Int), "m": Seq(Int), "i": Int}, requires=list(_bounded) + ["0 <= i", "i < len(t)"],
         ensures=["t[i] - m[i] <= sum(t) - sum(m)"],
         decreases="len(t)")

contract(F, "lemma_sum_drop", props=["C10"], lemma=True,
         params={"m": Seq(Int), "idx": Int}, requires=["0 <= idx", "idx < len(m)"],
         ensures=["sum(m[:idx] + m[idx + 1:]) == sum(m) - m[idx]"], decreases="len(m)")

_rev = ["len(r) == len(s)", "0 <= idx", "idx < len(s)", "r[0] == -s[idx]",
        "forall(lambda j: implies(1 <= j and j <= idx, r[j] == s[j - 1] - s[idx]))",
        "forall(lambda j: implies(idx < j and j < len(r), r[j] == s[j] - s[idx]))"]

contract(F, "lemma_quotient_link", props=["C10", "C02"], lemma=True,
         params={"mins": Seq(Int), "s": Seq(Int), "r": Seq(Int), "idx": Int, "pshift": Int},
         requires=["len(s) == len(mins)",
                   "forall(lambda c: implies(0 <= c and c < len(s), s[c] == sum(mins) - mins[c]))",
                   "pshift == sum(mins) - mins[idx]"] + _rev,
         ensures=["r[0] == -pshift",
                  "forall(lambda j: implies(1 <= j and j <= idx, r[j] == mins[idx] - mins[j - 1]))",
                  "forall(lambda j: implies(idx < j and j < len(r), r[j] == mins[idx] - mins[j]))"],
         notes="links Quotient's provider discipline to ReverseRule.shifts() of a CartesianProductStrategy rule")

contract(F, "lemma_union_link", props=["C10", "C02"], lemma=True,
         params={"s": Seq(Int), "r": Seq(Int), "idx": Int},
         requires=["forall(lambda c: implies(0 <= c and c < len(s), s[c] == 0))"] + _rev,
         ensures=["r[0] == 0", "forall(lambda j: implies(1 <= j and j <= idx, r[j] == 0))",
                  "forall(lambda j: implies(idx < j and j < len(r), r[j] == 0))"],
         notes="links Complement's discipline (every child at n) to ReverseRule.shifts() of a DisjointUnionStrategy rule")

contract(F, "lemma_sum_pointwise", props=["C10"], lemma=True,
         params={"a": Seq(Int), "b": Seq(Int)},
         requires=["len(a) == len(b)", "forall(lambda i: implies(0 <= i and i < len(a), a[i] == b[i]))"],
         ensures=["sum(a) == sum(b)"], decreases="len(a)")

contract(F, "lemma_sum_nonneg", props=["C09", "C10"], lemma=True,
         params={"t": Seq(Int)}, requires=["forall(lambda j: implies(0 <= j and j < len(t), 0 <= t[j]))"],
         ensures=["0 <= sum(t)"], decreases="len(t)")
