"""Contracts for comb_spec_searcher/strategies/rule.py."""
import z3
from pyvc.dsl import *
from pyvc.core import Val
from .common import CombClass, Strategy

F = "comb_spec_searcher/strategies/rule.py"

klass(F, "AbstractRule", fields={"comb_class": CombClass, "_children": Opt(Seq(CombClass)), "_strategy": Strategy,
                                 "_shifts": Opt(Seq(Int))})
klass(F, "Rule", bases=["AbstractRule"], fields={})
klass(F, "ReverseRule", bases=["Rule"], fields={"original_rule": Obj("Rule"), "idx": Int})


def _rule_shifts(ex, st, rule):
    """The (memoised, deterministic) answer of rule.shifts() as a function of the rule object."""
    f = z3.Function("rule_shifts", z3.IntSort(), z3.SeqSort(z3.IntSort()))
    return Val(Seq(Int), f(rule.z))


spec_fn("rule_shifts", _rule_shifts)

contract(F, "Rule.shifts", props=["C10"], verify=False, source="AbstractRule.shifts",
         trusted_reason="memoised call of strategy.shifts(comb_class, children); verified separately per strategy; "
                        "determinism of the strategy is A2",
         params={"self": Obj("Rule")}, returns=Seq(Int), ensures=["result == rule_shifts(self)"],
         modifies=["self._shifts"])

contract(F, "ReverseRule.shifts", props=["C10", "C02"],
         params={"self": Obj("ReverseRule")}, returns=Seq(Int),
         requires=["0 <= self.idx", "self.idx < len(rule_shifts(self.original_rule))"],
         ensures=["len(result) == len(rule_shifts(self.original_rule))",
                  "result[0] == -rule_shifts(self.original_rule)[self.idx]",
                  # child j of the reverse rule (j >= 1) is original child j-1 (j <= idx) resp. j (j > idx)
                  "forall(lambda j: implies(1 <= j and j <= self.idx, result[j] == "
                  "rule_shifts(self.original_rule)[j - 1] - rule_shifts(self.original_rule)[self.idx]))",
                  "forall(lambda j: implies(self.idx < j and j < len(result), result[j] == "
                  "rule_shifts(self.original_rule)[j] - rule_shifts(self.original_rule)[self.idx]))"],
         modifies=["self.original_rule._shifts"],
         notes="reverse rule children = (original parent, original children without idx)")

# ------------------------------------------------------------------ C01: cache discipline and provider wiring
from .common import TermsT
klass(F, "ConstructorAny", fields={})
REG.classes["AbstractRule"].fields.update({"subterms": Opt(Seq(Fun("terms"))), "terms_cache": List(TermsT),
                                           "_constructor": Opt(Obj("ConstructorAny"))})
REG.classes["Rule"].properties.append("constructor")


def _ctor_of(ex, st, rule):
    return Val(Obj("ConstructorAny"), z3.Function("ctor_of", z3.IntSort(), z3.IntSort())(rule.z))


def _level(ex, st, ctor, n):
    """The terms of size n the constructor computes from the rule's providers (deterministic given the providers)."""
    return Val(TermsT, z3.Function("level_terms", z3.IntSort(), z3.IntSort(), TermsT.sort())(ctor.z, n.z))


spec_fn("ctor_of", _ctor_of)
spec_fn("level_terms", _level)

contract(F, "Rule.constructor", props=["C01"], verify=False,
         trusted_reason="memoised strategy.constructor(comb_class, children): deterministic (A2)",
         params={"self": Obj("Rule")}, returns=Obj("ConstructorAny"), ensures=["result == ctor_of(self)"],
         may_raise=["StrategyDoesNotApply"], modifies=["self._constructor"])
contract("comb_spec_searcher/strategies/constructor/base.py", "ConstructorAny.get_terms", props=["C01"], verify=False,
         source="Constructor.get_terms",
         trusted_reason="the constructors' get_terms (verified per constructor under C09/C10); here only: the result "
                        "is a function of the constructor, its providers and n",
         params={"self": Obj("ConstructorAny"), "parent_terms": Fun("terms"), "subterms": Opt(Seq(Fun("terms"))), "n": Int},
         returns=TermsT, ensures=["result == level_terms(self, n)"])

_CACHE_EXT = ["len(self.terms_cache) >= old(len(self.terms_cache))",
              "forall(lambda k: implies(0 <= k and k < old(len(self.terms_cache)), self.terms_cache[k] == old(self.terms_cache[k])))",
              "forall(lambda k: implies(old(len(self.terms_cache)) <= k and k < len(self.terms_cache), "
              "self.terms_cache[k] == level_terms(ctor_of(self), k)))"]

contract(F, "Rule._ensure_level", props=["C01", "C10"],
         params={"self": Obj("Rule"), "n": Int},
         raises=[("RuntimeError", "is_none(self.subterms)")], may_raise=["StrategyDoesNotApply"],
         ensures=["len(self.terms_cache) > n",
                  "implies(n < old(len(self.terms_cache)), len(self.terms_cache) == old(len(self.terms_cache)))"] + _CACHE_EXT,
         loops={0: dict(invariant=["len(self.terms_cache) >= at('loop0', len(self.terms_cache))",
                                   "implies(n < at('loop0', len(self.terms_cache)), len(self.terms_cache) == at('loop0', len(self.terms_cache)))",
                                   "forall(lambda k: implies(0 <= k and k < at('loop0', len(self.terms_cache)), "
                                   "self.terms_cache[k] == at('loop0', self.terms_cache[k])))",
                                   "forall(lambda k: implies(at('loop0', len(self.terms_cache)) <= k and k < len(self.terms_cache), "
                                   "self.terms_cache[k] == level_terms(ctor_of(self), k)))"],
                        modifies=["*self.terms_cache", "self._constructor"])},
         modifies=["*self.terms_cache", "self._constructor"],
         notes="level k is computed exactly once, as constructor.get_terms(.., k) with all smaller levels cached; a "
               "request below the cached length touches nothing (self-reads of size < n are answered from the cache)")

contract(F, "Rule.get_terms", source="AbstractRule.get_terms", props=["C01"],
         params={"self": Obj("Rule"), "n": Int}, returns=TermsT, requires=["n >= 0"],
         raises=[("RuntimeError", "is_none(self.subterms)")], may_raise=["StrategyDoesNotApply"],
         ensures=["result == self.terms_cache[n]", "len(self.terms_cache) > n"] + _CACHE_EXT,
         modifies=["*self.terms_cache", "self._constructor"])

contract(F, "Rule.count_objects_of_size", source="AbstractRule.count_objects_of_size", props=["C01"],
         params={"self": Obj("Rule"), "n": Int, "parameters": Dict(Str, Int)}, returns=Int,
         requires=["n >= 0", "forall(lambda i: implies(0 <= i and i < len(self.comb_class.extra_parameters), "
                             "self.comb_class.extra_parameters[i] in parameters))"],
         raises=[("RuntimeError", "is_none(self.subterms)")], may_raise=["StrategyDoesNotApply"],
         ensures=["result == self.terms_cache[n][tuple(parameters[k] for k in self.comb_class.extra_parameters)]"],
         modifies=["*self.terms_cache", "self._constructor"],
         notes="the count is looked up under the parameter values in the class's own declaration order")

# set_subrecs: provider i belongs to child i
provider("subrule", args=[CombClass], arg_names=["c"], returns=Obj("Rule"))
REG.classes["AbstractRule"].fields.update({"subrecs": Opt(Seq(Fun("recs"))), "subsamplers": Opt(Seq(Fun("samplers"))),
                                           "subobjects": Opt(Seq(Fun("objects")))})
REG.classes["AbstractRule"].properties.append("children")


def _children_of(ex, st, rule):
    return Val(Seq(CombClass), z3.Function("children_of", z3.IntSort(), z3.SeqSort(CombClass.sort()))(rule.z))


def _bm(name):
    def f(ex, st, get_subrule, c):
        sub = z3.Function("prov_subrule", z3.IntSort(), CombClass.sort(), z3.IntSort())(get_subrule.z, c.z)
        return Val(Int, z3.Function(f"bm_{name}", z3.IntSort(), z3.IntSort())(sub))
    return f


spec_fn("children_of", _children_of)
for _n in ("get_terms", "count_objects_of_size", "random_sample_object_of_size", "get_objects"):
    spec_fn("bm_" + _n, _bm(_n))

contract(F, "Rule.children", source="AbstractRule.children", props=["C01"], verify=False,
         trusted_reason="memoised strategy.decomposition_function(comb_class): deterministic (A2)",
         params={"self": Obj("Rule")}, returns=Seq(CombClass), ensures=["result == children_of(self)"],
         may_raise=["StrategyDoesNotApply"], modifies=["self._children"])

_WIRE = "forall(lambda i: implies(0 <= i and i < len(children_of(self)), val(self.{f})[i] == bm_{m}(get_subrule, children_of(self)[i])))"
contract(F, "Rule.set_subrecs", source="AbstractRule.set_subrecs", props=["C01", "C07", "C08"],
         params={"self": Obj("Rule"), "get_subrule": Fun("subrule")}, may_raise=["StrategyDoesNotApply"],
         ensures=["not is_none(self.subterms) and len(val(self.subterms)) == len(children_of(self))",
                  _WIRE.format(f="subterms", m="get_terms"), _WIRE.format(f="subrecs", m="count_objects_of_size"),
                  _WIRE.format(f="subsamplers", m="random_sample_object_of_size"),
                  _WIRE.format(f="subobjects", m="get_objects")],
         modifies=["self.subterms", "self.subrecs", "self.subsamplers", "self.subobjects", "self._children"],
         notes="the i-th provider of each kind is the corresponding method of the rule of the i-th child")

# ------------------------------------------------------------------ C01/C09: the parameter map of an equivalence path
# EquivalencePathRule.constructor composes, step by step, the parent->child parameter maps of the unary rules of the path.
# Per step (ghost assertions at the end of the loop body, `at('iter0', .)` = value at the start of the iteration):
#   p is tracked afterwards  <=>  p was tracked and its current name is mapped by this step;   new[p] == step[old[p]]
REG.classes["ConstructorAny"].fields.update({"extra_parameters": Seq(Dict(Str, Str))})
klass(F, "EquivalencePathRule", bases=["Rule"], fields={"rules": Seq(Obj("Rule")),
                                                        "_constructor": Opt(Obj("ConstructorAny"))}) \
    if "EquivalencePathRule" not in REG.classes else REG.classes["EquivalencePathRule"].fields.update(
        {"rules": Seq(Obj("Rule")), "_constructor": Opt(Obj("ConstructorAny"))})


from . import constructor as _constructor_contracts  # noqa: E402,F401  (declares DisjointUnion)
for _k in ("DisjointUnion", "Complement"):
    if "ConstructorAny" not in REG.classes[_k].bases:
        REG.classes[_k].bases.append("ConstructorAny")


def _is_complement(ex, v, st):
    return z3.Function("is_complement_ctor", z3.IntSort(), z3.BoolSort())(v.z)


contract(F, "EquivalencePathRule.constructor", props=["C01", "C09", "C07"], lenient=True,
         params={"self": Obj("EquivalencePathRule")}, returns=Obj("ConstructorAny"),
         locals={"extra_parameters": Dict(Str, Str), "rules_parameters": Dict(Str, Str), "fixed_values": Dict(Str, Int)},
         isinstance_map={"Complement": _is_complement,
                         "DisjointUnion": lambda ex, v, st: z3.Not(_is_complement(ex, v, st))},
         may_raise=["NotImplementedError", "StrategyDoesNotApply", "AssertionError"],
         # the path consists of unary rules: every step's constructor has exactly one parameter map, the path rule one child
         requires=["forall(lambda j: implies(0 <= j and j < len(self.rules), len(ctor_of(self.rules[j]).extra_parameters) == 1))",
                   "len(children_of(self)) == 1"],
         loops={0: dict(invariant=[], modifies=["all:Obj('AbstractRule')"], ghost_end=[
             "assert forall(lambda p=Str: (p in extra_parameters) == (at('iter0', p in extra_parameters) and "
             "(at('iter0', extra_parameters[p]) in rules_parameters)))",
             "assert forall(lambda p=Str: implies(p in extra_parameters, "
             "extra_parameters[p] == rules_parameters[at('iter0', extra_parameters[p])]))",
             "assert implies(not is_complement_ctor(original_constructor), "
             "same(rules_parameters, original_constructor.extra_parameters[0]))",
             # a Complement step goes from the child back to the parent: its map is used inverted
             "assert implies(is_complement_ctor(original_constructor), forall(lambda a=Str: implies("
             "a in original_constructor.extra_parameters[0], original_constructor.extra_parameters[0][a] in rules_parameters)))",
             "assert implies(is_complement_ctor(original_constructor), forall(lambda b=Str: implies(b in rules_parameters, "
             "rules_parameters[b] in original_constructor.extra_parameters[0] and "
             "original_constructor.extra_parameters[0][rules_parameters[b]] == b)))"])},
         ghost_stmts={
             # initially every parameter of the parent class is tracked under its own name
             "after:assign#0": ["assert forall(lambda p=Str: (p in extra_parameters) == (p in self.comb_class.extra_parameters))",
                                "assert forall(lambda p=Str: implies(p in extra_parameters, extra_parameters[p] == p))"],
             # child parameters no parent parameter arrives at are fixed to 0
             "after:assign#5": [
                 "assert forall(lambda k=Str: (k in fixed_values) == ((k in children_of(self)[0].extra_parameters) and "
                 "not exists(lambda p=Str: p in extra_parameters and extra_parameters[p] == k)))",
                 "assert forall(lambda k=Str: implies(k in fixed_values, fixed_values[k] == 0))"]},
         # the composed map and the fixed values are what the path's constructor is built from
         call_requires={"DisjointUnion.__init__": [
             "same(parent, caller_self.comb_class)", "children == children_of(caller_self)",
             "not is_none(extra_parameters) and len(val(extra_parameters)) == 1 and same(val(extra_parameters)[0], caller_extra_parameters)",
             "not is_none(fixed_values) and len(val(fixed_values)) == 1 and same(val(fixed_values)[0], caller_fixed_values)"]},
         modifies=["self._constructor", "all:Obj('AbstractRule')", "all:Dict(Str, Str)", "all:Dict(Str, Int)", "all:Set(Str)",
                   "all:Obj('DisjointUnion')"],
         notes="each step of the path composes the current map with the step's parameter map")
spec_fn("is_complement_ctor", lambda ex, st, v: Val(Bool, z3.Function("is_complement_ctor", z3.IntSort(), z3.BoolSort())(v.z)))

# ------------------------------------------------------------------ forest keys (C10/C02/C11): what the forest database is told
from .forest import ForestRuleKey, Bucket  # noqa: E402
enum("RuleBucket", ["UNDEFINED", "VERIFICATION", "EQUIV", "NORMAL", "REVERSE"], Bucket)
provider("labeler", args=[CombClass], arg_names=["c"], returns=Int)
provider("emptiness", args=[CombClass], arg_names=["c"], returns=Bool)


def _label_of(ex, st, f, c):
    return Val(Int, z3.Function("prov_labeler", z3.IntSort(), CombClass.sort(), z3.IntSort())(f.z, c.z))


def _bucket(ex, st, name):
    et = Bucket
    members = REG.enums["RuleBucket"][0]
    return Val(et, z3.Function(f"enum_{et.nm}", z3.IntSort(), et.sort())(members.index(name.v)))


spec_fn("label_of", _label_of)
spec_fn("bucket", _bucket)
spec_fn("is_equiv_rule", lambda ex, st, r: Val(Bool, z3.Function("is_equiv_rule", z3.IntSort(), z3.BoolSort())(r.z)))
for _cls, _other in (("Rule", "NORMAL"), ("ReverseRule", "REVERSE")):
    contract(F, f"{_cls}.is_equivalence", props=["C10", "C02", "C11"], verify=False,
             trusted_reason="strategy/constructor flags and emptiness of the children: a deterministic property of the rule (A2)",
             params={"self": Obj(_cls), "is_empty": Opt(Fun("emptiness"))}, returns=Bool,
             ensures=["result == is_equiv_rule(self)"], modifies=["all:Obj('AbstractRule')"]) \
        if f"{_cls}.is_equivalence" not in REG.contracts and _cls == "Rule" else None
    contract(F, f"{_cls}.forest_key", props=["C10", "C02", "C11"],
             params={"self": Obj(_cls), "get_label": Fun("labeler"), "is_empty": Opt(Fun("emptiness"))},
             returns=ForestRuleKey, may_raise=["StrategyDoesNotApply"],
             requires=(["0 <= self.idx", "self.idx < len(rule_shifts(self.original_rule))",
                        "len(children_of(self.original_rule)) == len(rule_shifts(self.original_rule))"]
                       if _cls == "ReverseRule" else []),
             ensures=[
                 # the key carries the labels of the rule's own parent and children, in order, and the rule's own shifts
                 "result.parent == label_of(get_label, old(self.comb_class))",
                 "len(result.children) == len(children_of(self))",
                 "forall(lambda i: implies(0 <= i and i < len(result.children), "
                 "result.children[i] == label_of(get_label, children_of(self)[i])))",
                 "result.shifts == " + ("rule_shifts(self)" if _cls == "Rule" else "last_result('ReverseRule.shifts')"),
                 f"result.bucket == ite(is_equiv_rule(self), bucket('EQUIV'), bucket('{_other}'))"],
             modifies=["all:Obj('AbstractRule')"],
             notes="the forest rule database judges productivity from exactly these labels and shifts")

# ------------------------------------------------------------------ C08: Rule.random_sample_object_of_size
# the constructor draws among exactly count(n, parameters) objects, with the rule's own samplers/counters, at size n
from .constructor import CombObj  # noqa: E402
contract("comb_spec_searcher/strategies/constructor/base.py", "ConstructorAny.random_sample_sub_objects",
         source="Constructor.random_sample_sub_objects", props=["C08"], verify=False,
         trusted_reason="abstract method: DisjointUnion / CartesianProduct implementations are verified under C08",
         params={"self": Obj("ConstructorAny"), "parent_count": Int, "subsamplers": Seq(Fun("samplers")),
                 "subrecs": Seq(Fun("recs")), "n": Int}, returns=Seq(Opt(CombObj)), may_raise=["RuntimeError"], modifies=[])
contract(F, "Rule.random_sample_object_of_size", props=["C08"], lenient=True,
         params={"self": Obj("Rule"), "n": Int, "parameters": Dict(Str, Int)}, returns=CombObj,
         requires=["n >= 0", "forall(lambda i: implies(0 <= i and i < len(self.comb_class.extra_parameters), "
                             "self.comb_class.extra_parameters[i] in parameters))",
                   "not is_none(self.subterms)", "not is_none(self.subrecs)", "not is_none(self.subsamplers)"],
         may_raise=["StrategyDoesNotApply", "RuntimeError", "IndexError"],
         call_requires={"ConstructorAny.random_sample_sub_objects": [
             "same(self, ctor_of(caller_self))",
             'parent_count == last_result("Rule.count_objects_of_size")',
             'last_arg("Rule.count_objects_of_size", 1) == caller_n',
             "n == caller_n", "subsamplers == val(caller_self.subsamplers)", "subrecs == val(caller_self.subrecs)"]},
         pure_calls=["backward_map"],
         modifies=["*self.terms_cache", "self._constructor", "self._children"],
         notes="IndexError: random.choice on an empty tuple when the backward map yields nothing (A2 excludes it)")

# ------------------------------------------------------------------ C09: EquivalenceRule.constructor (union case)
# the unary rule obtained from a union with one non-empty child keeps the parameter map OF THAT CHILD
if "EquivalenceRule" not in REG.classes:
    klass(F, "EquivalenceRule", bases=["Rule"], fields={})
REG.classes["EquivalenceRule"].fields.update({"child_idx": Int, "original_rule": Obj("Rule"),
                                              "_constructor": Opt(Obj("ConstructorAny"))})
contract(F, "EquivalenceRule.constructor", props=["C09", "C01", "C07"], lenient=True,
         params={"self": Obj("EquivalenceRule")}, returns=Obj("ConstructorAny"),
         isinstance_map={"Complement": _is_complement,
                         "DisjointUnion": lambda ex, v, st: z3.Not(_is_complement(ex, v, st))},
         requires=["0 <= self.child_idx", "self.child_idx < len(ctor_of(self.original_rule).extra_parameters)",
                   "len(children_of(self)) == 1"],
         may_raise=["NotImplementedError", "StrategyDoesNotApply", "AssertionError"], asserts="raise",
         call_requires={"DisjointUnion.__init__": [
             "same(parent, caller_self.comb_class)", "children == children_of(caller_self)",
             "not is_none(extra_parameters) and len(val(extra_parameters)) == 1 and "
             "same(val(extra_parameters)[0], ctor_of(caller_self.original_rule).extra_parameters[caller_self.child_idx])",
             "is_none(fixed_values)"]},
         modifies=["self._constructor", "all:Obj('AbstractRule')", "all:Dict(Str, Str)", "all:Dict(Str, Int)", "all:Set(Str)",
                   "all:Obj('DisjointUnion')", "all:Obj('ConstructorAny')"],
         notes="union case proved; the Complement case (reverse of a union) is lenient: only its frame")

# ------------------------------------------------------------------ verification rules in the forest database (C11/C03/C02)
# A verification rule may have children (classes its expansion depends on).  Its forest key must give EVERY child a shift,
# otherwise the table method (which pairs children with shifts) silently ignores the dependency.
FSTR = "comb_spec_searcher/strategies/strategy.py"
if "VerificationStrategy" not in REG.classes:
    klass(FSTR, "VerificationStrategy", fields={})
contract(FSTR, "VerificationStrategy.shifts", props=["C11", "C03", "C02"], lenient=True,
         params={"self": Obj("VerificationStrategy"), "comb_class": CombClass, "children": Opt(Seq(CombClass))},
         returns=Seq(Int), pure_calls=["decomposition_function"],
         ensures=["implies(not is_none(children), len(result) == len(val(children)))",
                  "forall(lambda i: implies(0 <= i and i < len(result), result[i] == 0))"],
         modifies=[], self_invariant=False,
         notes="default shifts of a verification rule: one per child (a dependency is needed at the same size)")
klass(F, "VerificationRule", bases=["AbstractRule"], fields={}) if "VerificationRule" not in REG.classes else None
contract(F, "VerificationRule.shifts", source="AbstractRule.shifts", props=["C11", "C03", "C02"], verify=False,
         trusted_reason="memoised strategy.shifts(comb_class, children): the default (VerificationStrategy.shifts) is verified "
                        "above; a user override must keep one shift per child (A2)",
         params={"self": Obj("VerificationRule")}, returns=Seq(Int),
         ensures=["result == rule_shifts(self)", "len(result) == len(children_of(self))"], modifies=["self._shifts"])
contract(F, "VerificationRule.children", source="AbstractRule.children", props=["C11", "C03", "C02"], verify=False,
         trusted_reason="memoised strategy.decomposition_function(comb_class): deterministic (A2)",
         params={"self": Obj("VerificationRule")}, returns=Seq(CombClass), ensures=["result == children_of(self)"],
         may_raise=["StrategyDoesNotApply"], modifies=["self._children"])
REG.classes["VerificationRule"].properties.append("children")
contract(F, "VerificationRule.forest_key", props=["C11", "C03", "C02"],
         params={"self": Obj("VerificationRule"), "get_label": Fun("labeler"), "is_empty": Opt(Fun("emptiness"))},
         returns=ForestRuleKey, may_raise=["StrategyDoesNotApply"],
         ensures=["result.parent == label_of(get_label, old(self.comb_class))",
                  "len(result.children) == len(children_of(self))",
                  "forall(lambda i: implies(0 <= i and i < len(result.children), "
                  "result.children[i] == label_of(get_label, children_of(self)[i])))",
                  # every child is paired with a shift: nothing the rule depends on is dropped by the table method
                  "len(result.shifts) == len(result.children)",
                  "result.bucket == bucket('VERIFICATION')"],
         modifies=["self._children", "self._shifts"],
         notes="a verification rule with dependencies is a rule with children for the forest database")

# ------------------------------------------------------------------ C09: EquivalenceRule.constructor, Complement case
# (the reverse of a union with one non-empty child): child and parent swap roles, the map is that of the counted child
REG.classes["Complement"].fields.update({"extra_parameters": Seq(Dict(Str, Str))})
contract("comb_spec_searcher/strategies/constructor/disjoint.py", "Complement.__init__", props=["C09", "C01", "C07"], verify=False,
         trusted_reason="constructor summary: stores its arguments and builds the parameter maps (param_map functions are "
                        "verified under C09)",
         params={"self": Obj("Complement"), "parent": CombClass, "children": Seq(CombClass), "idx": Int,
                 "extra_parameters": Opt(Seq(Dict(Str, Str)))},
         ensures=["self.idx == idx", "implies(not is_none(extra_parameters), self.extra_parameters == val(extra_parameters))"],
         may_raise=["AssertionError"], modifies=["*self"], self_invariant=False)

_er = REG.contracts["EquivalenceRule.constructor"]
_er.call_requires = dict(_er.call_requires)
_er.call_requires["Complement.__init__"] = [
    # counted class = the single child of this rule; its only "child" = this rule's parent
    "len(children_of(caller_self)) >= 1 and parent == children_of(caller_self)[0]",
    "len(children) == 1 and children[0] == caller_self.comb_class", "idx == 0",
    "not is_none(extra_parameters) and len(val(extra_parameters)) == 1"]
_er.modifies = list(_er.modifies) + ["all:Obj('Complement')"]

# ------------------------------------------------------------------ C07/C09: EquivalenceRule.__init__
# child_idx is the position, among ALL children of the original rule, of its (first) non-empty child
spec_fn("nonempty_children_of", lambda ex, st, r: Val(Seq(CombClass), z3.Function("nonempty_children_of", z3.IntSort(),
                                                                                   z3.SeqSort(CombClass.sort()))(r.z)))
REG.classes["AbstractRule"].fields.update({"_non_empty_children": Opt(Seq(CombClass))})
contract(F, "Rule.non_empty_children", source="AbstractRule.non_empty_children", props=["C07", "C09"], verify=False,
         trusted_reason="memoised filter of the children by (user) emptiness: deterministic (A2); every element is a child",
         params={"self": Obj("Rule"), "is_empty": Opt(Fun("emptiness"))}, returns=Seq(CombClass),
         ensures=["result == nonempty_children_of(self)",
                  "forall(lambda i: implies(0 <= i and i < len(result), result[i] in children_of(self)))"],
         modifies=["self._non_empty_children", "self._children"])
contract(F, "Rule.__init__", source="AbstractRule.__init__", props=["C07", "C09"], verify=False,
         trusted_reason="constructor summary: stores class, strategy and (optional) children, clears the caches",
         params={"self": Obj("Rule"), "strategy": Strategy, "comb_class": CombClass, "children": Opt(Seq(CombClass))},
         ensures=["self.comb_class == comb_class", "self._children == children"], modifies=["*self"], self_invariant=False)
REG.classes["EquivalenceRule"].fields.update({"actual_children": Seq(CombClass)})
contract(F, "EquivalenceRule.__init__", props=["C07", "C09"], lenient=True,
         params={"self": Obj("EquivalenceRule"), "rule": Obj("Rule")},
         requires=["len(nonempty_children_of(rule)) >= 1"],
         may_raise=["AssertionError", "StrategyDoesNotApply"], asserts="raise",
         ensures=["same(self.original_rule, rule)", "self.comb_class == rule.comb_class",
                  "0 <= self.child_idx and self.child_idx < len(children_of(rule))",
                  "children_of(rule)[self.child_idx] == nonempty_children_of(rule)[0]",
                  "forall(lambda j: implies(0 <= j and j < self.child_idx, children_of(rule)[j] != nonempty_children_of(rule)[0]))",
                  "self.actual_children == children_of(rule)", "is_none(self._constructor)"],
         modifies=["*self", "rule._non_empty_children", "rule._children", "all:Obj('AbstractRule')"], self_invariant=False,
         notes="the equivalence form remembers which child of the original rule it keeps")

# ------------------------------------------------------------------ C07: maps of an equivalence path
# forward: the rules of the path are applied first to last, each to the (single) image of the previous one;
# backward: last to first
provider("objmap", args=[Opaque("Any")], arg_names=["x"], returns=Opaque("Any"))
ObjA = Opaque("Any")
contract(F, "Rule.forward_map", props=["C07"], verify=False,
         trusted_reason="strategy.forward_map(comb_class, obj, children): user code (A2: mutually inverse with backward_map)",
         params={"self": Obj("Rule"), "obj": ObjA}, returns=Seq(Opt(ObjA)),
         ensures=["len(result) == len(children_of(self))", "len(result) >= 1"], modifies=[])
contract(F, "Rule.backward_map", props=["C07"], verify=False, yield_seq=True,
         trusted_reason="strategy.backward_map(comb_class, objs, children): user code (A2)",
         params={"self": Obj("Rule"), "objs": Seq(Opt(ObjA))}, returns=Seq(ObjA), modifies=[])
contract(F, "EquivalencePathRule.forward_map", props=["C07"], aliases={"Any": ObjA},
         params={"self": Obj("EquivalencePathRule"), "obj": ObjA}, returns=Seq(ObjA),
         locals={"res": ObjA},
         ensures=["len(result) == 1"],
         call_requires={"Rule.forward_map": ["same(self, caller_self.rules[_i0])",      # first to last
                                             "obj == res",                               # applied to the current image
                                             "implies(_i0 == 0, obj == caller_obj)"]},   # starting from the argument
         loops={0: dict(invariant=["implies(_i0 == 0, res == obj)"], modifies=[])},
         modifies=[], notes="composition of the steps' forward maps, first to last")
contract(F, "EquivalencePathRule.backward_map", props=["C07"], aliases={"Any": ObjA}, lenient=True,
         params={"self": Obj("EquivalencePathRule"), "objs": Seq(Opt(ObjA))}, returns=Seq(Opt(ObjA)), yields=["True"],
         requires=["len(objs) == 1"],       # the path rule has exactly one child
         locals={"res": Seq(Opt(ObjA))},
         call_requires={"Rule.backward_map": ["same(self, caller_self.rules[len(caller_self.rules) - 1 - _i0])",   # last to first
                                              "objs == res", "implies(_i0 == 0, objs == caller_objs)"]},
         loops={0: dict(invariant=["implies(_i0 == 0, res == objs)", "len(res) == 1"], modifies=[])},
         modifies=[], notes="composition of the steps' backward maps, last to first")

# ---- EquivalenceRule maps: the kept child is child number child_idx of the original rule
OA = Opt(ObjA)
contract(F, "EquivalenceRule.forward_map", props=["C07"], aliases={"Any": ObjA},
         params={"self": Obj("EquivalenceRule"), "obj": ObjA}, returns=Seq(OA),
         requires=["0 <= self.child_idx", "self.child_idx < len(children_of(self.original_rule))"],
         call_requires={"Rule.forward_map": ["same(self, caller_self.original_rule)", "obj == caller_obj"]},
         ensures=["len(result) == 1", 'result[0] == last_result("Rule.forward_map")[self.child_idx]'],
         modifies=[], notes="image = the component of the original rule's image at the kept child")
contract(F, "EquivalenceRule.backward_map", props=["C07"], aliases={"Any": ObjA}, yields=["True"],
         params={"self": Obj("EquivalenceRule"), "objs": Seq(OA)}, returns=Seq(ObjA),
         requires=["0 <= self.child_idx", "self.child_idx < len(self.actual_children)", "len(objs) >= 1"],
         call_requires={"Rule.backward_map": [
             "same(self, caller_self.original_rule)", "len(objs) == len(caller_self.actual_children)",
             "objs[caller_self.child_idx] == caller_objs[0]",
             "forall(lambda i: implies(0 <= i and i < len(objs) and i != caller_self.child_idx, is_none(objs[i])))"]},
         modifies=[], notes="the object goes to the position of the kept child, every other position is None")
# ---- ReverseRule maps
contract(F, "ReverseRule.backward_map", props=["C07"], aliases={"Any": ObjA}, lenient=True,
         yields=['it == last_result("Rule.forward_map")[self.idx]'],
         params={"self": Obj("ReverseRule"), "objs": Seq(OA)}, returns=Seq(OA),
         requires=["len(objs) >= 1", "0 <= self.idx", "self.idx < len(children_of(self.original_rule))"],
         pure_calls=["non_empty_children"], may_raise=["NotImplementedError", "AssertionError"], asserts="raise",
         call_requires={"Rule.forward_map": ["same(self, caller_self.original_rule)", "not is_none(objs[0])",
                                             "obj == val(objs[0])"]},
         modifies=["all:Obj('AbstractRule')"],
         notes="the parent object of the reverse rule (its first 'child') is mapped forward by the original rule; component idx")
contract(F, "ReverseRule.forward_map", props=["C07"], aliases={"Any": ObjA}, lenient=True,
         params={"self": Obj("ReverseRule"), "obj": ObjA}, returns=Seq(OA),
         locals={"objs": List(OA), "orig_res": List(ObjA)},
         requires=["0 <= self.idx", "self.idx < len(children_of(self.original_rule))"],
         pure_calls=["non_empty_children"], may_raise=["NotImplementedError", "AssertionError", "StrategyDoesNotApply"],
         asserts="raise",
         call_requires={"Rule.backward_map": [
             "same(self, caller_self.original_rule)", "len(objs) == len(children_of(caller_self.original_rule))",
             "objs[caller_self.idx] == obj",
             "forall(lambda i: implies(0 <= i and i < len(objs) and i != caller_self.idx, is_none(objs[i])))"]},
         modifies=["all:Obj('AbstractRule')", "all:List(Opt(Any))", "all:List(Any)"],
         notes="the object is placed at position idx of the original rule's children and mapped backward")

# ------------------------------------------------------------------ C07: Rule._ensure_level_objects (object cache discipline)
ObjLevel = Opaque("ObjectsLevel")          # one level of the cache: a defaultdict parameters -> list of objects (untracked)
REG.classes["AbstractRule"].fields.update({"objects_cache": List(ObjLevel)})
contract("comb_spec_searcher/strategies/constructor/base.py", "ConstructorAny.get_sub_objects", source="Constructor.get_sub_objects",
         props=["C07"], verify=False,
         trusted_reason="abstract method: DisjointUnion.get_sub_objects is verified under C07, the product's is bounded",
         params={"self": Obj("ConstructorAny"), "subobjs": Seq(Fun("objects")), "n": Int},
         returns=Seq(Tup(Opaque("Any"), Seq(Seq(Opaque("Any"))))), yields=["True"], modifies=[])
contract(F, "Rule._ensure_level_objects", props=["C07", "C01"], lenient=True, aliases={"ObjectsLevel": ObjLevel},
         params={"self": Obj("Rule"), "n": Int},
         raises=[("RuntimeError", "is_none(self.subobjects)")], may_raise=["StrategyDoesNotApply"],
         pure_calls=["backward_map"],
         ensures=["len(self.objects_cache) > n", "len(self.objects_cache) >= old(len(self.objects_cache))",
                  "implies(n < old(len(self.objects_cache)), len(self.objects_cache) == old(len(self.objects_cache)))",
                  "forall(lambda k: implies(0 <= k and k < old(len(self.objects_cache)), "
                  "self.objects_cache[k] == old(self.objects_cache[k])))"],
         # level k is built from the constructor's sub-objects of size exactly k, with the rule's own providers
         call_requires={"ConstructorAny.get_sub_objects": ["same(self, ctor_of(caller_self))", "n == len(caller_self.objects_cache)",
                                                           "subobjs == val(caller_self.subobjects)"]},
         loops={0: dict(invariant=["len(self.objects_cache) >= at('loop0', len(self.objects_cache))",
                                   "implies(n < at('loop0', len(self.objects_cache)), len(self.objects_cache) == at('loop0', len(self.objects_cache)))",
                                   "forall(lambda k: implies(0 <= k and k < at('loop0', len(self.objects_cache)), "
                                   "self.objects_cache[k] == at('loop0', self.objects_cache[k])))"],
                        modifies=["*self.objects_cache", "self._constructor"]),
                1: dict(invariant=[], modifies=[]), 2: dict(invariant=[], modifies=[])},
         modifies=["*self.objects_cache", "self._constructor"],
         notes="levels are appended in order, each computed for its own size; cached levels are never rewritten")

contract(F, "Rule.get_objects", source="AbstractRule.get_objects", props=["C07", "C01"], aliases={"ObjectsLevel": ObjLevel},
         params={"self": Obj("Rule"), "n": Int}, returns=ObjLevel, requires=["n >= 0"],
         raises=[("RuntimeError", "is_none(self.subobjects)")], may_raise=["StrategyDoesNotApply"],
         ensures=["result == self.objects_cache[n]", "len(self.objects_cache) > n",
                  "implies(n < old(len(self.objects_cache)), result == old(self.objects_cache[n]))",
                  "forall(lambda k: implies(0 <= k and k < old(len(self.objects_cache)), "
                  "self.objects_cache[k] == old(self.objects_cache[k])))"],
         modifies=["*self.objects_cache", "self._constructor"],
         notes="the level for size n itself is returned; a cached level is returned unchanged")
