"""Contracts for comb_spec_searcher/strategies/rule.py."""
import z3
from pyvc.dsl import *
from pyvc.core import Val
from .common import CombClass, Strategy

F = "comb_spec_searcher/strategies/rule.py"

klass(F, "AbstractRule", fields={"comb_class": CombClass, "_children": Opt(Seq(CombClass)), "_strategy": Strategy,
                                 "_shifts": Opt(Seq(Int))})
klass(F, "Rule", bases=["AbstractRule"], fields={})
klass(F, "ReverseRule", bases=["Rule"], fields={"original_rule": Obj("Rule"), "idx": Int})


def _rule_shifts(ex, st, rule):
    """The (memoised, deterministic) answer of rule.shifts() as a function of the rule object."""
    f = z3.Function("rule_shifts", z3.IntSort(), z3.SeqSort(z3.IntSort()))
    return Val(Seq(Int), f(rule.z))


spec_fn("rule_shifts", _rule_shifts)

contract(F, "Rule.shifts", props=["C10"], verify=False, source="AbstractRule.shifts",
         trusted_reason="memoised call of strategy.shifts(comb_class, children); verified separately per strategy; "
                        "determinism of the strategy is A2",
         params={"self": Obj("Rule")}, returns=Seq(Int), ensures=["result == rule_shifts(self)"],
         modifies=["self._shifts"])

contract(F, "ReverseRule.shifts", props=["C10"],
         params={"self": Obj("ReverseRule")}, returns=Seq(Int),
         requires=["0 <= self.idx", "self.idx < len(rule_shifts(self.original_rule))"],
         ensures=["len(result) == len(rule_shifts(self.original_rule))",
                  "result[0] == -rule_shifts(self.original_rule)[self.idx]",
                  # child j of the reverse rule (j >= 1) is original child j-1 (j <= idx) resp. j (j > idx)
                  "forall(lambda j: implies(1 <= j and j <= self.idx, result[j] == "
                  "rule_shifts(self.original_rule)[j - 1] - rule_shifts(self.original_rule)[self.idx]))",
                  "forall(lambda j: implies(self.idx < j and j < len(result), result[j] == "
                  "rule_shifts(self.original_rule)[j] - rule_shifts(self.original_rule)[self.idx]))"],
         modifies=["self.original_rule._shifts"],
         notes="reverse rule children = (original parent, original children without idx)")
