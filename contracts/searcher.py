"""Contracts for comb_spec_searcher/comb_spec_searcher.py and rule_db/abstract.py (property C01: the search loop)."""
from pyvc.dsl import *
from .common import CombClass

F = "comb_spec_searcher/comb_spec_searcher.py"
FA = "comb_spec_searcher/rule_db/abstract.py"
RuleIter = Opaque("RuleIter")
Float = Opaque("Float")
provider("guarded", args=[], arg_names=[], returns=Opaque("Any"))

# ghost field has_spec_now: the rule database's current answer to "is there a specification" (changes whenever the
# universe changes; only has_specification() reveals it)
klass(FA, "RuleDBAbstract", fields={}, ghost_fields={"has_spec_now": Bool})
klass(F, "CombinatorialSpecificationSearcher",
      fields={"ruledb": Obj("RuleDBAbstract"), "start_class": CombClass, "expand_verified": Bool})
S = Obj("CombinatorialSpecificationSearcher")
from . import class_db as _class_db   # noqa: E402  (declares ClassDB)
REG.classes["CombinatorialSpecificationSearcher"].fields.update({"classdb": Obj("ClassDB"), "debug": Bool})

contract(FA, "RuleDBAbstract.has_specification", props=["C01"], verify=False,
         trusted_reason="abstract method; each rule database's implementation is covered under C05/C11/C03",
         params={"self": Obj("RuleDBAbstract")}, returns=Bool, ensures=["result == self.has_spec_now"])
contract(FA, "RuleDBAbstract.get_specification_rules", props=["C01"], verify=False,
         trusted_reason="abstract method; precondition = a specification exists (each implementation is wrapped by "
                        "ensure_specification, verified below)",
         params={"self": Obj("RuleDBAbstract")}, returns=RuleIter, requires=["self.has_spec_now"])

contract(FA, "ensure_specification.inner", props=["C01", "C02"], lenient=True,
         params={"ruledb": Obj("RuleDBAbstract"), "func": Fun("guarded")},
         isinstance_map={"RuleDBAbstract": lambda ex, v, st: __import__("z3").BoolVal(True)},
         may_raise=["SpecificationNotFound"], ensures_raise={"SpecificationNotFound": ["not ruledb.has_spec_now"]},
         provider_requires={"guarded": ["ruledb.has_spec_now"]}, modifies=["all:Obj('RuleDBAbstract')"],
         notes="the wrapped rule-extraction method runs only after has_specification() answered True")

contract(F, "CombinatorialSpecificationSearcher.has_specification", props=["C01"],
         params={"self": S}, returns=Bool, ensures=["result == self.ruledb.has_spec_now"], modifies=[])

_AL0 = {"CombClass": CombClass, "ClassKey": _class_db.ClassKey}
_SEARCH_MODS = ["self.ruledb.has_spec_now", "self.ruledb.ver", "*self.classdb.comb_class_list", "*self.classdb.label_dict",
                "*self.classdb.empty_list"]
# ghost field ver: the rule database's CURRENT answer to is_verified(label); any expansion may change it
REG.classes["RuleDBAbstract"].ghost_fields["ver"] = Map(Int, Bool)
from .class_queue import Strat
Packets = Seq(Strat)
spec_fn("class_of_label", lambda ex, st, l: __import__("pyvc.core", fromlist=["Val"]).Val(
    CombClass, __import__("z3").Function("class_of_label", __import__("z3").IntSort(), CombClass.sort())(l.z)))
contract(FA, "RuleDBAbstract.is_verified", props=["C17", "C01"], verify=False,
         trusted_reason="abstract method: reveals the database's current verification status of a label",
         params={"self": Obj("RuleDBAbstract"), "label": Int}, returns=Bool, ensures=["result == self.ver[label]"],
         modifies=[])
contract(F, "CombinatorialSpecificationSearcher._expand", props=["C17", "C01"], verify=False,
         trusted_reason="only its frame is used: an expansion may add rules, so both the existence of a specification and "
                        "the verification status of ANY label may change (C04 covers what it records)",
         params={"self": S, "comb_class": CombClass, "label": Int, "strategies": Packets, "inferral": Bool},
         modifies=_SEARCH_MODS)
contract(F, "CombinatorialSpecificationSearcher._log_status", props=["C17", "C01"], verify=False,
         trusted_reason="logging only", params={"self": S, "start_time": Float, "status_update": Int}, modifies=[])
contract(F, "CombinatorialSpecificationSearcher._expand_classes_for", props=["C01", "C17"], lenient=True,
         aliases=_AL0,
         params={"self": S, "expansion_time": Float, "status_update": Opt(Int), "status_start": Float,
                 "auto_search_start": Float},
         returns=Tup(Bool, Float),
         locals={"last_label": Opt(Int), "comb_class": CombClass},
         # the class stored under a label never changes (C15: append-only), so get_class is a function of the label here
         call_models={"self.classdb.get_class": "class_of_label(label)"},
         # a packet is expanded only if verified classes are expanded anyway or its class is NOT verified at that very
         # moment -- so how the work is cut into time slices (or resumed from a pickle) never changes what gets expanded
         call_requires={"CombinatorialSpecificationSearcher._expand": ["self.expand_verified or not self.ruledb.ver[label]",
                                                                       # ... and with the class that carries that label
                                                                       "comb_class == class_of_label(label)"]},
         loops={0: dict(invariant=["implies(not is_none(last_label), comb_class == class_of_label(val(last_label)))"],
                        modifies=_SEARCH_MODS)},
         modifies=_SEARCH_MODS,
         notes="the queue is abstracted to the (arbitrary) sequence of packets it hands out; clock readings are arbitrary")

contract(F, "CombinatorialSpecificationSearcher._auto_search_rules", props=["C01", "C17"], lenient=True, aliases=_AL0,
         params={"self": S, "max_expansion_time": Opt(Float), "perc": Int, "smallest": Bool, "status_update": Opt(Int)},
         returns=RuleIter,
         may_raise=["ExceededMaxtimeError", "SpecificationNotFound"],
         ensures=["self.ruledb.has_spec_now"],       # rules are handed out only right after a positive test
         ensures_raise={"ExceededMaxtimeError": ["not is_none(max_expansion_time)", "not self.ruledb.has_spec_now"],
                        "SpecificationNotFound": ["not self.ruledb.has_spec_now"]},
         modifies=_SEARCH_MODS,
         loops={0: dict(invariant=["expanding or not self.ruledb.has_spec_now"],
                        modifies=_SEARCH_MODS)},
         notes="for every sequence of clock readings and every number of iterations")

contract(F, "CombinatorialSpecificationSearcher._log_spec_found", props=["C01"], verify=False,
         trusted_reason="logging only", params={"self": S, "specification": Obj("CombinatorialSpecification"),
                                                "start_time": Float}, modifies=[])
contract(F, "CombinatorialSpecificationSearcher.run_information", props=["C01"], verify=False,
         trusted_reason="logging only", params={"self": S}, returns=Opaque("StrT"), modifies=[])

klass("comb_spec_searcher/specification.py", "CombinatorialSpecification", fields={"root": CombClass},
      ghost_fields={"rules_src": RuleIter})
contract("comb_spec_searcher/specification.py", "CombinatorialSpecification.__init__", props=["C01"], verify=False,
         trusted_reason="constructor summary: stores the root and consumes the rule iterator (C02 covers its checks)",
         params={"self": Obj("CombinatorialSpecification"), "root": CombClass, "rules": RuleIter, "group_equiv": Bool},
         ensures=["self.root == root", "self.rules_src == rules"], modifies=["*self"], self_invariant=False)

contract(F, "CombinatorialSpecificationSearcher.auto_search", props=["C01"], lenient=True, aliases=_AL0,
         params={"self": S}, returns=Obj("CombinatorialSpecification"),
         may_raise=["ExceededMaxtimeError", "SpecificationNotFound"],
         ensures=["result.root == self.start_class", "self.ruledb.has_spec_now"],
         ensures_raise={"SpecificationNotFound": ["not self.ruledb.has_spec_now"],
                        "ExceededMaxtimeError": ["not self.ruledb.has_spec_now"]},
         modifies=_SEARCH_MODS,
         notes="the returned specification is rooted at the start class and built from the rules handed out by the loop")

# ------------------------------------------------------------------ C04: what the searcher records
import z3
from . import class_db, rule
from .class_db import ClassKey
klass(F, "CSSSearcherFull", fields={})     # placeholder (keeps registry order stable)
CSSstrategy = Opaque("CSSstrategy")
SAL = {"ClassKey": ClassKey, "CombClass": CombClass, "CSSstrategy": CSSstrategy}

contract(F, "CombinatorialSpecificationSearcher._rules_from_strategy", props=["C04"], verify=False, aliases=SAL,
         trusted_reason="dispatch over user strategies/factories (isinstance on user objects); its statement is checked by "
                        "the bounded monitor on RuleDB.add",
         params={"comb_class": CombClass, "strategy": CSSstrategy}, returns=Seq(Obj("Rule")),
         yields=["True"], modifies=[])

_LBL = "self.classdb.comb_class_list[{l}] == compress({c})"
contract(F, "CombinatorialSpecificationSearcher._expand_class_with_strategy", props=["C04"], lenient=True, aliases=SAL,
         params={"self": S, "comb_class": CombClass, "strategy_generator": CSSstrategy, "label": Opt(Int), "initial": Bool},
         returns=Seq(Tup(Int, Seq(Int), Obj("Rule"))),
         locals={"_comp0": List(Int), "end_labels": List(Int)},
         requires=["wf(self.classdb)", "not self.debug",
                   "implies(not is_none(label), 0 <= val(label) and val(label) < len(self.classdb.comb_class_list) and "
                   + _LBL.format(l="val(label)", c="comb_class") + ")"],
         yields=[
             # the parent label is the label of the rule's own class (which may differ from the expanded class)
             "0 <= it[0] and it[0] < len(self.classdb.comb_class_list) and " + _LBL.format(l="it[0]", c="it[2].comb_class"),
             # child labels are exactly the labels of the rule's children, in order
             "len(it[1]) == len(children_of(it[2]))",
             "forall(lambda i: implies(0 <= i and i < len(it[1]), 0 <= it[1][i] and it[1][i] < len(self.classdb.comb_class_list) "
             "and " + _LBL.format(l="it[1][i]", c="children_of(it[2])[i]") + "))",
             # a rule whose single child is its own parent is never recorded
             "not (len(children_of(it[2])) == 1 and it[2].comb_class == children_of(it[2])[0])",
             "wf(self.classdb)"],
         comp_loops={0: dict(invariant=[
             "wf(self.classdb)", "len(_comp0) == _ic0",
             "forall(lambda i: implies(0 <= i and i < _ic0, 0 <= _comp0[i] and _comp0[i] < len(self.classdb.comb_class_list) and "
             + _LBL.format(l="_comp0[i]", c="children[i]") + "))",
             "implies(not is_none(label), val(label) < len(self.classdb.comb_class_list) and " + _LBL.format(l="val(label)", c="comb_class") + ")"],
             modifies=["*_comp0", "*self.classdb.comb_class_list", "*self.classdb.label_dict", "*self.classdb.empty_list"])},
         loops={0: dict(invariant=["wf(self.classdb)", "not is_none(label)",
                                   "val(label) < len(self.classdb.comb_class_list) and " + _LBL.format(l="val(label)", c="comb_class")],
                        modifies=["*self.classdb.comb_class_list", "*self.classdb.label_dict", "*self.classdb.empty_list",
                                  "all:List(Int)", "all:Obj('AbstractRule')"])},
         modifies=["*self.classdb.comb_class_list", "*self.classdb.label_dict", "*self.classdb.empty_list",
                   "all:List(Int)", "all:Obj('AbstractRule')"],
         notes="every recorded (start, ends, rule) carries the labels of the rule's own parent and children, in order")

# ------------------------------------------------------------------ C04/C15: add_rule -- what is done with a recorded rule
# The label facts produced by _expand_class_with_strategy (each child label is the label of that child) are exactly what
# makes `set_empty(child_label, False)` legitimate (C15: the cached emptiness must be the class's own answer), given A2:
# a strategy that is not `possibly_empty` has no empty child.
from .class_queue import WorkPacket as _WorkPacket  # noqa: E402
SAL = dict(SAL, WorkPacket=_WorkPacket)
FA2 = "comb_spec_searcher/rule_db/abstract.py"
_CDB = "self.classdb"
_GROW = ["wf(self.classdb)", "len(self.classdb.comb_class_list) >= old(len(self.classdb.comb_class_list))",
         "forall(lambda i: implies(0 <= i and i < old(len(self.classdb.comb_class_list)), "
         "self.classdb.comb_class_list[i] == old(self.classdb.comb_class_list[i])))"]
_CDB_MODS = ["*self.classdb.comb_class_list", "*self.classdb.label_dict", "*self.classdb.empty_list"]
_QMODS = ["all:Obj('DefaultQueue')", "all:Deque(Int)", "all:Counter(Int)", "all:Set(Int)", "all:List(Int)",
          "all:Deque(WorkPacket)"]
REG.classes["CombinatorialSpecificationSearcher"].fields.update(
    {"classqueue": Obj("DefaultQueue"), "symmetry_expanded": Set(Int), "tried_to_verify": Set(Int)})
contract(FA2, "RuleDBAbstract.add", props=["C04"], verify=False,
         trusted_reason="abstract method: RuleDBBase.add (both dictionary databases) is verified under C05/C14; the forest "
                        "database's add is covered by its bounded stand-in",
         params={"self": Obj("RuleDBAbstract"), "start": Int, "ends": Seq(Int), "rule": Obj("Rule")},
         may_raise=["StrategyDoesNotApply", "UserCodeError"],
         modifies=["self.has_spec_now", "self.ver"])
for _nm in ("try_verify", "_symmetry_expand"):
    contract(F, f"CombinatorialSpecificationSearcher.{_nm}", props=["C04"], verify=False, aliases=SAL,
             trusted_reason="recursion into the expansion machinery (it calls add_rule again): only its frame is used -- the class "
                            "database only grows and keeps its invariant (each step of it is ClassDB.add/get_label/is_empty, C15). "
                            "_symmetry_expand iterates a generator WITH side effects lazily, interleaved with its own effects: "
                            "outside the eager-generator model (A4), hence not verified",
             params={"self": S, "comb_class": CombClass, "label": Int},
             requires=["wf(self.classdb)", "wf(self.classqueue)"], ensures=_GROW + ["wf(self.classqueue)"],
             may_raise=["StrategyDoesNotApply", "UserCodeError"],
             modifies=_CDB_MODS + _QMODS + ["self.ruledb.has_spec_now", "self.ruledb.ver", "all:Obj('AbstractRule')"])
_CHILD_LBL = ("forall(lambda i: implies(0 <= i and i < len(end_labels), 0 <= end_labels[i] and "
              "end_labels[i] < len(self.classdb.comb_class_list) and "
              "self.classdb.comb_class_list[end_labels[i]] == compress(children_of(rule)[i])))")
contract(F, "CombinatorialSpecificationSearcher.add_rule", props=["C04", "C15"], lenient=True, aliases=SAL,
         params={"self": S, "start_label": Int, "end_labels": Seq(Int), "rule": Obj("Rule")},
         pure_calls=["symmetries"],
         requires=["wf(self.classdb)", "wf(self.classqueue)", "len(end_labels) == len(children_of(rule))", _CHILD_LBL,
                   # A2: a rule of a strategy that is not possibly_empty has no empty child
                   "implies(not possibly_empty_of(rule), forall(lambda i: implies(0 <= i and i < len(children_of(rule)), "
                   "not truth(children_of(rule)[i]))))"],
         may_raise=["StrategyDoesNotApply", "UserCodeError"],
         call_requires={
             # the rule is recorded under exactly the labels it was produced with
             "RuleDBAbstract.add": ["start == start_label", "ends == end_labels", "same(rule, caller_rule)"],
             # each child is tried for verification / symmetry-expanded under ITS OWN label
             "CombinatorialSpecificationSearcher.try_verify": ["label == end_labels[_i0]", "comb_class == children_of(rule)[_i0]"],
             "CombinatorialSpecificationSearcher._symmetry_expand": ["label == end_labels[_i0]",
                                                                     "comb_class == children_of(rule)[_i0]",
                                                                     "not (label in self.symmetry_expanded)"],
             # inferral is switched off for a child only if the rule says it is not inferrable
             "DefaultQueue.set_not_inferrable": ["not inferrable_of(rule)", "label == end_labels[_i0]"],
             "DefaultQueue.add": ["workable_of(rule)", "label == end_labels[_i0]"],
             "DefaultQueue.set_stop_yielding": ["ignore_parent_of(rule)", "label == start_label"]},
         loops={0: dict(invariant=["wf(self.classdb)", "wf(self.classqueue)", _CHILD_LBL,
                                   "len(self.classdb.comb_class_list) >= at('loop0', len(self.classdb.comb_class_list))",
                                   "forall(lambda i: implies(0 <= i and i < at('loop0', len(self.classdb.comb_class_list)), "
                                   "self.classdb.comb_class_list[i] == at('loop0', self.classdb.comb_class_list[i])))"],
                        modifies=_CDB_MODS + _QMODS + ["self.ruledb.has_spec_now", "self.ruledb.ver", "all:Obj('AbstractRule')"])},
         ensures=_GROW + ["wf(self.classqueue)"],
         modifies=_CDB_MODS + _QMODS + ["self.ruledb.has_spec_now", "self.ruledb.ver", "all:Obj('AbstractRule')"],
         notes="set_empty(child, False) happens only for strategies that are not possibly_empty, under the child's own label")

