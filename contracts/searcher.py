"""Contracts for comb_spec_searcher/comb_spec_searcher.py and rule_db/abstract.py (property C01: the search loop)."""
from pyvc.dsl import *
from .common import CombClass

F = "comb_spec_searcher/comb_spec_searcher.py"
FA = "comb_spec_searcher/rule_db/abstract.py"
RuleIter = Opaque("RuleIter")
Float = Opaque("Float")
provider("guarded", args=[], arg_names=[], returns=Opaque("Any"))

# ghost field has_spec_now: the rule database's current answer to "is there a specification" (changes whenever the
# universe changes; only has_specification() reveals it)
klass(FA, "RuleDBAbstract", fields={}, ghost_fields={"has_spec_now": Bool})
klass(F, "CombinatorialSpecificationSearcher",
      fields={"ruledb": Obj("RuleDBAbstract"), "start_class": CombClass, "expand_verified": Bool})
S = Obj("CombinatorialSpecificationSearcher")

contract(FA, "RuleDBAbstract.has_specification", props=["C01"], verify=False,
         trusted_reason="abstract method; each rule database's implementation is covered under C05/C11/C03",
         params={"self": Obj("RuleDBAbstract")}, returns=Bool, ensures=["result == self.has_spec_now"])
contract(FA, "RuleDBAbstract.get_specification_rules", props=["C01"], verify=False,
         trusted_reason="abstract method; precondition = a specification exists (each implementation is wrapped by "
                        "ensure_specification, verified below)",
         params={"self": Obj("RuleDBAbstract")}, returns=RuleIter, requires=["self.has_spec_now"])

contract(FA, "ensure_specification.inner", props=["C01", "C02"], lenient=True,
         params={"ruledb": Obj("RuleDBAbstract"), "func": Fun("guarded")},
         isinstance_map={"RuleDBAbstract": lambda ex, v, st: __import__("z3").BoolVal(True)},
         may_raise=["SpecificationNotFound"], ensures_raise={"SpecificationNotFound": ["not ruledb.has_spec_now"]},
         provider_requires={"guarded": ["ruledb.has_spec_now"]}, modifies=["all:Obj('RuleDBAbstract')"],
         notes="the wrapped rule-extraction method runs only after has_specification() answered True")

contract(F, "CombinatorialSpecificationSearcher.has_specification", props=["C01"],
         params={"self": S}, returns=Bool, ensures=["result == self.ruledb.has_spec_now"], modifies=[])

contract(F, "CombinatorialSpecificationSearcher._expand_classes_for", props=["C01"], verify=False,
         trusted_reason="only its frame is used here: expanding classes may change the universe, hence whether a "
                        "specification exists; its behaviour is covered by C04/C16/C17",
         params={"self": S, "expansion_time": Float, "status_update": Opt(Int), "status_start": Float,
                 "auto_search_start": Float},
         returns=Tup(Bool, Float), modifies=["self.ruledb.has_spec_now"])

contract(F, "CombinatorialSpecificationSearcher._auto_search_rules", props=["C01", "C17"], lenient=True,
         params={"self": S, "max_expansion_time": Opt(Float), "perc": Int, "smallest": Bool, "status_update": Opt(Int)},
         returns=RuleIter,
         may_raise=["ExceededMaxtimeError", "SpecificationNotFound"],
         ensures=["self.ruledb.has_spec_now"],       # rules are handed out only right after a positive test
         ensures_raise={"ExceededMaxtimeError": ["not is_none(max_expansion_time)", "not self.ruledb.has_spec_now"],
                        "SpecificationNotFound": ["not self.ruledb.has_spec_now"]},
         modifies=["self.ruledb.has_spec_now"],
         loops={0: dict(invariant=["expanding or not self.ruledb.has_spec_now"], modifies=["self.ruledb.has_spec_now"])},
         notes="for every sequence of clock readings and every number of iterations")

contract(F, "CombinatorialSpecificationSearcher._log_spec_found", props=["C01"], verify=False,
         trusted_reason="logging only", params={"self": S, "specification": Obj("CombinatorialSpecification"),
                                                "start_time": Float}, modifies=[])
contract(F, "CombinatorialSpecificationSearcher.run_information", props=["C01"], verify=False,
         trusted_reason="logging only", params={"self": S}, returns=Opaque("StrT"), modifies=[])

klass("comb_spec_searcher/specification.py", "CombinatorialSpecification", fields={"root": CombClass},
      ghost_fields={"rules_src": RuleIter})
contract("comb_spec_searcher/specification.py", "CombinatorialSpecification.__init__", props=["C01"], verify=False,
         trusted_reason="constructor summary: stores the root and consumes the rule iterator (C02 covers its checks)",
         params={"self": Obj("CombinatorialSpecification"), "root": CombClass, "rules": RuleIter, "group_equiv": Bool},
         ensures=["self.root == root", "self.rules_src == rules"], modifies=["*self"], self_invariant=False)

contract(F, "CombinatorialSpecificationSearcher.auto_search", props=["C01"], lenient=True,
         params={"self": S}, returns=Obj("CombinatorialSpecification"),
         may_raise=["ExceededMaxtimeError", "SpecificationNotFound"],
         ensures=["result.root == self.start_class", "self.ruledb.has_spec_now"],
         ensures_raise={"SpecificationNotFound": ["not self.ruledb.has_spec_now"],
                        "ExceededMaxtimeError": ["not self.ruledb.has_spec_now"]},
         modifies=["self.ruledb.has_spec_now"],
         notes="the returned specification is rooted at the start class and built from the rules handed out by the loop")
