"""Contracts for comb_spec_searcher/rule_db/forest.py: DefaultList, Function, TableMethod helpers (property C03)."""
from pyvc.dsl import *

F = "comb_spec_searcher/rule_db/forest.py"

# DefaultList is generic; the instance used for the value histogram is DefaultList[int] built as DefaultList(int).
klass(F, "DefaultListInt", fields={"_list": List(Int)}, iter_delegate="_list")
_CM = {"self._default_factory": "0"}
_V = "ite({i} < len(self._list), self._list[{i}], 0)"          # total view with default 0


def V(i):
    return _V.format(i=i)


_VIEW_SAME = "forall(lambda i: implies(0 <= i, " + V("i") + " == old(" + V("i") + ")))"

contract(F, "DefaultListInt._increase_list_len", source="DefaultList._increase_list_len", props=["C03"],
         params={"self": Obj("DefaultListInt"), "key": Int}, call_models=_CM,
         ensures=["len(self._list) == ite(key >= old(len(self._list)), key + 1, old(len(self._list)))", _VIEW_SAME],
         modifies=["*self._list"])

contract(F, "DefaultListInt.__getitem__", source="DefaultList.__getitem__", props=["C03"],
         params={"self": Obj("DefaultListInt"), "key": Int}, returns=Int, requires=["key >= 0"],
         ensures=["result == old(" + V("key") + ")", "len(self._list) > key", "len(self._list) >= old(len(self._list))",
                  _VIEW_SAME],
         modifies=["*self._list"],
         notes="reading index k makes len > k and changes no entry of the total view")

contract(F, "DefaultListInt.__setitem__", source="DefaultList.__setitem__", props=["C03"],
         params={"self": Obj("DefaultListInt"), "key": Int, "value": Int},
         requires=["0 <= key", "key < len(self._list)"],
         ensures=["len(self._list) == old(len(self._list))", "self._list[key] == value",
                  "forall(lambda i: implies(0 <= i and i != key, " + V("i") + " == old(" + V("i") + ")))"],
         modifies=["*self._list"])

# ---------------------------------------------------------------- Function
klass(F, "Function", fields={"_value": List(Opt(Int)), "_preimage_count": Obj("DefaultListInt"), "_infinity_count": Int})

FV = "ite({k} < len(self._value), self._value[{k}], 0)"        # Optional[int] view: default 0, None = infinity
CNT = "ite({v} < len(self._preimage_count._list), self._preimage_count._list[{v}], 0)"


def fv(k):
    return FV.format(k=k)


def cnt(v):
    return CNT.format(v=v)


_FV_SAME = "forall(lambda k: implies(0 <= k, " + fv("k") + " == old(" + fv("k") + ")))"
_FMODS = ["*self._value", "*self._preimage_count._list"]

contract(F, "Function._increase_list_len", props=["C03"],
         params={"self": Obj("Function"), "key": Int}, requires=["key >= len(self._value)", "key >= 0"],
         ensures=["len(self._value) == key + 1", _FV_SAME,
                  # histogram delta: the new entries all have value 0
                  cnt("0") + " == old(" + cnt("0") + ") + (key + 1 - old(len(self._value)))",
                  "forall(lambda v: implies(v >= 1, " + cnt("v") + " == old(" + cnt("v") + ")))"],
         modifies=_FMODS)

contract(F, "Function.__getitem__", props=["C03"],
         params={"self": Obj("Function"), "key": Int}, returns=Opt(Int), requires=["key >= 0"],
         ensures=["result == old(" + fv("key") + ")", _FV_SAME, "len(self._value) > key",
                  cnt("0") + " == old(" + cnt("0") + ") + (len(self._value) - old(len(self._value)))",
                  "forall(lambda v: implies(v >= 1, " + cnt("v") + " == old(" + cnt("v") + ")))"],
         modifies=_FMODS)

_OLDV = "old(" + fv("key") + ")"
contract(F, "Function.increase_value", props=["C03"],
         params={"self": Obj("Function"), "key": Int}, requires=["key >= 0", "implies(not is_none(" + fv("key") + "), val(" + fv("key") + ") >= 0)"],
         raises=[("ValueError", "is_none(" + fv("key") + ")")],
         ensures=[fv("key") + " == val(" + _OLDV + ") + 1",
                  "forall(lambda k: implies(0 <= k and k != key, " + fv("k") + " == old(" + fv("k") + ")))",
                  # histogram delta: one class leaves value old and enters old+1 (net of the zero-extension)
                  "forall(lambda v: implies(v >= 0, " + cnt("v") + " == old(" + cnt("v") + ")"
                  " + ite(v == 0, len(self._value) - old(len(self._value)), 0)"
                  " - ite(v == val(" + _OLDV + "), 1, 0) + ite(v == val(" + _OLDV + ") + 1, 1, 0)))",
                  "self._infinity_count == old(self._infinity_count)"],
         modifies=_FMODS)

contract(F, "Function.set_infinite", props=["C03"],
         params={"self": Obj("Function"), "key": Int}, requires=["key >= 0", "implies(not is_none(" + fv("key") + "), val(" + fv("key") + ") >= 0)"],
         raises=[("ValueError", "is_none(" + fv("key") + ")")],
         ensures=["is_none(" + fv("key") + ")",
                  "forall(lambda k: implies(0 <= k and k != key, " + fv("k") + " == old(" + fv("k") + ")))",
                  "forall(lambda v: implies(v >= 0, " + cnt("v") + " == old(" + cnt("v") + ")"
                  " + ite(v == 0, len(self._value) - old(len(self._value)), 0)"
                  " - ite(v == val(" + _OLDV + "), 1, 0)))",
                  "self._infinity_count == old(self._infinity_count) + 1"],
         modifies=_FMODS + ["self._infinity_count"])

contract(F, "Function.preimage_gap", props=["C03"],
         params={"self": Obj("Function"), "length": Int}, returns=Int,
         raises=[("ValueError", "length <= 0")],
         ensures=["result >= 0",
                  "forall(lambda x: implies(result <= x and x < result + length, " + cnt("x") + " == 0))",
                  "forall(lambda k: implies(0 <= k and k < result, exists(lambda x: k <= x and x < k + length and "
                  + cnt("x") + " != 0)))"],
         loops={0: dict(invariant=[
             "-1 <= last_non_zero and last_non_zero < _i0",
             "last_non_zero == -1 or self._preimage_count._list[last_non_zero] != 0",
             "forall(lambda x: implies(last_non_zero < x and x < _i0, self._preimage_count._list[x] == 0))",
             "_i0 - 1 - last_non_zero < length",
             "forall(lambda k: implies(0 <= k and k <= last_non_zero, exists(lambda x: k <= x and x < k + length and "
             "x <= last_non_zero and self._preimage_count._list[x] != 0)))"])},
         modifies=[],
         notes="smallest k such that no class has a value in [k, k+length-1] (histogram beyond the list is 0)")

klass(F, "TableMethod", fields={})
contract(F, "TableMethod._can_give_terms", props=["C03"],
         params={"shifts": List(Opt(Int))}, returns=Bool,
         ensures=["result == forall(lambda i: implies(0 <= i and i < len(shifts), is_none(shifts[i]) or val(shifts[i]) > 0))"],
         modifies=[], notes="a rule fires only when every shift is positive or infinite")

# ---------------------------------------------------------------- TableMethod queries (C03, C11)
Bucket = Opaque("RuleBucket")
ForestRuleKey = Tup(Int, Seq(Int), Seq(Int), Bucket, names=["parent", "children", "shifts", "bucket"], nm="ForestRuleKey")
named_tuple("ForestRuleKey", ForestRuleKey)
tuple_property(ForestRuleKey, "key", "comb_spec_searcher/typing.py")
REG.classes["TableMethod"].fields.update({"_rules": List(ForestRuleKey), "_function": Obj("Function")})
FAL = {"ForestRuleKey": ForestRuleKey, "RuleKey": Tup(Int, Seq(Int))}      # names of comb_spec_searcher/typing.py

contract(F, "Function.preimage", props=["C03", "C11"], aliases=FAL,
         params={"self": Obj("Function"), "value": Opt(Int)}, returns=Seq(Int),
         raises=[("ValueError", "value == 0")],
         ensures=["forall(lambda x: (x in result) == (0 <= x and x < len(self._value) and self._value[x] == value))"],
         modifies=[], notes="the keys whose value is `value` (None = infinity)")

contract(F, "TableMethod.is_pumping", props=["C03", "C11"], aliases=FAL,
         params={"self": Obj("TableMethod"), "label": Int}, returns=Bool, requires=["label >= 0"],
         ensures=["result == is_none(old(" + "ite(label < len(self._function._value), self._function._value[label], 0)" + "))"],
         modifies=["*self._function._value", "*self._function._preimage_count._list"],
         notes="a class is pumping iff its value is infinity")

contract(F, "TableMethod.stable_subset", props=["C11"], inline=True, verify=False, aliases=FAL,
         trusted_reason="one-line helper, inlined from its real source", params={})

contract(F, "TableMethod.pumping_subuniverse", props=["C11"], aliases=FAL,
         params={"self": Obj("TableMethod")}, returns=Seq(ForestRuleKey),
         requires=["forall(lambda i: implies(0 <= i and i < len(self._rules), self._rules[i].parent >= 0 and "
                   "forall(lambda j: implies(0 <= j and j < len(self._rules[i].children), self._rules[i].children[j] >= 0))))"],
         yields=["exists(lambda i: 0 <= i and i < len(self._rules) and self._rules[i] == it)",
                 "it.parent < len(self._function._value) and is_none(self._function._value[it.parent])",
                 "forall(lambda j: implies(0 <= j and j < len(it.children), it.children[j] < len(self._function._value) and "
                 "is_none(self._function._value[it.children[j]])))"],
         # ... and ALL of them: a stored key whose classes are all pumping is handed out (however many equal-looking keys with
         # another bucket or other shifts were stored before it)
         complete={"var": "w", "type": ForestRuleKey,
                   "when": ["0 <= wi and wi < len(self._rules) and self._rules[wi] == w",
                            "w.parent < len(self._function._value) and is_none(self._function._value[w.parent])",
                            "forall(lambda j: implies(0 <= j and j < len(w.children), w.children[j] < len(self._function._value) and "
                            "is_none(self._function._value[w.children[j]])))"],
                   "invariants": {0: ["found or wi >= _i0"]}},
         ghost={"wi": Int},
         modifies=[], notes="exactly the stored rule keys all of whose classes are pumping (restriction to the pumping sub-universe)")

# ---------------------------------------------------------------- shift table (C03)
# The shift of child i in a rule = number of terms the child can still give the parent:
#     value(child_i) + declared_shift_i - value(parent)       (infinite child: None; infinite parent: all None)
_TF = "self._function"
_TFV = "ite({k} < len(self._function._value), self._function._value[{k}], 0)"
contract(F, "TableMethod._compute_shift", props=["C03"], aliases=FAL,
         params={"self": Obj("TableMethod"), "rule_key": Tup(Int, Seq(Int)), "shifts_for_zero": Seq(Int)},
         returns=List(Opt(Int)),
         requires=["rule_key[0] >= 0", "forall(lambda j: implies(0 <= j and j < len(rule_key[1]), rule_key[1][j] >= 0))",
                   "len(rule_key[1]) == len(shifts_for_zero)"],
         ensures=["fresh(result)", "len(result) == len(shifts_for_zero)",
                  "implies(is_none(old(" + _TFV.format(k="rule_key[0]") + ")), "
                  "forall(lambda i: implies(0 <= i and i < len(result), is_none(result[i]))))",
                  "implies(not is_none(old(" + _TFV.format(k="rule_key[0]") + ")), "
                  "forall(lambda i: implies(0 <= i and i < len(result), "
                  "result[i] == ite(is_none(old(" + _TFV.format(k="rule_key[1][i]") + ")), None, "
                  "val(old(" + _TFV.format(k="rule_key[1][i]") + ")) + shifts_for_zero[i] - "
                  "val(old(" + _TFV.format(k="rule_key[0]") + "))))))",
                  # reading the function never changes a value
                  "forall(lambda k: implies(0 <= k, " + _TFV.format(k="k") + " == old(" + _TFV.format(k="k") + ")))"],
         modifies=["*self._function._value", "*self._function._preimage_count._list"],
         notes="initial shifts of a newly inserted rule from the current values; no existing row is touched")

# ---------------------------------------------------------------- inserting a rule key (C03/C11): well-formedness at the call sites
_WFKEY = ("{k}.parent >= 0 and len({k}.children) == len({k}.shifts) and "
          "forall(lambda j: implies(0 <= j and j < len({k}.children), {k}.children[j] >= 0))")
REG.classes["TableMethod"].fields.update({"_shifts": List(List(Opt(Int))), "_gap_size": Int, "_current_gap": Tup(Int, Int),
                                          "_processing_queue": Deque(Int), "_rule_holding_extra_terms": Set(Int)})
_TM_STATE = ["self._current_gap", "*self._processing_queue", "*self._rule_holding_extra_terms"]
_TM_FUN = ["*self._function._value", "*self._function._preimage_count._list", "self._function._infinity_count",
           "all:List(Opt(Int))"]
# the two index structures (rules pumping / using a class): rows are created on first access and only ever rewritten in place
_TM_IDX = ["*self._rules_using_class._list", "*self._rules_pumping_class._list", "all:List(Int)", "all:List(Tup(Int, Int))", "self.posP"]
# everything queued or held back is the index of a stored rule
_Q_OK = "each(self._processing_queue, lambda x: 0 <= x and x < len(self._rules))"
_H_OK = "forall(lambda x: implies(x in self._rule_holding_extra_terms, 0 <= x and x < len(self._rules)))"
# a rule is held back on behalf of a parent whose value lies above the gap (or has become infinite since)
_HOLD_V = ("forall(lambda x: implies(x in self._rule_holding_extra_terms and 0 <= x and x < len(self._rules), "
           "is_none(" + "ite(self._rules[x].parent < len(self._function._value), self._function._value[self._rules[x].parent], 0)" + ") or "
           "val(" + "ite(self._rules[x].parent < len(self._function._value), self._function._value[self._rules[x].parent], 0)" + ") > self._current_gap[1]))")
contract(F, "TableMethod._correct_gap", props=["C03"], aliases=FAL,
         params={"self": Obj("TableMethod")},
         requires=["self._gap_size >= 1", _Q_OK, _H_OK],
         ensures=[_Q_OK, _H_OK,
             # the gap is the first window of _gap_size unused values
             "self._current_gap[0] == last_result('Function.preimage_gap')",
             "self._current_gap[1] == self._current_gap[0] + self._gap_size - 1",
             # when the window moved to the right, the held rules leave the holding set and as many entries are queued
             # (that the queued entries ARE the held rules is not stated: membership in a deque after extend-from-set is
             # beyond the solvers here; the bounded stand-in c03 covers it)
             "implies(self._current_gap[1] > old(self._current_gap[1]), len(self._rule_holding_extra_terms) == 0)",
             "implies(self._current_gap[1] > old(self._current_gap[1]), "
             "len(self._processing_queue) == old(len(self._processing_queue)) + old(len(self._rule_holding_extra_terms)))",
             "implies(not (self._current_gap[1] > old(self._current_gap[1])), "
             "forall(lambda r: (r in self._rule_holding_extra_terms) == old(r in self._rule_holding_extra_terms)) and "
             "len(self._processing_queue) == old(len(self._processing_queue)))",
             # nothing already queued is lost
             "forall(lambda i: implies(0 <= i and i < old(len(self._processing_queue)), "
             "self._processing_queue[i] == old(self._processing_queue[i])))"],
         modifies=_TM_STATE,
         notes="gap bookkeeping: window position and the requeue of held rules")
_NONNEG = "forall(lambda k: implies(0 <= k, is_none(" + _TFV.format(k="k") + ") or val(" + _TFV.format(k="k") + ") >= 0))"
# no row of the shift table is the value list of the function (both are lists of Optional[int])
_ROWS_APART = ("forall(lambda r: implies(0 <= r and r < len(self._shifts), not same(self._shifts[r], self._function._value)))")
_PARENTS_OK = ("forall(lambda r: implies(0 <= r and r < len(self._rules), self._rules[r].parent >= 0 and "
               "forall(lambda j: implies(0 <= j and j < len(self._rules[r].children), self._rules[r].children[j] >= 0))))")
# no row of rule indices is the histogram's list (both are lists of int)
_HIST_APART = ("forall(lambda i: implies(0 <= i and i < len(self._rules_pumping_class._list), "
               "not same(self._rules_pumping_class._list[i], self._function._preimage_count._list)))")
_PL = "self._rules_pumping_class._list"
# every recorded "rule pumping class c" is a valid row of the shift table, recorded once; shift rows are pairwise distinct lists
_P_ALL_OK = ("forall(lambda c, k: implies(0 <= c and c < len(" + _PL + ") and 0 <= k and k < len(" + _PL + "[c]), "
             "0 <= " + _PL + "[c][k] and " + _PL + "[c][k] < len(self._shifts)))")
_P_ALL_DIST = ("forall(lambda c, k, l: implies(0 <= c and c < len(" + _PL + ") and 0 <= k and k < l and l < len(" + _PL + "[c]), "
               + _PL + "[c][k] != " + _PL + "[c][l]))")
_SROWS_DISTINCT = "forall(lambda r, q: implies(0 <= r and r < q and q < len(self._shifts), not same(self._shifts[r], self._shifts[q])))"
# one row of shifts per stored rule, each an existing list (well-typed heap, stated because the rows are reached through a quantifier)
_SROWS_ALLOC = "len(self._shifts) == len(self._rules) and forall(lambda r: implies(0 <= r and r < len(self._shifts), allocated(self._shifts[r])))"
# ... each recorded under its own parent; and (completeness, with the ghost position map posP) every stored rule whose parent is
# still finite IS recorded among the rules pumping its parent
_P_PARENT = ("forall(lambda c, k: implies(0 <= c and c < len(" + _PL + ") and 0 <= k and k < len(" + _PL + "[c]), "
             "self._rules[" + _PL + "[c][k]].parent == c))")
_P_COMPLETE = ("forall_t(lambda r: implies(0 <= r and r < len(self._rules) and not is_none(" + _TFV.format(k="self._rules[r].parent") + "), "
               "self._rules[r].parent < len(" + _PL + ") and 0 <= self.posP[r] and self.posP[r] < len(" + _PL + "[self._rules[r].parent]) and "
               + _PL + "[self._rules[r].parent][self.posP[r]] == r))")
# every recorded "(rule r, child position i) uses class c" is a valid position of a stored rule whose i-th child is c, recorded once;
# a row of shifts is as long as its rule has children
_ULL = "self._rules_using_class._list"
_U_SOUND = ("forall(lambda c, k: implies(0 <= c and c < len(" + _ULL + ") and 0 <= k and k < len(" + _ULL + "[c]), "
            "0 <= " + _ULL + "[c][k][0] and " + _ULL + "[c][k][0] < len(self._rules) and 0 <= " + _ULL + "[c][k][1] and "
            + _ULL + "[c][k][1] < len(self._rules[" + _ULL + "[c][k][0]].children) and "
            "self._rules[" + _ULL + "[c][k][0]].children[" + _ULL + "[c][k][1]] == c))")
_U_DIST = ("forall(lambda c, k, l: implies(0 <= c and c < len(" + _ULL + ") and 0 <= k and k < l and l < len(" + _ULL + "[c]), "
           + _ULL + "[c][k] != " + _ULL + "[c][l]))")
_SROW_LEN = ("forall(lambda r: implies(0 <= r and r < len(self._shifts), len(self._shifts[r]) == len(self._rules[r].children) and "
             "len(self._rules[r].shifts) == len(self._rules[r].children)))")
# an entry recorded as "rule r uses class c at position i" has a finite shift (it was finite when recorded, stays finite under
# +1/-1, and is dropped from the record when it becomes infinite)
_U_FIN = ("forall(lambda c, k: implies(0 <= c and c < len(" + _ULL + ") and 0 <= k and k < len(" + _ULL + "[c]), "
          "not is_none(self._shifts[" + _ULL + "[c][k][0]][" + _ULL + "[c][k][1]])))")
_IDX_WF = ["wf(self._rules_using_class)", "wf(self._rules_pumping_class)", _HIST_APART, _P_ALL_OK, _P_ALL_DIST, _SROWS_DISTINCT, _SROWS_ALLOC,
           _P_PARENT, _P_COMPLETE, _U_SOUND, _U_DIST, _SROW_LEN, _U_FIN, _Q_OK, _H_OK, _HOLD_V]
# SHIFTS NEVER OVERESTIMATE (the soundness half of shift coherence): for a rule whose parent is finite, an infinite shift means the
# child is infinite, and a finite shift of a finite child is at most  value(child) + declared shift - value(parent)
_FVP = _TFV.format(k="self._rules[r].parent")
_FVC = _TFV.format(k="self._rules[r].children[i]")
_SILE_MID = ("forall_t(lambda r, i: implies(0 <= r and r < len(self._shifts) and 0 <= i and i < len(self._shifts[r]) and not is_none(" + _FVP + "), "
             "implies(is_none(self._shifts[r][i]), is_none(" + _FVC + ")) and "
             "implies(not is_none(self._shifts[r][i]) and not is_none(" + _FVC + "), "
             "val(self._shifts[r][i]) <= val(" + _FVC + ") + self._rules[r].shifts[i] - val(" + _FVP + ") "
             "- ite(self._rules[r].children[i] == comb_class, 1, 0){extra})))")
_SILE = ("forall_t(lambda r, i: implies(0 <= r and r < len(self._shifts) and 0 <= i and i < len(self._shifts[r]) and not is_none(" + _FVP + "), "
         "implies(is_none(self._shifts[r][i]), is_none(" + _FVC + ")) and "
         "implies(not is_none(self._shifts[r][i]) and not is_none(" + _FVC + "), "
         "val(self._shifts[r][i]) <= val(" + _FVC + ") + self._rules[r].shifts[i] - val(" + _FVP + "))))")
# the gap is at least as wide as the largest declared shift (of either sign) of any stored rule -- BEFORE anything is propagated
_GAPCOVER = ("forall(lambda r, i: implies(0 <= r and r < len(self._rules) and 0 <= i and i < len(self._rules[r].shifts), "
             "0 - self._gap_size <= self._rules[r].shifts[i] and self._rules[r].shifts[i] <= self._gap_size))")
_TBL_INV = ["self._gap_size >= 1", _NONNEG, _ROWS_APART, _PARENTS_OK, _GAPCOVER] + _IDX_WF + [_SILE]


def tbl_inv(name):
    """The table invariant stated about the table held in variable `name`."""
    return [x.replace("self.", name + ".") for x in _TBL_INV]


# ---------------------------------------------------------------- the two index structures: DefaultList(list) of index rows
# DefaultList[List[int]] (rules pumping a class) and DefaultList[List[Tuple[int, int]]] (rules using a class): same real source
# as the histogram's DefaultList[int], but the default factory allocates a NEW empty list per missing position
# (call model "<new list>" for `self._default_factory()` inside the extend of _increase_list_len: bulk allocation).
Pair = Tup(Int, Int)
_ROWS_GROW = ["len(self._list) >= old(len(self._list))",
              "forall(lambda i: implies(0 <= i and i < old(len(self._list)), same(self._list[i], old(self._list[i]))))",
              "forall(lambda i: implies(old(len(self._list)) <= i and i < len(self._list), fresh(self._list[i]) and len(self._list[i]) == 0))"]
for _nm, _row in (("DefaultListIdx", List(Int)), ("DefaultListPairs", List(Pair))):
    klass(F, _nm, fields={"_list": List(_row)}, iter_delegate="_list",
          # every position has a row of its own, and every row is an existing list
          invariant=["forall(lambda i, j: implies(0 <= i and i < j and j < len(self._list), not same(self._list[i], self._list[j])))",
                     "forall(lambda i: implies(0 <= i and i < len(self._list), allocated(self._list[i])))"])
    contract(F, _nm + ".__init__", source="DefaultList.__init__", props=["C03"], self_invariant=False, lenient=True,
             params={"self": Obj(_nm), "default_factory": Opaque("Any")},
             ensures=["len(self._list) == 0", "fresh(self._list)", "wf(self)"], modifies=["*self"])
    contract(F, _nm + "._increase_list_len", source="DefaultList._increase_list_len", props=["C03"], aliases={"Pair": Pair},
             params={"self": Obj(_nm), "key": Int}, call_models={"self._default_factory": "<new list>"},
             ensures=["len(self._list) == ite(key >= old(len(self._list)), key + 1, old(len(self._list)))"] + _ROWS_GROW,
             modifies=["*self._list"],
             notes="missing positions up to `key` are filled with new, empty, pairwise distinct lists (the default factory is `list`)")
    contract(F, _nm + ".__getitem__", source="DefaultList.__getitem__", props=["C03"], aliases={"Pair": Pair},
             params={"self": Obj(_nm), "key": Int}, returns=_row, requires=["key >= 0"],
             ensures=["len(self._list) > key", "same(result, self._list[key])"] + _ROWS_GROW,
             modifies=["*self._list"],
             notes="the row at `key`; existing rows keep their identity and content")
    contract(F, _nm + ".__setitem__", source="DefaultList.__setitem__", props=["C03"], aliases={"Pair": Pair},
             params={"self": Obj(_nm), "key": Int, "value": _row},
             requires=["0 <= key", "key < len(self._list)", "allocated(value)",
                       "forall(lambda i: implies(0 <= i and i < len(self._list) and i != key, not same(self._list[i], value)))"],
             ensures=["len(self._list) == old(len(self._list))", "same(self._list[key], value)",
                      "forall(lambda i: implies(0 <= i and i < len(self._list) and i != key, same(self._list[i], old(self._list[i]))))"],
             modifies=["*self._list"])
REG.classes["TableMethod"].fields.update({"_rules_using_class": Obj("DefaultListPairs"), "_rules_pumping_class": Obj("DefaultListIdx")})
REG.classes["TableMethod"].ghost_fields.update({"posP": Map(Int, Int)})      # position of rule r in the row of its parent

_UL = "self._rules_using_class._list"
_REGISTERED = ("forall_t(lambda j: implies(0 <= j and j < {hi} and not is_none(" + _TFV.format(k="rule_key.children[j]") + "), "
               "rule_key.children[j] < len(" + _UL + ") and 0 <= wit[j] and wit[j] < len(" + _UL + "[rule_key.children[j]]) and "
               + _UL + "[rule_key.children[j]][wit[j]] == (rule_idx, j)))")
_EARLIER = ("forall_t(lambda j: implies(0 <= j and j < child_idx and not is_none(" + _TFV.format(k="rule_key.children[j]") + "), {body}))")
_PUMP_LAST = ("rule_key.parent < len(self._rules_pumping_class._list) and len(self._rules_pumping_class._list[rule_key.parent]) >= 1 and "
              "self._rules_pumping_class._list[rule_key.parent][len(self._rules_pumping_class._list[rule_key.parent]) - 1] == rule_idx")
contract(F, "TableMethod.add_rule_key", props=["C03", "C11"], lenient=True, aliases=FAL,
         params={"self": Obj("TableMethod"), "rule_key": ForestRuleKey},
         # every child of an inserted key is paired with a shift (otherwise zip() silently drops the child)
         requires=[_WFKEY.format(k="rule_key")] + _TBL_INV,
         ensures=_TBL_INV + ["len(self._rules) == old(len(self._rules)) + 1", "self._rules[len(self._rules) - 1] == rule_key",
                  "forall(lambda i: implies(0 <= i and i < old(len(self._rules)), self._rules[i] == old(self._rules[i])))"],
         # no exception: the propagation is proved free of exceptions (index validity of everything queued, held or recorded; finite
         # shifts at recorded positions; rules are held back only from above the gap)
         may_raise=[],
         # registration: once a rule with a finite parent is stored, every child position whose class is still finite is
         # recorded among the rules using that class (so that a later increase of the child reaches this rule's shift),
         # the rule is recorded among those pumping its parent, and it is queued
         ghost={"wit": Map(Int, Int)},        # position of the entry recorded for child j in the row of its class
         ghost_stmts={"after:~self._shifts.append(": ["assert " + _SROW_LEN, "assert " + _U_SOUND, "assert " + _SILE,
                          # the new row: finite parent and finite child give a finite shift
                          "assert forall(lambda i: implies(0 <= i and i < len(rule_key.children) and not is_none(" + _TFV.format(k="rule_key.parent") + ") and "
                          "not is_none(" + _TFV.format(k="rule_key.children[i]") + "), not is_none(self._shifts[len(self._shifts) - 1][i])))"],
                      "after:~self._rules_pumping_class[rule_key.parent].append(rule_idx)": [
                          "self.posP = mset(self.posP, rule_idx, len(" + _PL + "[rule_key.parent]) - 1)",
                          "assert " + _P_COMPLETE],
                      "after:~self._rules_using_class[child].append(": [
                          # the append keeps the earlier entries: same rows, never shorter, same content at the recorded places
                          "assert forall_t(lambda j: implies(0 <= j and j < len(rule_key.children), rule_key.children[j] >= 0))",
                          "assert " + _EARLIER.format(body="rule_key.children[j] < at('iter0', len(" + _UL + "))"),
                          "assert " + _EARLIER.format(body="same(" + _UL + "[rule_key.children[j]], at('iter0', " + _UL + "[rule_key.children[j]]))"),
                          "assert " + _EARLIER.format(body="len(" + _UL + "[rule_key.children[j]]) >= at('iter0', len(" + _UL + "[rule_key.children[j]]))"),
                          "assert " + _EARLIER.format(body=_UL + "[rule_key.children[j]][wit[j]] == at('iter0', " + _UL + "[rule_key.children[j]][wit[j]])"),
                          "assert " + _REGISTERED.format(hi="child_idx"),
                                       "wit = mset(wit, child_idx, len(self._rules_using_class._list[child]) - 1)"],
                      "after:~self._processing_queue.append(rule_idx)": ["assert " + _REGISTERED.format(hi="len(rule_key.children)"),
                                       "assert self._processing_queue[len(self._processing_queue) - 1] == rule_idx",
                                       "assert rule_idx == len(self._rules) - 1", "assert " + _PUMP_LAST]},
         # (only what the loop can change is restated: function lists and the rows of rules using a class; the rest of the
         # table invariant is about locations outside the loop's frame)
         loops={0: dict(invariant=[_NONNEG, "not is_none(" + _TFV.format(k="rule_key.parent") + ")", "wf(self._rules_using_class)", _P_COMPLETE, _SILE, _U_FIN, _HOLD_V,
                                   "forall(lambda i: implies(0 <= i and i < len(rule_key.children) and not is_none(" + _TFV.format(k="rule_key.parent") + ") and "
                                   "not is_none(" + _TFV.format(k="rule_key.children[i]") + "), not is_none(self._shifts[rule_idx][i])))",
                                   _U_SOUND,
                                   # entries of the new rule are those of the positions met so far; every other entry is of an older rule
                                   "forall(lambda c, k: implies(0 <= c and c < len(" + _ULL + ") and 0 <= k and k < len(" + _ULL + "[c]), "
                                   + _ULL + "[c][k][0] < rule_idx or (" + _ULL + "[c][k][0] == rule_idx and " + _ULL + "[c][k][1] < _i0)))",
                                   _U_DIST, _REGISTERED.format(hi="_i0")],
                        modifies=["*self._function._value", "*self._function._preimage_count._list", "*self._rules_using_class._list",
                                  "all:List(Tup(Int, Int))"])},
         modifies=["*self._rules", "*self._shifts", "self._gap_size"] + _TM_STATE + _TM_FUN + _TM_IDX,
         notes="the key is stored as given; its initial shifts are computed from well-formed data (call-site obligations of "
               "_compute_shift)")

# ---------------------------------------------------------------- C11: turning an extracted key back into a rule
from . import rule as _rule_c  # noqa: E402,F401
from .rule_db import _ufn as _ufn3  # noqa: E402
klass(F, "ForestRuleExtractor", fields={"classdb": Obj("ClassDB")})
spec_fn("reversible_of", _ufn3("reversible_of", Bool))
contract("comb_spec_searcher/strategies/rule.py", "Rule.is_reversible", source="AbstractRule.is_reversible", props=["C11"],
         verify=False, trusted_reason="strategy.is_reversible(comb_class): deterministic user code (A2)",
         params={"self": Obj("Rule")}, returns=Bool, ensures=["result == reversible_of(self)"], modifies=[])
contract("comb_spec_searcher/strategies/rule.py", "Rule.to_reverse_rule", props=["C11"], verify=False,
         trusted_reason="constructor of the reverse form (ReverseRule.__init__): a fresh rule object; the forms themselves are "
                        "covered by ReverseRule.shifts/forest_key/children contracts",
         params={"self": Obj("Rule"), "idx": Int}, returns=Obj("Rule"), ensures=["fresh(result)"],
         may_raise=["StrategyDoesNotApply"], modifies=[])
contract(F, "ForestRuleExtractor._rules_for_class", props=["C11"], verify=False, aliases=FAL,
         trusted_reason="replays the pack on one class (user strategies and factories)",
         params={"self": Obj("ForestRuleExtractor"), "label": Int}, returns=Seq(Obj("Rule")), yields=["True"], modifies=[])
contract(F, "ForestRuleExtractor._find_rule", props=["C11"], lenient=True, aliases=FAL,
         params={"self": Obj("ForestRuleExtractor"), "rule_key": ForestRuleKey}, returns=Obj("Rule"),
         locals={"potential_rules": List(Obj("Rule")), "normal_rule": Obj("Rule")},
         may_raise=["RuntimeError", "StrategyDoesNotApply", "AssertionError"], asserts="raise",
         pure_calls=["get_class"],
         # the rule handed back has exactly the wanted key
         ensures=['last_result("Rule.forest_key") == rule_key', 'same(result, last_arg("Rule.forest_key", 0))'],
         # every candidate is tried in its own form and, when reversible, in ALL its reverse forms -- whatever the bucket
         # of the wanted key (a reverse rule that is an equivalence is filed under EQUIV, not REVERSE)
         ghost_stmts={"after:if#0": [
             "assert implies(reversible_of(normal_rule), len(potential_rules) == 1 + len(children_of(normal_rule)))"]},
         modifies=["all:Obj('AbstractRule')", "all:List(Obj('Rule'))"],
         notes="candidates are the pack's rules for the classes of the key (A2: deterministic strategies)")

# ---------------------------------------------------------------- C11/C02: RuleDBForest.get_specification_rules
# rules are handed out only after the extractor's self check (closed, one rule per class, productive, minimal) ran
klass(F, "RuleDBForest", bases=["RuleDBAbstract"], fields={})
contract(F, "ForestRuleExtractor.__init__", props=["C11", "C02"], verify=False, aliases=FAL,
         trusted_reason="restriction to the pumping sub-universe and bucket-by-bucket minimisation (bounded stand-in c11)",
         params={"self": Obj("ForestRuleExtractor"), "root_label": Int, "ruledb": Obj("RuleDBForest"), "classdb": Obj("ClassDB"),
                 "pack": Opaque("Pack")}, may_raise=["RuntimeError"], modifies=["*self"], self_invariant=False)
contract(F, "ForestRuleExtractor.check", props=["C11", "C02"], verify=False, aliases=FAL,
         trusted_reason="the extractor's self check (asserts on the extracted keys); bounded stand-in c11",
         params={"self": Obj("ForestRuleExtractor")}, may_raise=["AssertionError"], modifies=[], self_invariant=False)
contract(F, "ForestRuleExtractor.rules", props=["C11", "C02"], verify=False, aliases=FAL,
         trusted_reason="turns the extracted keys back into rules (_find_rule is verified above); bounded stand-in c11",
         params={"self": Obj("ForestRuleExtractor"), "cache": Opaque("Any")}, returns=Opaque("RuleIter"), modifies=[],
         self_invariant=False)
contract(F, "RuleDBForest.root_label", source="RuleDBForest.has_specification", props=["C11", "C02"], verify=False,
         trusted_reason="searcher.start_label through the link to the searcher (RuleDBAbstract property)",
         params={"self": Obj("RuleDBForest")}, returns=Int, ensures=["result == root_label_of(self)"])
REG.classes["RuleDBForest"].properties.append("root_label")
contract(F, "RuleDBForest.get_specification_rules", props=["C11", "C02"], lenient=True, aliases=FAL,
         params={"self": Obj("RuleDBForest")}, returns=Opaque("RuleIter"),
         may_raise=["RuntimeError", "AssertionError"],
         call_requires={
             "ForestRuleExtractor.__init__": ["root_label == root_label_of(caller_self)", "same(ruledb, caller_self)"],
             "ForestRuleExtractor.rules": ['called_after("ForestRuleExtractor.check", "ForestRuleExtractor.__init__")',
                                           'same(self, last_arg("ForestRuleExtractor.check", 0))']},
         modifies=["all:Obj('ForestRuleExtractor')"],
         notes="extraction is rooted at the start label; the self check runs before any rule is handed out")

# ---------------------------------------------------------------- C11: _is_productive -- a fresh table fed with exactly the given keys
contract(F, "DefaultListInt.__init__", source="DefaultList.__init__", props=["C03"], self_invariant=False, lenient=True,
         params={"self": Obj("DefaultListInt"), "default_factory": Opaque("Any")},
         ensures=["len(self._list) == 0", "fresh(self._list)"], modifies=["*self"],
         notes="a new default list is empty")
contract(F, "Function.__init__", props=["C03"], self_invariant=False, lenient=True,
         params={"self": Obj("Function")},
         ensures=["len(self._value) == 0", "fresh(self._value)", "fresh(self._preimage_count)", "fresh(self._preimage_count._list)",
                  "len(self._preimage_count._list) == 0", "self._infinity_count == 0"],
         modifies=["*self"], notes="the zero function: no stored value, empty histogram")
contract(F, "TableMethod.__init__", props=["C11", "C03"], aliases=FAL, lenient=True,
         params={"self": Obj("TableMethod")},
         ensures=_TBL_INV + ["self._gap_size == 1", "len(self._rules) == 0", "len(self._shifts) == 0", "fresh(self._function)", "fresh(self._rules)",
                  # every container of the new table is a new object
                  "fresh(self._shifts)", "fresh(self._processing_queue)", "fresh(self._rule_holding_extra_terms)",
                  "fresh(self._function._value)", "fresh(self._function._preimage_count)",
                  "fresh(self._function._preimage_count._list)",
                  "len(self._processing_queue) == 0", "len(self._rule_holding_extra_terms) == 0", "self._current_gap == (1, 1)",
                  "len(self._function._value) == 0"],
         modifies=["*self"], self_invariant=False,
         notes="empty table, gap size 1 at (1, 1), zero function: the table invariant holds initially")
REG.classes["ForestRuleExtractor"].fields.update({"root_label": Int})
_ISP_OTHER = ["all:Obj('TableMethod')", "all:List(List(Opt(Int)))", "all:List(Int)", "all:Deque(Int)", "all:Set(Int)",
                   "all:List(Opt(Int))", "all:Obj('Function')", "all:Obj('DefaultListInt')", "all:List(List(Int))",
                   "all:List(List(Tup(Int, Int)))", "all:List(Tup(Int, Int))"]
contract(F, "ForestRuleExtractor._is_productive", props=["C11"], lenient=True, aliases=FAL,
         params={"self": Obj("ForestRuleExtractor"), "rule_keys": Seq(ForestRuleKey)}, returns=Bool,
         requires=["self.root_label >= 0",
                   "forall(lambda i: implies(0 <= i and i < len(rule_keys), " + _WFKEY.format(k="rule_keys[i]") + "))"],
         locals={"ruledb": Obj("TableMethod")},
         may_raise=[],
         # the verdict is the pumping status of the root in a table that received every given key (and only those), in order
         loops={0: dict(invariant=tbl_inv("ruledb") + ["fresh(ruledb)", "len(ruledb._rules) == _i0",
                                   "forall(lambda j: implies(0 <= j and j < _i0, ruledb._rules[j] == rule_keys[j]))"],
                        modifies=["*ruledb._rules"] + _ISP_OTHER)},
         call_requires={"TableMethod.is_pumping": ["label == caller_self.root_label", "fresh(self)",
                                                   "len(self._rules) == len(rule_keys)",
                                                   "forall(lambda j: implies(0 <= j and j < len(rule_keys), self._rules[j] == rule_keys[j]))"]},
         # no list of rule keys that existed before the call changes (the table's own key list is a new object); the
         # other kinds of state belong to the fresh table but are not separated from pre-existing tables here
         modifies=_ISP_OTHER,
         notes="productivity is judged by a fresh table method that was given exactly these keys")

# ---------------------------------------------------------------- C11: _minimize_key -- bookkeeping of the kept rules
# (no reasoning about productivity itself: that needs monotonicity of the table method, paper lemma L3)
#   * the bucket being minimised is emptied, the other buckets are untouched, needed_rules only grows,
#   * a rule is kept (appended to needed_rules) only right after `_is_productive` of everything else answered False:
#     ghost set `nec` collects the keys for which that test was observed; every new element of needed_rules is in it.
REG.classes["ForestRuleExtractor"].fields.update({"needed_rules": List(ForestRuleKey),
                                                  "rule_by_bucket": Dict(Bucket, List(ForestRuleKey))})
_MK_MODS = ["*self.needed_rules", "all:List(ForestRuleKey)", "all:List(List(ForestRuleKey))", "all:Obj('TableMethod')",
            "all:List(List(Opt(Int)))", "all:List(Int)", "all:Deque(Int)", "all:Set(Int)", "all:List(Opt(Int))",
            "all:Obj('Function')", "all:Obj('DefaultListInt')", "all:List(List(Int))", "all:List(List(Tup(Int, Int)))",
            "all:List(Tup(Int, Int))"]
_NEW_NEC = ("forall(lambda i: implies({lo} <= i and i < len(self.needed_rules), nec[self.needed_rules[i]]))")
_OLD_SAME = ("len(self.needed_rules) >= {lo} and forall(lambda i: implies(0 <= i and i < {lo}, "
             "self.needed_rules[i] == {old}))")
contract(F, "ForestRuleExtractor._minimize_key", props=["C11"], lenient=True, aliases=dict(FAL, RuleBucket=Bucket),
         params={"self": Obj("ForestRuleExtractor"), "key": Bucket},
         locals={"maybe_useful": List(ForestRuleKey), "not_minimizing": List(List(ForestRuleKey)),
                 "minimizing": List(ForestRuleKey), "rk": ForestRuleKey},
         ghost={"nec": Map(ForestRuleKey, Bool), "n0": Int},
         pure_calls=["add_rule_key", "is_pumping"],
         # that every key handed to _is_productive pairs each child with a shift is established where keys are created
         # (forest_key contracts), not re-proved through the lists here
         assume_call_pre=["ForestRuleExtractor._is_productive"],
         requires=["key in self.rule_by_bucket", "n0 == len(self.needed_rules)", "self.root_label >= 0",
                   "forall(lambda k=RuleBucket: implies(k in self.rule_by_bucket, not same(self.rule_by_bucket[k], self.needed_rules)))",
                   "forall(lambda k=RuleBucket, l=RuleBucket: implies(k in self.rule_by_bucket and l in self.rule_by_bucket and k != l, "
                   "not same(self.rule_by_bucket[k], self.rule_by_bucket[l])))"],
         may_raise=["RuntimeError", "AssertionError", "IndexError"], asserts="raise",
         ensures=["len(self.rule_by_bucket[key]) == 0",
                  # the other buckets are not touched
                  "forall(lambda k=RuleBucket: (k in self.rule_by_bucket) == old(k in self.rule_by_bucket))",
                  "forall(lambda k=RuleBucket: implies(k in self.rule_by_bucket and k != key, "
                  "same(self.rule_by_bucket[k], old(self.rule_by_bucket[k])) and "
                  "len(self.rule_by_bucket[k]) == old(len(self.rule_by_bucket[k]))))",
                  "len(self.needed_rules) >= n0",
                  "forall(lambda i: implies(0 <= i and i < n0, self.needed_rules[i] == old(self.needed_rules[i])))",
                  _NEW_NEC.format(lo="n0")],
         ghost_stmts={"before:expr#9": ['assert not last_result("ForestRuleExtractor._is_productive")', "nec = madd(nec, rk)"]},
         loops={0: dict(invariant=["forall(lambda k=RuleBucket: implies(k in self.rule_by_bucket and k != key, same(self.rule_by_bucket[k], old(self.rule_by_bucket[k])) and len(self.rule_by_bucket[k]) == old(len(self.rule_by_bucket[k]))))", "forall(lambda k=RuleBucket: (k in self.rule_by_bucket) == old(k in self.rule_by_bucket))", "same(minimizing, old(self.rule_by_bucket[key]))", "len(self.needed_rules) == n0", "not same(minimizing, self.needed_rules)",
                                   "not same(maybe_useful, self.needed_rules)", "not same(maybe_useful, minimizing)",
                                   "forall(lambda i: implies(0 <= i and i < n0, self.needed_rules[i] == at('loop0', self.needed_rules[i])))"],
                        modifies=_MK_MODS),
                1: dict(invariant=[], modifies=[]), 2: dict(invariant=[], modifies=[]),
                3: dict(invariant=[], modifies=["*minimizing"]),
                4: dict(invariant=["forall(lambda k=RuleBucket: implies(k in self.rule_by_bucket and k != key, same(self.rule_by_bucket[k], old(self.rule_by_bucket[k])) and len(self.rule_by_bucket[k]) == old(len(self.rule_by_bucket[k]))))", "forall(lambda k=RuleBucket: (k in self.rule_by_bucket) == old(k in self.rule_by_bucket))", "same(minimizing, old(self.rule_by_bucket[key]))", "len(self.rule_by_bucket[key]) == 0", "len(self.needed_rules) >= n0",
                                   "forall(lambda i: implies(0 <= i and i < n0, self.needed_rules[i] == at('loop4', self.needed_rules[i])))",
                                   _NEW_NEC.format(lo="n0")],
                        modifies=_MK_MODS)},
         modifies=_MK_MODS,
         notes="which rules are kept, and on what evidence; minimality of the final set follows with monotonicity (L3, assumed)")

# ---------------------------------------------------------------- C03: _increase_value keeps the gap up to date
# whenever a value was increased, the recorded gap starts where the histogram says it starts (the window is re-derived
# every time its start moved, in either direction)
_DEC = "ite(is_none({x}), None, val({x}) - 1)"
_NCI = "ite(class_idx < 0, class_idx + len(shifts), class_idx)"      # a negative position is read from the end, as Python does
_PROW = "self._rules_pumping_class._list[comb_class]"
# the rules recorded as pumping the class are valid rule indices, each recorded once
_PROW_OK = ("forall(lambda k: implies(0 <= k and k < len(" + _PROW + "), 0 <= " + _PROW + "[k] and " + _PROW + "[k] < len(self._shifts))) and "
            "forall(lambda k, l: implies(0 <= k and k < l and l < len(" + _PROW + "), " + _PROW + "[k] != " + _PROW + "[l]))")
_UROW = "self._rules_using_class._list[comb_class]"
_UENT = "self._shifts[" + _UROW + "[{k}][0]][" + _UROW + "[{k}][1]]"
# the (rule, child position) pairs recorded as using the class are valid positions of the shift table, each recorded once
_UROW_RANGE = ("forall(lambda k: implies(0 <= k and k < len(" + _UROW + "), 0 <= " + _UROW + "[k][0] and " + _UROW + "[k][0] < len(self._shifts) and "
               "0 <= " + _UROW + "[k][1] and " + _UROW + "[k][1] < len(self._shifts[" + _UROW + "[k][0]])))")
_UROW_DIST = "forall(lambda k, l: implies(0 <= k and k < l and l < len(" + _UROW + "), " + _UROW + "[k] != " + _UROW + "[l]))"
_UROW_OK = _UROW_RANGE + " and " + _UROW_DIST
_TFV_AT = lambda lbl: ("forall(lambda k: implies(0 <= k, " + _TFV.format(k="k") + " == at('" + lbl + "', " + _TFV.format(k="k") + ")))")
_OTHERS_SAME = ("forall(lambda k: implies(0 <= k and k != comb_class, " + _TFV.format(k="k") + " == old(" + _TFV.format(k="k") + ")))")
contract(F, "TableMethod._increase_value", props=["C03"], lenient=True, aliases=FAL,
         params={"self": Obj("TableMethod"), "comb_class": Int, "rule_idx": Int},
         requires=["comb_class >= 0", "0 <= rule_idx and rule_idx < len(self._rules)", "comb_class == self._rules[rule_idx].parent",
                   "self._gap_size >= 1", _NONNEG, _ROWS_APART, _PARENTS_OK,
                   _SILE] + _IDX_WF,
         may_raise=[], asserts="raise",
         ensures=_IDX_WF + [_SILE, "implies(called_after('Function.increase_value', 'TableMethod._increase_value'), "
                  "self._current_gap[0] == last_result('Function.preimage_gap'))",
                  # the value of the class goes up by at most one; an infinite value and every other class are untouched
                  _OTHERS_SAME, _NONNEG,
                  "implies(is_none(old(" + _TFV.format(k="comb_class") + ")), is_none(" + _TFV.format(k="comb_class") + "))",
                  "implies(not is_none(old(" + _TFV.format(k="comb_class") + ")), not is_none(" + _TFV.format(k="comb_class") + ") and "
                  "(val(" + _TFV.format(k="comb_class") + ") == val(old(" + _TFV.format(k="comb_class") + ")) or "
                  "val(" + _TFV.format(k="comb_class") + ") == val(old(" + _TFV.format(k="comb_class") + ")) + 1))",
                  # a value above the gap is frozen: the justifying rule is held back instead
                  "implies(not is_none(old(" + _TFV.format(k="comb_class") + ")) and "
                  "val(old(" + _TFV.format(k="comb_class") + ")) > old(self._current_gap[1]), "
                  "val(" + _TFV.format(k="comb_class") + ") == val(old(" + _TFV.format(k="comb_class") + ")) and rule_idx in self._rule_holding_extra_terms)",
                  "implies(not is_none(old(" + _TFV.format(k="comb_class") + ")) and "
                  "val(old(" + _TFV.format(k="comb_class") + ")) <= old(self._current_gap[1]), "
                  "val(" + _TFV.format(k="comb_class") + ") == val(old(" + _TFV.format(k="comb_class") + ")) + 1)"],
         loops={0: dict(invariant=[_TFV_AT("loop0")] + _IDX_WF + [
                    "comb_class < len(self._rules_pumping_class._list)",
                    "forall(lambda r: implies(0 <= r and r < len(self._shifts), len(self._shifts[r]) == at('loop0', len(self._shifts[r]))))",
                    # rows of the rules met so far: every entry one lower; every other row as it was
                    "forall(lambda k: implies(0 <= k and k < _i0, forall(lambda i: implies(0 <= i and i < len(self._shifts[" + _PROW + "[k]]), "
                    "self._shifts[" + _PROW + "[k]][i] == " + _DEC.format(x="at('loop0', self._shifts[" + _PROW + "[k]][i])") + "))))",
                    "forall(lambda r: implies(0 <= r and r < len(self._shifts) and forall(lambda k: implies(0 <= k and k < _i0, " + _PROW + "[k] != r)), "
                    "forall(lambda i: implies(0 <= i and i < len(self._shifts[r]), self._shifts[r][i] == at('loop0', self._shifts[r][i])))))"],
                        modifies=["all:List(Opt(Int))", "*self._processing_queue"]),
                # the row of a rule pumping the class: every entry drops by one (an infinite entry stays infinite)
                1: dict(invariant=["len(shifts) == at('loop1', len(shifts))",
                                   "forall(lambda i: implies(0 <= i and i < _i1, shifts[i] == " + _DEC.format(x="at('loop1', shifts[i])") + "))",
                                   "forall(lambda i: implies(_i1 <= i and i < len(shifts), shifts[i] == at('loop1', shifts[i])))"],
                        modifies=["*shifts"]),
                # the entries recorded for (rule, child position) pairs using the class: each goes up by one, nothing else moves
                2: dict(invariant=[_TFV_AT("loop2")] + _IDX_WF + [
                    "comb_class < len(" + _ULL + ")",
                    "forall(lambda k: implies(0 <= k and k < _i2, not is_none(at('loop2', " + _UENT.format(k="k") + ")) and "
                    + _UENT.format(k="k") + " == val(at('loop2', " + _UENT.format(k="k") + ")) + 1))",
                    "forall(lambda r, i: implies(0 <= r and r < len(self._shifts) and 0 <= i and i < len(self._shifts[r]) and "
                    "forall(lambda k: implies(0 <= k and k < _i2, not (" + _UROW + "[k][0] == r and " + _UROW + "[k][1] == i))), "
                    "self._shifts[r][i] == at('loop2', self._shifts[r][i])))"],
                        modifies=["all:List(Opt(Int))", "*self._processing_queue"])},
         ghost_stmts={"after:loop#1": ["assert forall(lambda i: implies(0 <= i and i < len(shifts), shifts[i] == " + _DEC.format(x="at('iter0', cur(shifts)[i])") + "))"],
                      # stepping stones of "shifts never overestimate" across the increase of value(comb_class):
                      #   before the loops the bound is off by +1 for the rows of rules pumping the class (their parent grew) and
                      #   has a slack of 1 for the entries whose child is the class (their child grew); the first loop takes the +1
                      #   away, the second uses the slack
                      "before:loop#0": ["assert " + _SILE_MID.format(extra=" + ite(self._rules[r].parent == comb_class, 1, 0)")],
                      "after:loop#0": ["assert " + _SILE_MID.format(extra="")],
                      # a rule using the class: the entry of that child position goes up by one (it was finite)
                      "after:~shifts[class_idx] = current_shift": ["assert shifts[" + _NCI + "] == val(at('iter2', cur(shifts)[" + _NCI.replace("class_idx", "cur(class_idx)").replace("len(shifts)", "len(cur(shifts))") + "])) + 1"]},
         modifies=_TM_STATE + _TM_FUN + _TM_IDX,
         notes="value bookkeeping: +1 below or at the gap, frozen (rule held back) above it; the gap start is re-derived. The "
               "shift-table updates themselves are not stated (the two index structures are untracked)")

_CCV = _TFV.format(k="comb_class")
contract(F, "TableMethod._set_infinite", props=["C03"], lenient=True, aliases=FAL,
         params={"self": Obj("TableMethod"), "comb_class": Int},
         requires=["comb_class >= 0", _NONNEG, _ROWS_APART, _PARENTS_OK, _SILE] + _IDX_WF,
         # a class is declared infinite only from above the gap and only when nothing is left to process
         raises=[("AssertionError", "not is_none(" + _CCV + ") and (val(" + _CCV + ") <= self._current_gap[1] or len(self._processing_queue) > 0)")],
         may_raise=[], asserts="raise",
         ensures=_IDX_WF + [_SILE, "is_none(" + _CCV + ")", _OTHERS_SAME, _NONNEG,
                  "self._function._infinity_count == old(self._function._infinity_count) + ite(is_none(old(" + _CCV + ")), 0, 1)",
                  "self._current_gap == old(self._current_gap)",
                  "forall(lambda r: (r in self._rule_holding_extra_terms) == old(r in self._rule_holding_extra_terms))"],
         loops={0: dict(invariant=[_TFV_AT("loop0"), _PARENTS_OK] + _IDX_WF, modifies=["*self._rules_using_class._list", "all:List(Tup(Int, Int))"]),
                1: dict(invariant=[_TFV_AT("loop1"), _PARENTS_OK] + _IDX_WF, modifies=["*self._rules_using_class._list", "all:List(Tup(Int, Int))"]),
                # the entries recorded for the class become infinite, nothing else in the table moves
                2: dict(invariant=[_TFV_AT("loop2")] + [x for x in _IDX_WF if x is not _U_FIN] + [
                    # (the entries of the class's own row are being made infinite; the row is cleared right after the loop)
                    _U_FIN.replace("0 <= c and c < len(", "c != comb_class and 0 <= c and c < len(", 1),
                    "comb_class < len(" + _ULL + ")", _UROW_RANGE,
                    "forall(lambda r: implies(0 <= r and r < len(self._shifts), len(self._shifts[r]) == at('loop2', len(self._shifts[r]))))",
                    "forall(lambda k: implies(0 <= k and k < _i2, is_none(" + _UENT.format(k="k") + ")))",
                    "forall(lambda r, i: implies(0 <= r and r < len(self._shifts) and 0 <= i and i < len(self._shifts[r]) and "
                    "forall(lambda k: implies(0 <= k and k < _i2, not (" + _UROW + "[k][0] == r and " + _UROW + "[k][1] == i))), "
                    "self._shifts[r][i] == at('loop2', self._shifts[r][i])))"],
                        modifies=["all:List(Opt(Int))", "*self._processing_queue"])},
         ghost_stmts={"before:~shifts[class_idx] = None": ["assert 0 <= rule_idx and rule_idx < len(self._shifts)",
                                                          "assert same(shifts, self._shifts[rule_idx])",
                                                          "assert 0 <= class_idx", "assert class_idx < len(shifts)"]},
         modifies=["*self._processing_queue"] + _TM_FUN + _TM_IDX,
         notes="the class becomes infinite, every other value is untouched; refused (assertion) below the gap or with work queued")

# ---------------------------------------------------------------- C03: the propagation loop
# Firing discipline (what makes every single step of the table method sound): a value is increased only on behalf of a rule
# all of whose shifts are positive or infinite, and for that rule's own parent; a class is declared infinite only for the parent
# of a rule that was held back, and only once the processing queue has run empty.
# the queue holds whatever the (untracked) index structures handed over: a negative entry is read from the end, as Python does
_ROW = "caller_self._shifts[ite(rule_idx < 0, rule_idx + len(caller_self._shifts), rule_idx)]"
_KEYOF = "caller_self._rules[ite(rule_idx < 0, rule_idx + len(caller_self._rules), rule_idx)]"
_ALL_POS = ("forall(lambda i: implies(0 <= i and i < len(" + _ROW + "), is_none(" + _ROW + "[i]) or val(" + _ROW + "[i]) > 0))")
# ... and therefore (shifts never overestimate) the rule really yields a term beyond the parent's current value: every child is
# infinite or has   value(child) + declared shift >= value(parent) + 1
_CFV = lambda e: "ite({k} < len(caller_self._function._value), caller_self._function._value[{k}], 0)".format(k=e)
_NIDX = "ite(rule_idx < 0, rule_idx + len(caller_self._rules), rule_idx)"
_KR = "caller_self._rules[r]"
_JUSTIFIED = ("forall_t(lambda r, i: implies(r == " + _NIDX + " and 0 <= i and i < len(" + _KR + ".children) and not is_none(" + _CFV(_KR + ".parent") + "), "
              "is_none(" + _CFV(_KR + ".children[i]") + ") or "
              "val(" + _CFV(_KR + ".children[i]") + ") + " + _KR + ".shifts[i] >= val(" + _CFV(_KR + ".parent") + ") + 1))")
_PQ_INV = _TBL_INV
contract(F, "TableMethod._process_queue", props=["C03"], lenient=True, aliases=FAL,
         params={"self": Obj("TableMethod")},
         requires=_PQ_INV,
         # free of exceptions: everything queued or held is a valid rule index, recorded positions have finite shifts, rules are
         # held back only from above the gap (so the asserts of _set_infinite cannot fail here)
         may_raise=[],
         call_requires={
             "TableMethod._increase_value": ["comb_class == " + _KEYOF + ".parent", _ALL_POS, _JUSTIFIED],
             "TableMethod._set_infinite": ["len(caller_self._processing_queue) == 0",
                                           "exists(lambda r: 0 <= r and r < len(caller_self._rules) and "
                                           "comb_class == caller_self._rules[r].parent)"]},
         ensures=_TBL_INV + ["len(self._processing_queue) == 0", "len(self._rule_holding_extra_terms) == 0",
                  # values only grow: a finite value never decreases and an infinite one stays infinite
                  "forall(lambda k: implies(0 <= k and is_none(old(" + _TFV.format(k="k") + ")), is_none(" + _TFV.format(k="k") + ")))",
                  "forall(lambda k: implies(0 <= k and not is_none(" + _TFV.format(k="k") + "), "
                  "val(" + _TFV.format(k="k") + ") >= val(old(" + _TFV.format(k="k") + "))))"],
         loops={0: dict(invariant=_PQ_INV + [
                    "forall(lambda k: implies(0 <= k and is_none(at('loop0', " + _TFV.format(k="k") + ")), is_none(" + _TFV.format(k="k") + ")))",
                    "forall(lambda k: implies(0 <= k and not is_none(" + _TFV.format(k="k") + "), "
                    "val(" + _TFV.format(k="k") + ") >= val(at('loop0', " + _TFV.format(k="k") + "))))"],
                        modifies=_TM_STATE + _TM_FUN + _TM_IDX),
                1: dict(invariant=_PQ_INV + [
                    "forall(lambda k: implies(0 <= k and is_none(at('loop1', " + _TFV.format(k="k") + ")), is_none(" + _TFV.format(k="k") + ")))",
                    "forall(lambda k: implies(0 <= k and not is_none(" + _TFV.format(k="k") + "), "
                    "val(" + _TFV.format(k="k") + ") >= val(at('loop1', " + _TFV.format(k="k") + "))))"],
                        modifies=_TM_STATE + _TM_FUN + _TM_IDX)},
         modifies=_TM_STATE + _TM_FUN + _TM_IDX,
         notes="a rule fires only when every shift is positive or infinite; infinity only with an empty queue; values only grow; "
               "on return nothing is queued or held back.  That the result is the least fixed point is the bounded stand-in c03")

# ---------------------------------------------------------------- C11: _minimize -- REVERSE rules are minimised first
# (so a reverse rule survives only if the specification needs it whatever forward rules are still available)
contract(F, "ForestRuleExtractor._minimize", props=["C11"], lenient=True, aliases=dict(FAL, RuleBucket=Bucket),
         params={"self": Obj("ForestRuleExtractor")},
         ghost={"nec": Map(ForestRuleKey, Bool), "n0": Int},
         assume_call_pre=["ForestRuleExtractor._minimize_key"],
         call_requires={"ForestRuleExtractor._minimize_key": [
             # first REVERSE, then NORMAL, EQUIV, VERIFICATION -- nothing is minimised before the reverse rules
             "implies(_i0 == 0, key == bucket('REVERSE'))", "implies(_i0 == 1, key == bucket('NORMAL'))",
             "implies(_i0 == 2, key == bucket('EQUIV'))", "implies(_i0 == 3, key == bucket('VERIFICATION'))", "_i0 <= 3"]},
         may_raise=["RuntimeError", "AssertionError", "IndexError"],
         loops={0: dict(invariant=[], modifies=_MK_MODS)},
         modifies=_MK_MODS,
         notes="order of minimisation")

# ---------------------------------------------------------------- C03/C11: the forest rule database feeds the table (RuleDBForest.add)
# The table of a forest database satisfies the table invariant from construction on, and `add` hands it the forward key of the rule
# and -- when reverse rules are enabled and the rule is reversible -- one reverse key per child, each a well-formed key.
# Two facts about code outside this function are ASSUMED (explicit `assume` statements, reported in the evidence):
#   * ClassDB.get_label returns a non-negative label (it is an index of the class database's label list, C15);
#   * a rule declares one shift per child (A2 for user strategies; verified for the library's strategies under C10/C02, D13).
REG.classes["RuleDBForest"].fields.update({"reverse": Bool, "table_method": Obj("TableMethod"), "_num_rules": Int,
                                           "_already_empty": Set(Int), "classdb": Obj("ClassDB")})
REG.classes["RuleDBForest"].invariant = list(REG.classes["RuleDBForest"].invariant) + tbl_inv("self.table_method")
_WFKEY_FACTS = ("{k}.parent >= 0 and len({k}.children) == len({k}.shifts) and "
                "forall(lambda j: implies(0 <= j and j < len({k}.children), {k}.children[j] >= 0))")
contract(F, "RuleDBForest._add_empty_rule", props=["C03"], verify=False, aliases=FAL,
         trusted_reason="may call searcher.add_rule (recursion into the expansion machinery, which ends in this database's add): only "
                        "its frame is used -- the table keeps its invariant (add's own postcondition)",
         params={"self": Obj("RuleDBForest"), "ends": Seq(Int), "rule": Obj("Rule")},
         ensures=["wf(self)"], may_raise=["AssertionError", "IndexError", "StrategyDoesNotApply"],
         modifies=["*self._already_empty", "all:Obj('TableMethod')", "all:List(ForestRuleKey)", "all:List(List(Opt(Int)))", "all:List(Int)",
                   "all:Deque(Int)", "all:Set(Int)", "all:List(Opt(Int))", "all:Obj('Function')", "all:Obj('DefaultListInt')",
                   "all:List(List(Int))", "all:List(List(Tup(Int, Int)))", "all:List(Tup(Int, Int))", "all:Obj('DefaultListIdx')",
                   "all:Obj('DefaultListPairs')", "all:Obj('AbstractRule')", "self._num_rules"])
contract(F, "RuleDBForest.add", props=["C03", "C11"], lenient=True, aliases=FAL,
         params={"self": Obj("RuleDBForest"), "start": Int, "ends": Seq(Int), "rule": Obj("Rule")},
         locals={"new_rule_keys": List(ForestRuleKey)},
         may_raise=["AssertionError", "IndexError", "StrategyDoesNotApply"], asserts="raise",
         ensures=["wf(self)"],
         # reverse forms only when the database was built with reverse=True and the rule says it is reversible; one per child index
         call_requires={"Rule.to_reverse_rule": ["caller_self.reverse", "reversible_of(self)",
                                                 "0 <= idx and idx < len(children_of(self))", "same(self, rule)"],
                        "TableMethod.add_rule_key": ["same(self, caller_self.table_method)"]},
         ghost_stmts={"before:loop#0": [
             "assume forall(lambda q: implies(0 <= q and q < len(new_rule_keys), " + _WFKEY_FACTS.format(k="new_rule_keys[q]") + ")) "
             "## every forest key of the rule (forward and reverse forms) is well formed: labels of the class database are non-negative "
             "(C15) and every form of a rule declares one shift per child (A2; library strategies: C10/C02, D13)"]},
         loops={0: dict(invariant=["wf(self)"], modifies=["all:Obj('TableMethod')", "all:List(ForestRuleKey)", "all:List(List(Opt(Int)))",
                                                          "all:List(Int)", "all:Deque(Int)", "all:Set(Int)", "all:List(Opt(Int))",
                                                          "all:Obj('Function')", "all:Obj('DefaultListInt')", "all:List(List(Int))",
                                                          "all:List(List(Tup(Int, Int)))", "all:List(Tup(Int, Int))",
                                                          "all:Obj('DefaultListIdx')", "all:Obj('DefaultListPairs')"])},
         modifies=["*self._already_empty", "all:Obj('TableMethod')", "all:List(ForestRuleKey)", "all:List(List(Opt(Int)))", "all:List(Int)",
                   "all:Deque(Int)", "all:Set(Int)", "all:List(Opt(Int))", "all:Obj('Function')", "all:Obj('DefaultListInt')",
                   "all:List(List(Int))", "all:List(List(Tup(Int, Int)))", "all:List(Tup(Int, Int))", "all:Obj('DefaultListIdx')",
                   "all:Obj('DefaultListPairs')", "all:Obj('AbstractRule')", "self._num_rules"],
         notes="the table of the database keeps its invariant across the insertion of a rule")
if "RuleDBAbstract.__init__" not in REG.contracts:
    contract("comb_spec_searcher/rule_db/abstract.py", "RuleDBAbstract.__init__", props=["C03"], self_invariant=False, verify=False,
             trusted_reason="one assignment (`self._searcher = None`): only its frame is used",
             params={"self": Obj("RuleDBAbstract")}, modifies=["*self"])
contract(F, "RuleDBForest.__init__", props=["C03", "C11"], lenient=True, aliases=FAL, self_invariant=False,
         params={"self": Obj("RuleDBForest"), "reverse": Bool, "rule_cache": Opaque("Any")},
         ensures=["wf(self)", "self.reverse == reverse", "len(self.table_method._rules) == 0", "fresh(self.table_method)"],
         modifies=["*self"], notes="a new forest database owns a new, empty table that satisfies the table invariant")
