"""Contracts for comb_spec_searcher/rule_db/forest.py: DefaultList, Function, TableMethod helpers (property C03)."""
from pyvc.dsl import *

F = "comb_spec_searcher/rule_db/forest.py"

# DefaultList is generic; the instance used for the value histogram is DefaultList[int] built as DefaultList(int).
klass(F, "DefaultListInt", fields={"_list": List(Int)}, iter_delegate="_list")
_CM = {"self._default_factory": "0"}
_V = "ite({i} < len(self._list), self._list[{i}], 0)"          # total view with default 0


def V(i):
    return _V.format(i=i)


_VIEW_SAME = "forall(lambda i: implies(0 <= i, " + V("i") + " == old(" + V("i") + ")))"

contract(F, "DefaultListInt._increase_list_len", source="DefaultList._increase_list_len", props=["C03"],
         params={"self": Obj("DefaultListInt"), "key": Int}, call_models=_CM,
         ensures=["len(self._list) == ite(key >= old(len(self._list)), key + 1, old(len(self._list)))", _VIEW_SAME],
         modifies=["*self._list"])

contract(F, "DefaultListInt.__getitem__", source="DefaultList.__getitem__", props=["C03"],
         params={"self": Obj("DefaultListInt"), "key": Int}, returns=Int, requires=["key >= 0"],
         ensures=["result == old(" + V("key") + ")", "len(self._list) > key", "len(self._list) >= old(len(self._list))",
                  _VIEW_SAME],
         modifies=["*self._list"],
         notes="reading index k makes len > k and changes no entry of the total view")

contract(F, "DefaultListInt.__setitem__", source="DefaultList.__setitem__", props=["C03"],
         params={"self": Obj("DefaultListInt"), "key": Int, "value": Int},
         requires=["0 <= key", "key < len(self._list)"],
         ensures=["len(self._list) == old(len(self._list))", "self._list[key] == value",
                  "forall(lambda i: implies(0 <= i and i != key, " + V("i") + " == old(" + V("i") + ")))"],
         modifies=["*self._list"])

# ---------------------------------------------------------------- Function
klass(F, "Function", fields={"_value": List(Opt(Int)), "_preimage_count": Obj("DefaultListInt"), "_infinity_count": Int})

FV = "ite({k} < len(self._value), self._value[{k}], 0)"        # Optional[int] view: default 0, None = infinity
CNT = "ite({v} < len(self._preimage_count._list), self._preimage_count._list[{v}], 0)"


def fv(k):
    return FV.format(k=k)


def cnt(v):
    return CNT.format(v=v)


_FV_SAME = "forall(lambda k: implies(0 <= k, " + fv("k") + " == old(" + fv("k") + ")))"
_FMODS = ["*self._value", "*self._preimage_count._list"]

contract(F, "Function._increase_list_len", props=["C03"],
         params={"self": Obj("Function"), "key": Int}, requires=["key >= len(self._value)", "key >= 0"],
         ensures=["len(self._value) == key + 1", _FV_SAME,
                  # histogram delta: the new entries all have value 0
                  cnt("0") + " == old(" + cnt("0") + ") + (key + 1 - old(len(self._value)))",
                  "forall(lambda v: implies(v >= 1, " + cnt("v") + " == old(" + cnt("v") + ")))"],
         modifies=_FMODS)

contract(F, "Function.__getitem__", props=["C03"],
         params={"self": Obj("Function"), "key": Int}, returns=Opt(Int), requires=["key >= 0"],
         ensures=["result == old(" + fv("key") + ")", _FV_SAME, "len(self._value) > key",
                  cnt("0") + " == old(" + cnt("0") + ") + (len(self._value) - old(len(self._value)))",
                  "forall(lambda v: implies(v >= 1, " + cnt("v") + " == old(" + cnt("v") + ")))"],
         modifies=_FMODS)

_OLDV = "old(" + fv("key") + ")"
contract(F, "Function.increase_value", props=["C03"],
         params={"self": Obj("Function"), "key": Int}, requires=["key >= 0", "implies(not is_none(" + fv("key") + "), val(" + fv("key") + ") >= 0)"],
         raises=[("ValueError", "is_none(" + fv("key") + ")")],
         ensures=[fv("key") + " == val(" + _OLDV + ") + 1",
                  "forall(lambda k: implies(0 <= k and k != key, " + fv("k") + " == old(" + fv("k") + ")))",
                  # histogram delta: one class leaves value old and enters old+1 (net of the zero-extension)
                  "forall(lambda v: implies(v >= 0, " + cnt("v") + " == old(" + cnt("v") + ")"
                  " + ite(v == 0, len(self._value) - old(len(self._value)), 0)"
                  " - ite(v == val(" + _OLDV + "), 1, 0) + ite(v == val(" + _OLDV + ") + 1, 1, 0)))",
                  "self._infinity_count == old(self._infinity_count)"],
         modifies=_FMODS)

contract(F, "Function.set_infinite", props=["C03"],
         params={"self": Obj("Function"), "key": Int}, requires=["key >= 0", "implies(not is_none(" + fv("key") + "), val(" + fv("key") + ") >= 0)"],
         raises=[("ValueError", "is_none(" + fv("key") + ")")],
         ensures=["is_none(" + fv("key") + ")",
                  "forall(lambda k: implies(0 <= k and k != key, " + fv("k") + " == old(" + fv("k") + ")))",
                  "forall(lambda v: implies(v >= 0, " + cnt("v") + " == old(" + cnt("v") + ")"
                  " + ite(v == 0, len(self._value) - old(len(self._value)), 0)"
                  " - ite(v == val(" + _OLDV + "), 1, 0)))",
                  "self._infinity_count == old(self._infinity_count) + 1"],
         modifies=_FMODS + ["self._infinity_count"])

contract(F, "Function.preimage_gap", props=["C03"],
         params={"self": Obj("Function"), "length": Int}, returns=Int,
         raises=[("ValueError", "length <= 0")],
         ensures=["result >= 0",
                  "forall(lambda x: implies(result <= x and x < result + length, " + cnt("x") + " == 0))",
                  "forall(lambda k: implies(0 <= k and k < result, exists(lambda x: k <= x and x < k + length and "
                  + cnt("x") + " != 0)))"],
         loops={0: dict(invariant=[
             "-1 <= last_non_zero and last_non_zero < _i0",
             "last_non_zero == -1 or self._preimage_count._list[last_non_zero] != 0",
             "forall(lambda x: implies(last_non_zero < x and x < _i0, self._preimage_count._list[x] == 0))",
             "_i0 - 1 - last_non_zero < length",
             "forall(lambda k: implies(0 <= k and k <= last_non_zero, exists(lambda x: k <= x and x < k + length and "
             "x <= last_non_zero and self._preimage_count._list[x] != 0)))"])},
         modifies=[],
         notes="smallest k such that no class has a value in [k, k+length-1] (histogram beyond the list is 0)")

klass(F, "TableMethod", fields={})
contract(F, "TableMethod._can_give_terms", props=["C03"],
         params={"shifts": List(Opt(Int))}, returns=Bool,
         ensures=["result == forall(lambda i: implies(0 <= i and i < len(shifts), is_none(shifts[i]) or val(shifts[i]) > 0))"],
         modifies=[], notes="a rule fires only when every shift is positive or infinite")

# ---------------------------------------------------------------- TableMethod queries (C03, C11)
Bucket = Opaque("RuleBucket")
ForestRuleKey = Tup(Int, Seq(Int), Seq(Int), Bucket, names=["parent", "children", "shifts", "bucket"], nm="ForestRuleKey")
named_tuple("ForestRuleKey", ForestRuleKey)
tuple_property(ForestRuleKey, "key", "comb_spec_searcher/typing.py")
REG.classes["TableMethod"].fields.update({"_rules": List(ForestRuleKey), "_function": Obj("Function")})
FAL = {"ForestRuleKey": ForestRuleKey}

contract(F, "Function.preimage", props=["C03", "C11"], aliases=FAL,
         params={"self": Obj("Function"), "value": Opt(Int)}, returns=Seq(Int),
         raises=[("ValueError", "value == 0")],
         ensures=["forall(lambda x: (x in result) == (0 <= x and x < len(self._value) and self._value[x] == value))"],
         modifies=[], notes="the keys whose value is `value` (None = infinity)")

contract(F, "TableMethod.is_pumping", props=["C03", "C11"], aliases=FAL,
         params={"self": Obj("TableMethod"), "label": Int}, returns=Bool, requires=["label >= 0"],
         ensures=["result == is_none(old(" + "ite(label < len(self._function._value), self._function._value[label], 0)" + "))"],
         modifies=["*self._function._value", "*self._function._preimage_count._list"],
         notes="a class is pumping iff its value is infinity")

contract(F, "TableMethod.stable_subset", props=["C11"], inline=True, verify=False, aliases=FAL,
         trusted_reason="one-line helper, inlined from its real source", params={})

contract(F, "TableMethod.pumping_subuniverse", props=["C11"], aliases=FAL,
         params={"self": Obj("TableMethod")}, returns=Seq(ForestRuleKey),
         requires=["forall(lambda i: implies(0 <= i and i < len(self._rules), self._rules[i].parent >= 0 and "
                   "forall(lambda j: implies(0 <= j and j < len(self._rules[i].children), self._rules[i].children[j] >= 0))))"],
         yields=["exists(lambda i: 0 <= i and i < len(self._rules) and self._rules[i] == it)",
                 "it.parent < len(self._function._value) and is_none(self._function._value[it.parent])",
                 "forall(lambda j: implies(0 <= j and j < len(it.children), it.children[j] < len(self._function._value) and "
                 "is_none(self._function._value[it.children[j]])))"],
         modifies=[], notes="only stored rule keys all of whose classes are pumping (restriction to the pumping sub-universe)")

# ---------------------------------------------------------------- shift table (C03)
# The shift of child i in a rule = number of terms the child can still give the parent:
#     value(child_i) + declared_shift_i - value(parent)       (infinite child: None; infinite parent: all None)
_TF = "self._function"
_TFV = "ite({k} < len(self._function._value), self._function._value[{k}], 0)"
contract(F, "TableMethod._compute_shift", props=["C03"], aliases=FAL,
         params={"self": Obj("TableMethod"), "rule_key": Tup(Int, Seq(Int)), "shifts_for_zero": Seq(Int)},
         returns=List(Opt(Int)),
         requires=["rule_key[0] >= 0", "forall(lambda j: implies(0 <= j and j < len(rule_key[1]), rule_key[1][j] >= 0))",
                   "len(rule_key[1]) == len(shifts_for_zero)"],
         ensures=["fresh(result)", "len(result) == len(shifts_for_zero)",
                  "implies(is_none(old(" + _TFV.format(k="rule_key[0]") + ")), "
                  "forall(lambda i: implies(0 <= i and i < len(result), is_none(result[i]))))",
                  "implies(not is_none(old(" + _TFV.format(k="rule_key[0]") + ")), "
                  "forall(lambda i: implies(0 <= i and i < len(result), "
                  "result[i] == ite(is_none(old(" + _TFV.format(k="rule_key[1][i]") + ")), None, "
                  "val(old(" + _TFV.format(k="rule_key[1][i]") + ")) + shifts_for_zero[i] - "
                  "val(old(" + _TFV.format(k="rule_key[0]") + "))))))",
                  # reading the function never changes a value
                  "forall(lambda k: implies(0 <= k, " + _TFV.format(k="k") + " == old(" + _TFV.format(k="k") + ")))"],
         modifies=["*self._function._value", "*self._function._preimage_count._list", "all:List(Opt(Int))"],
         notes="initial shifts of a newly inserted rule from the current values")

# ---------------------------------------------------------------- inserting a rule key (C03/C11): well-formedness at the call sites
_WFKEY = ("{k}.parent >= 0 and len({k}.children) == len({k}.shifts) and "
          "forall(lambda j: implies(0 <= j and j < len({k}.children), {k}.children[j] >= 0))")
REG.classes["TableMethod"].fields.update({"_shifts": List(List(Opt(Int))), "_gap_size": Int, "_current_gap": Tup(Int, Int),
                                          "_processing_queue": Deque(Int), "_rule_holding_extra_terms": Set(Int)})
_TM_STATE = ["self._current_gap", "*self._processing_queue", "*self._rule_holding_extra_terms"]
_TM_FUN = ["*self._function._value", "*self._function._preimage_count._list", "self._function._infinity_count",
           "all:List(Opt(Int))"]
contract(F, "TableMethod._correct_gap", props=["C03"], aliases=FAL,
         params={"self": Obj("TableMethod")},
         requires=["self._gap_size >= 1"],
         ensures=[
             # the gap is the first window of _gap_size unused values
             "self._current_gap[0] == last_result('Function.preimage_gap')",
             "self._current_gap[1] == self._current_gap[0] + self._gap_size - 1",
             # when the window moved to the right, the held rules leave the holding set and as many entries are queued
             # (that the queued entries ARE the held rules is not stated: membership in a deque after extend-from-set is
             # beyond the solvers here; the bounded stand-in c03 covers it)
             "implies(self._current_gap[1] > old(self._current_gap[1]), len(self._rule_holding_extra_terms) == 0)",
             "implies(self._current_gap[1] > old(self._current_gap[1]), "
             "len(self._processing_queue) == old(len(self._processing_queue)) + old(len(self._rule_holding_extra_terms)))",
             "implies(not (self._current_gap[1] > old(self._current_gap[1])), "
             "forall(lambda r: (r in self._rule_holding_extra_terms) == old(r in self._rule_holding_extra_terms)) and "
             "len(self._processing_queue) == old(len(self._processing_queue)))",
             # nothing already queued is lost
             "forall(lambda i: implies(0 <= i and i < old(len(self._processing_queue)), "
             "self._processing_queue[i] == old(self._processing_queue[i])))"],
         modifies=_TM_STATE,
         notes="gap bookkeeping: window position and the requeue of held rules")
contract(F, "TableMethod._process_queue", props=["C03"], verify=False, aliases=FAL,
         trusted_reason="the propagation loop of the table method: only its frame is used here; its result (least fixed point) "
                        "is the subject of the bounded stand-in c03",
         params={"self": Obj("TableMethod")}, modifies=_TM_STATE + _TM_FUN)
contract(F, "TableMethod.add_rule_key", props=["C03", "C11"], lenient=True, aliases=FAL,
         params={"self": Obj("TableMethod"), "rule_key": ForestRuleKey},
         # every child of an inserted key is paired with a shift (otherwise zip() silently drops the child)
         requires=[_WFKEY.format(k="rule_key"), "self._gap_size >= 1"],
         ensures=["self._gap_size >= 1", "len(self._rules) == old(len(self._rules)) + 1", "self._rules[len(self._rules) - 1] == rule_key",
                  "forall(lambda i: implies(0 <= i and i < old(len(self._rules)), self._rules[i] == old(self._rules[i])))"],
         modifies=["*self._rules", "*self._shifts", "self._gap_size", "all:List(Int)"] + _TM_STATE + _TM_FUN,
         notes="the key is stored as given; its initial shifts are computed from well-formed data (call-site obligations of "
               "_compute_shift)")

# ---------------------------------------------------------------- C11: turning an extracted key back into a rule
from . import rule as _rule_c  # noqa: E402,F401
from .rule_db import _ufn as _ufn3  # noqa: E402
klass(F, "ForestRuleExtractor", fields={"classdb": Obj("ClassDB")})
spec_fn("reversible_of", _ufn3("reversible_of", Bool))
contract("comb_spec_searcher/strategies/rule.py", "Rule.is_reversible", source="AbstractRule.is_reversible", props=["C11"],
         verify=False, trusted_reason="strategy.is_reversible(comb_class): deterministic user code (A2)",
         params={"self": Obj("Rule")}, returns=Bool, ensures=["result == reversible_of(self)"], modifies=[])
contract("comb_spec_searcher/strategies/rule.py", "Rule.to_reverse_rule", props=["C11"], verify=False,
         trusted_reason="constructor of the reverse form (ReverseRule.__init__): a fresh rule object; the forms themselves are "
                        "covered by ReverseRule.shifts/forest_key/children contracts",
         params={"self": Obj("Rule"), "idx": Int}, returns=Obj("Rule"), ensures=["fresh(result)"],
         may_raise=["StrategyDoesNotApply"], modifies=[])
contract(F, "ForestRuleExtractor._rules_for_class", props=["C11"], verify=False, aliases=FAL,
         trusted_reason="replays the pack on one class (user strategies and factories)",
         params={"self": Obj("ForestRuleExtractor"), "label": Int}, returns=Seq(Obj("Rule")), yields=["True"], modifies=[])
contract(F, "ForestRuleExtractor._find_rule", props=["C11"], lenient=True, aliases=FAL,
         params={"self": Obj("ForestRuleExtractor"), "rule_key": ForestRuleKey}, returns=Obj("Rule"),
         locals={"potential_rules": List(Obj("Rule")), "normal_rule": Obj("Rule")},
         may_raise=["RuntimeError", "StrategyDoesNotApply", "AssertionError"], asserts="raise",
         pure_calls=["get_class"],
         # the rule handed back has exactly the wanted key
         ensures=['last_result("Rule.forest_key") == rule_key', 'same(result, last_arg("Rule.forest_key", 0))'],
         # every candidate is tried in its own form and, when reversible, in ALL its reverse forms -- whatever the bucket
         # of the wanted key (a reverse rule that is an equivalence is filed under EQUIV, not REVERSE)
         ghost_stmts={"after:if#0": [
             "assert implies(reversible_of(normal_rule), len(potential_rules) == 1 + len(children_of(normal_rule)))"]},
         modifies=["all:Obj('AbstractRule')", "all:List(Obj('Rule'))"],
         notes="candidates are the pack's rules for the classes of the key (A2: deterministic strategies)")

# ---------------------------------------------------------------- C11/C02: RuleDBForest.get_specification_rules
# rules are handed out only after the extractor's self check (closed, one rule per class, productive, minimal) ran
klass(F, "RuleDBForest", bases=["RuleDBAbstract"], fields={})
contract(F, "ForestRuleExtractor.__init__", props=["C11", "C02"], verify=False, aliases=FAL,
         trusted_reason="restriction to the pumping sub-universe and bucket-by-bucket minimisation (bounded stand-in c11)",
         params={"self": Obj("ForestRuleExtractor"), "root_label": Int, "ruledb": Obj("RuleDBForest"), "classdb": Obj("ClassDB"),
                 "pack": Opaque("Pack")}, may_raise=["RuntimeError"], modifies=["*self"], self_invariant=False)
contract(F, "ForestRuleExtractor.check", props=["C11", "C02"], verify=False, aliases=FAL,
         trusted_reason="the extractor's self check (asserts on the extracted keys); bounded stand-in c11",
         params={"self": Obj("ForestRuleExtractor")}, may_raise=["AssertionError"], modifies=[], self_invariant=False)
contract(F, "ForestRuleExtractor.rules", props=["C11", "C02"], verify=False, aliases=FAL,
         trusted_reason="turns the extracted keys back into rules (_find_rule is verified above); bounded stand-in c11",
         params={"self": Obj("ForestRuleExtractor"), "cache": Opaque("Any")}, returns=Opaque("RuleIter"), modifies=[],
         self_invariant=False)
contract(F, "RuleDBForest.root_label", source="RuleDBForest.has_specification", props=["C11", "C02"], verify=False,
         trusted_reason="searcher.start_label through the link to the searcher (RuleDBAbstract property)",
         params={"self": Obj("RuleDBForest")}, returns=Int, ensures=["result == root_label_of(self)"])
REG.classes["RuleDBForest"].properties.append("root_label")
contract(F, "RuleDBForest.get_specification_rules", props=["C11", "C02"], lenient=True, aliases=FAL,
         params={"self": Obj("RuleDBForest")}, returns=Opaque("RuleIter"),
         may_raise=["RuntimeError", "AssertionError"],
         call_requires={
             "ForestRuleExtractor.__init__": ["root_label == root_label_of(caller_self)", "same(ruledb, caller_self)"],
             "ForestRuleExtractor.rules": ['called_after("ForestRuleExtractor.check", "ForestRuleExtractor.__init__")',
                                           'same(self, last_arg("ForestRuleExtractor.check", 0))']},
         modifies=["all:Obj('ForestRuleExtractor')"],
         notes="extraction is rooted at the start label; the self check runs before any rule is handed out")

# ---------------------------------------------------------------- C11: _is_productive -- a fresh table fed with exactly the given keys
contract(F, "TableMethod.__init__", props=["C11", "C03"], verify=False, aliases=FAL,
         trusted_reason="constructor summary: empty table, gap size 1, empty function",
         params={"self": Obj("TableMethod")},
         ensures=["self._gap_size == 1", "len(self._rules) == 0", "fresh(self._function)", "fresh(self._rules)",
                  # every container of the new table is a new object
                  "fresh(self._shifts)", "fresh(self._processing_queue)", "fresh(self._rule_holding_extra_terms)",
                  "fresh(self._function._value)", "fresh(self._function._preimage_count)",
                  "fresh(self._function._preimage_count._list)"],
         modifies=["*self"], self_invariant=False)
REG.classes["ForestRuleExtractor"].fields.update({"root_label": Int})
_ISP_OTHER = ["all:Obj('TableMethod')", "all:List(List(Opt(Int)))", "all:List(Int)", "all:Deque(Int)", "all:Set(Int)",
                   "all:List(Opt(Int))", "all:Obj('Function')", "all:Obj('DefaultListInt')"]
contract(F, "ForestRuleExtractor._is_productive", props=["C11"], lenient=True, aliases=FAL,
         params={"self": Obj("ForestRuleExtractor"), "rule_keys": Seq(ForestRuleKey)}, returns=Bool,
         requires=["self.root_label >= 0",
                   "forall(lambda i: implies(0 <= i and i < len(rule_keys), " + _WFKEY.format(k="rule_keys[i]") + "))"],
         locals={"ruledb": Obj("TableMethod")},
         # the verdict is the pumping status of the root in a table that received every given key (and only those), in order
         loops={0: dict(invariant=["ruledb._gap_size >= 1", "fresh(ruledb)", "len(ruledb._rules) == _i0",
                                   "forall(lambda j: implies(0 <= j and j < _i0, ruledb._rules[j] == rule_keys[j]))"],
                        modifies=["*ruledb._rules"] + _ISP_OTHER)},
         call_requires={"TableMethod.is_pumping": ["label == caller_self.root_label", "fresh(self)",
                                                   "len(self._rules) == len(rule_keys)",
                                                   "forall(lambda j: implies(0 <= j and j < len(rule_keys), self._rules[j] == rule_keys[j]))"]},
         # no list of rule keys that existed before the call changes (the table's own key list is a new object); the
         # other kinds of state belong to the fresh table but are not separated from pre-existing tables here
         modifies=_ISP_OTHER,
         notes="productivity is judged by a fresh table method that was given exactly these keys")

# ---------------------------------------------------------------- C11: _minimize_key -- bookkeeping of the kept rules
# (no reasoning about productivity itself: that needs monotonicity of the table method, paper lemma L3)
#   * the bucket being minimised is emptied, the other buckets are untouched, needed_rules only grows,
#   * a rule is kept (appended to needed_rules) only right after `_is_productive` of everything else answered False:
#     ghost set `nec` collects the keys for which that test was observed; every new element of needed_rules is in it.
REG.classes["ForestRuleExtractor"].fields.update({"needed_rules": List(ForestRuleKey),
                                                  "rule_by_bucket": Dict(Bucket, List(ForestRuleKey))})
_MK_MODS = ["*self.needed_rules", "all:List(ForestRuleKey)", "all:List(List(ForestRuleKey))", "all:Obj('TableMethod')",
            "all:List(List(Opt(Int)))", "all:List(Int)", "all:Deque(Int)", "all:Set(Int)", "all:List(Opt(Int))",
            "all:Obj('Function')", "all:Obj('DefaultListInt')"]
_NEW_NEC = ("forall(lambda i: implies({lo} <= i and i < len(self.needed_rules), nec[self.needed_rules[i]]))")
_OLD_SAME = ("len(self.needed_rules) >= {lo} and forall(lambda i: implies(0 <= i and i < {lo}, "
             "self.needed_rules[i] == {old}))")
contract(F, "ForestRuleExtractor._minimize_key", props=["C11"], lenient=True, aliases=dict(FAL, RuleBucket=Bucket),
         params={"self": Obj("ForestRuleExtractor"), "key": Bucket},
         locals={"maybe_useful": List(ForestRuleKey), "not_minimizing": List(List(ForestRuleKey)),
                 "minimizing": List(ForestRuleKey), "rk": ForestRuleKey},
         ghost={"nec": Map(ForestRuleKey, Bool), "n0": Int},
         pure_calls=["add_rule_key", "is_pumping"],
         # that every key handed to _is_productive pairs each child with a shift is established where keys are created
         # (forest_key contracts), not re-proved through the lists here
         assume_call_pre=["ForestRuleExtractor._is_productive"],
         requires=["key in self.rule_by_bucket", "n0 == len(self.needed_rules)", "self.root_label >= 0",
                   "forall(lambda k=RuleBucket: implies(k in self.rule_by_bucket, not same(self.rule_by_bucket[k], self.needed_rules)))",
                   "forall(lambda k=RuleBucket, l=RuleBucket: implies(k in self.rule_by_bucket and l in self.rule_by_bucket and k != l, "
                   "not same(self.rule_by_bucket[k], self.rule_by_bucket[l])))"],
         may_raise=["RuntimeError", "AssertionError", "IndexError"], asserts="raise",
         ensures=["len(self.rule_by_bucket[key]) == 0",
                  # the other buckets are not touched
                  "forall(lambda k=RuleBucket: (k in self.rule_by_bucket) == old(k in self.rule_by_bucket))",
                  "forall(lambda k=RuleBucket: implies(k in self.rule_by_bucket and k != key, "
                  "same(self.rule_by_bucket[k], old(self.rule_by_bucket[k])) and "
                  "len(self.rule_by_bucket[k]) == old(len(self.rule_by_bucket[k]))))",
                  "len(self.needed_rules) >= n0",
                  "forall(lambda i: implies(0 <= i and i < n0, self.needed_rules[i] == old(self.needed_rules[i])))",
                  _NEW_NEC.format(lo="n0")],
         ghost_stmts={"before:expr#9": ['assert not last_result("ForestRuleExtractor._is_productive")', "nec = madd(nec, rk)"]},
         loops={0: dict(invariant=["forall(lambda k=RuleBucket: implies(k in self.rule_by_bucket and k != key, same(self.rule_by_bucket[k], old(self.rule_by_bucket[k])) and len(self.rule_by_bucket[k]) == old(len(self.rule_by_bucket[k]))))", "forall(lambda k=RuleBucket: (k in self.rule_by_bucket) == old(k in self.rule_by_bucket))", "same(minimizing, old(self.rule_by_bucket[key]))", "len(self.needed_rules) == n0", "not same(minimizing, self.needed_rules)",
                                   "not same(maybe_useful, self.needed_rules)", "not same(maybe_useful, minimizing)",
                                   "forall(lambda i: implies(0 <= i and i < n0, self.needed_rules[i] == at('loop0', self.needed_rules[i])))"],
                        modifies=_MK_MODS),
                1: dict(invariant=[], modifies=[]), 2: dict(invariant=[], modifies=[]),
                3: dict(invariant=[], modifies=["*minimizing"]),
                4: dict(invariant=["forall(lambda k=RuleBucket: implies(k in self.rule_by_bucket and k != key, same(self.rule_by_bucket[k], old(self.rule_by_bucket[k])) and len(self.rule_by_bucket[k]) == old(len(self.rule_by_bucket[k]))))", "forall(lambda k=RuleBucket: (k in self.rule_by_bucket) == old(k in self.rule_by_bucket))", "same(minimizing, old(self.rule_by_bucket[key]))", "len(self.rule_by_bucket[key]) == 0", "len(self.needed_rules) >= n0",
                                   "forall(lambda i: implies(0 <= i and i < n0, self.needed_rules[i] == at('loop4', self.needed_rules[i])))",
                                   _NEW_NEC.format(lo="n0")],
                        modifies=_MK_MODS)},
         modifies=_MK_MODS,
         notes="which rules are kept, and on what evidence; minimality of the final set follows with monotonicity (L3, assumed)")

# ---------------------------------------------------------------- C03: _increase_value keeps the gap up to date
# whenever a value was increased, the recorded gap starts where the histogram says it starts (the window is re-derived
# every time its start moved, in either direction)
contract(F, "TableMethod._increase_value", props=["C03"], lenient=True, aliases=FAL,
         params={"self": Obj("TableMethod"), "comb_class": Int, "rule_idx": Int},
         requires=["comb_class >= 0", "self._gap_size >= 1",
                   "implies(not is_none(" + _TFV.format(k="comb_class") + "), val(" + _TFV.format(k="comb_class") + ") >= 0)"],
         may_raise=["AssertionError", "IndexError", "ValueError"], asserts="raise",
         ensures=["implies(called_after('Function.increase_value', 'TableMethod._increase_value'), "
                  "self._current_gap[0] == last_result('Function.preimage_gap'))"],
         loops={0: dict(invariant=[], modifies=["all:List(Opt(Int))", "*self._processing_queue"]),
                1: dict(invariant=[], modifies=["all:List(Opt(Int))"]),
                2: dict(invariant=[], modifies=["all:List(Opt(Int))", "*self._processing_queue"])},
         modifies=_TM_STATE + _TM_FUN,
         notes="the shift-table updates of this function are not stated (index structures are untracked); only the gap")

# ---------------------------------------------------------------- C11: _minimize -- REVERSE rules are minimised first
# (so a reverse rule survives only if the specification needs it whatever forward rules are still available)
contract(F, "ForestRuleExtractor._minimize", props=["C11"], lenient=True, aliases=dict(FAL, RuleBucket=Bucket),
         params={"self": Obj("ForestRuleExtractor")},
         ghost={"nec": Map(ForestRuleKey, Bool), "n0": Int},
         assume_call_pre=["ForestRuleExtractor._minimize_key"],
         call_requires={"ForestRuleExtractor._minimize_key": [
             # first REVERSE, then NORMAL, EQUIV, VERIFICATION -- nothing is minimised before the reverse rules
             "implies(_i0 == 0, key == bucket('REVERSE'))", "implies(_i0 == 1, key == bucket('NORMAL'))",
             "implies(_i0 == 2, key == bucket('EQUIV'))", "implies(_i0 == 3, key == bucket('VERIFICATION'))", "_i0 <= 3"]},
         may_raise=["RuntimeError", "AssertionError", "IndexError"],
         loops={0: dict(invariant=[], modifies=_MK_MODS)},
         modifies=_MK_MODS,
         notes="order of minimisation")
