"""Contracts for comb_spec_searcher/class_queue.py (property C16)."""
from pyvc.dsl import *

F = "comb_spec_searcher/class_queue.py"
Strat = Opaque("Strat")
WorkPacket = Tup(Int, Seq(Strat), Bool, names=["label", "strategies", "inferral"], nm="WorkPacket")
named_tuple("WorkPacket", WorkPacket)
AL = {"Strat": Strat, "WorkPacket": WorkPacket}

klass(F, "CSSQueue", fields={"inferral_strategies": Seq(Strat), "initial_strategies": Seq(Strat), "expansion_strats": Seq(Seq(Strat))})
klass(F, "DefaultQueue", bases=["CSSQueue"],
      fields={"working": Deque(Int), "next_level": Counter(Int), "curr_level": Seq(Deque(Int)),
              "_inferral_expanded": Set(Int), "_initial_expanded": Set(Int), "ignore": Set(Int),
              "queue_sizes": List(Int), "staging": Deque(WorkPacket)},
      properties=["levels_completed"],
      # `for packet in queue`: the queue seen by a consumer is abstracted to the arbitrary sequence of packets it will
      # hand out (ghost); DefaultQueue.__next__ itself is verified separately (C16)
      ghost_fields={"future": Seq(WorkPacket)}, iter_delegate="future",
      invariant=["not same(self._inferral_expanded, self._initial_expanded)", "not same(self._inferral_expanded, self.ignore)",
                 "not same(self._initial_expanded, self.ignore)",
                 "len(self.curr_level) == len(self.expansion_strats) + 1",
                 "forall(lambda i, j: implies(0 <= i and i < j and j < len(self.curr_level), not same(self.curr_level[i], self.curr_level[j])))",
                 "forall(lambda i: implies(0 <= i and i < len(self.curr_level), not same(self.curr_level[i], self.working)))"])

Q = Obj("DefaultQueue")
for nm in ("can_do_inferral", "can_do_initial", "can_do_expansion"):
    contract(F, f"DefaultQueue.{nm}", props=["C16"], inline=True, verify=False, aliases=AL,
             trusted_reason="one-line helper, inlined from its real source into every caller", params={})
contract(F, "DefaultQueue.levels_completed", props=["C16"], inline=True, verify=False, aliases=AL,
         trusted_reason="one-line property, inlined from its real source", params={})

_SETS_SAME = lambda which: ["forall(lambda y: (y in self.%s) == old(y in self.%s))" % (w, w) for w in which]
_ALLSETS = ["_inferral_expanded", "_initial_expanded", "ignore"]

contract(F, "DefaultQueue.set_stop_yielding", props=["C16"], aliases=AL,
         params={"self": Q, "label": Int},
         ensures=["forall(lambda y: (y in self.ignore) == (old(y in self.ignore) or y == label))",
                  "forall(lambda y: (y in self._inferral_expanded) == (old(y in self._inferral_expanded) and y != label))",
                  "forall(lambda y: (y in self._initial_expanded) == (old(y in self._initial_expanded) and y != label))",
                  "forall(lambda y: (y in self.next_level) == (old(y in self.next_level) and y != label))",
                  "forall(lambda y: implies(y != label, self.next_level[y] == old(self.next_level[y])))"],
         modifies=["*self.ignore", "*self._inferral_expanded", "*self._initial_expanded", "*self.next_level"],
         notes="the label is ignored from now on and forgotten everywhere else; nothing else changes")

contract(F, "DefaultQueue.set_verified", props=["C16"], aliases=AL,
         params={"self": Q, "label": Int},
         ensures=["label in self.ignore", "forall(lambda y: implies(old(y in self.ignore), y in self.ignore))",
                  "not (label in self.next_level)"],
         modifies=["*self.ignore", "*self._inferral_expanded", "*self._initial_expanded", "*self.next_level"])

contract(F, "DefaultQueue.set_not_inferrable", props=["C16"], aliases=AL,
         params={"self": Q, "label": Int},
         ensures=["forall(lambda y: (y in self._inferral_expanded) == (old(y in self._inferral_expanded) or "
                  "(y == label and not (label in self.ignore))))"],
         modifies=["*self._inferral_expanded"])

contract(F, "DefaultQueue.set_not_initial", props=["C16"], aliases=AL,
         params={"self": Q, "label": Int},
         ensures=["forall(lambda y: (y in self._initial_expanded) == (old(y in self._initial_expanded) or "
                  "(y == label and not (label in self.ignore))))"],
         modifies=["*self._initial_expanded"])

_CAN_INF = "(len(self.inferral_strategies) > 0 and not (label in self._inferral_expanded))"
_CAN_INI = "(len(self.initial_strategies) > 0 and not (label in self._initial_expanded))"

contract(F, "DefaultQueue.add", props=["C16"], aliases=AL,
         params={"self": Q, "label": Int},
         ensures=[
             # queued for inferral/initial work iff such work is still possible
             "implies(old(%s or %s), len(self.working) == old(len(self.working)) + 1 and "
             "self.working[len(self.working) - 1] == label and self.next_level[label] == old(self.next_level[label]))"
             % (_CAN_INF, _CAN_INI),
             # otherwise counted for the next level unless ignored
             "implies(not old(%s or %s), len(self.working) == old(len(self.working)) and self.next_level[label] == "
             "old(self.next_level[label]) + ite(label in self.ignore, 0, 1))" % (_CAN_INF, _CAN_INI),
             "forall(lambda y: implies(y != label, self.next_level[y] == old(self.next_level[y])))",
             "forall(lambda i: implies(0 <= i and i < old(len(self.working)), self.working[i] == old(self.working[i])))"],
         modifies=["*self.working", "*self.next_level"])

_NEXT_MODS = ["*self.working", "all:Counter(Int)", "*self.staging", "*self.ignore", "*self._inferral_expanded",
              "*self._initial_expanded", "*self.queue_sizes", "all:Deque(Int)", "self.next_level"]

contract(F, "DefaultQueue.__next__", props=["C16"], aliases=AL,
         params={"self": Q}, returns=WorkPacket, may_raise=["StopIteration"],
         ensures=["not (result.label in self.ignore)"],
         modifies=_NEXT_MODS, loops={0: dict(modifies=_NEXT_MODS), 1: dict(modifies=_NEXT_MODS)},
         notes="never hands out work for a label that has been told to stop, whatever the history")

contract(F, "DefaultQueue._iter_helper_working", props=["C16"], aliases=AL, yield_seq=True,
         params={"self": Q}, returns=Seq(WorkPacket),
         requires=["len(self.working) > 0"],
         ensures=[
             # with l = the popped head: inferral packet first (iff possible), then one packet per initial strategy in
             # order (iff possible), and nothing else
             "len(result) == ite(old(%s), 1, 0) + ite(%s, len(self.initial_strategies), 0)"
             % (_CAN_INF.replace("label", "self.working[0]"), "old(%s)" % _CAN_INI.replace("label", "self.working[0]")),
             "implies(old(%s), result[0].label == old(self.working[0]) and result[0].inferral and "
             "result[0].strategies == self.inferral_strategies)" % _CAN_INF.replace("label", "self.working[0]"),
             "forall(lambda j: implies(0 <= j and j < len(self.initial_strategies) and old(%s), "
             "result[j + len(result) - len(self.initial_strategies)].label == old(self.working[0]) and "
             "not result[j + len(result) - len(self.initial_strategies)].inferral and "
             "len(result[j + len(result) - len(self.initial_strategies)].strategies) == 1 and "
             "result[j + len(result) - len(self.initial_strategies)].strategies[0] == self.initial_strategies[j]))"
             % _CAN_INI.replace("label", "self.working[0]"),
             "len(self.working) == old(len(self.working)) - 1",
             "self.next_level[old(self.working[0])] == old(self.next_level[self.working[0]]) + 1"],
         loops={0: dict(ghost_before=["base = len(yielded)", "pre = yielded"], invariant=[
             "len(yielded) == base + _i0",
             "forall(lambda j: implies(0 <= j and j < base, yielded[j] == pre[j]))",
             "forall(lambda j: implies(0 <= j and j < _i0, yielded[base + j].label == label and "
             "not yielded[base + j].inferral and len(yielded[base + j].strategies) == 1 and "
             "yielded[base + j].strategies[0] == self.initial_strategies[j]))"], modifies=[])},
         modifies=["*self.working", "*self.next_level", "*self._inferral_expanded", "*self._initial_expanded"])

# ---- _populate_staging: on return there is something to hand out (otherwise StopIteration was raised by the level change)
for _nm in ("_change_level", "_iter_helper_curr"):
    pass
_ALL_EMPTY = "forall(lambda i: implies(0 <= i and i < len(self.curr_level), len(self.curr_level[i]) == 0))"
contract(F, "DefaultQueue._change_level", props=["C16"], aliases=AL, asserts="raise",
         params={"self": Q},
         # its three leading asserts, as preconditions (obligations of the caller)
         requires=["len(self.staging) == 0", "len(self.working) == 0", _ALL_EMPTY],
         # exhaustion is signalled exactly when nothing waits for the next level
         raises=[("StopIteration", "len(self.next_level) == 0")],
         ensures=["exists(lambda i: 0 <= i and i < len(self.curr_level) and len(self.curr_level[i]) > 0)",
                  "len(self.working) == old(len(self.working))", "wf(self)",
                  # the new level holds exactly the waiting labels, each once, at the first expansion stage; nothing waits any more
                  "len(self.curr_level[0]) == old(len(self.next_level))",
                  # (WHICH labels: exactly the waiting ones, each once -- not discharged here: the enumeration of a Counter's items
                  #  is a z3 sequence, over which neither solver instantiates; bounded stand-in c16)
                  "forall(lambda i: implies(1 <= i and i < len(self.curr_level), len(self.curr_level[i]) == 0))",
                  "forall(lambda y: not (y in self.next_level))", "len(self.next_level) == 0",
                  "len(self.queue_sizes) == old(len(self.queue_sizes)) + 1",
                  "self.queue_sizes[len(self.queue_sizes) - 1] == len(self.curr_level[0])",
                  "forall(lambda y: (y in self.ignore) == old(y in self.ignore))"],
         ensures_raise={"StopIteration": [_ALL_EMPTY, "len(self.queue_sizes) == old(len(self.queue_sizes))"]},
         modifies=[m for m in _NEXT_MODS if m != "*self.working"],
         notes="level change: as many labels as were waiting enter the first stage, nothing waits afterwards, one more completed "
               "level is recorded; exhaustion exactly when nothing waits")
# the stage served is the first one that holds a label; FIRST(m) is read in the state before the call
_FIRST = ("old(0 <= m and m < len(self.curr_level) and len(self.curr_level[m]) > 0 and "
          "forall(lambda j: implies(0 <= j and j < m, len(self.curr_level[j]) == 0)))")
contract(F, "DefaultQueue._iter_helper_curr", props=["C16"], aliases=AL, yield_seq=True, asserts="raise",
         params={"self": Q}, returns=Seq(WorkPacket),
         requires=["exists(lambda i: 0 <= i and i < len(self.curr_level) and len(self.curr_level[i]) > 0)"],
         ensures=["len(self.working) == old(len(self.working))", "wf(self)",
                  # the head of the first non-empty stage is taken out of it
                  "forall(lambda m: implies(" + _FIRST + ", len(self.curr_level[m]) == old(len(self.curr_level[m])) - 1))",
                  # last stage (one past the expansion groups): no work, the label is told to stop
                  "forall(lambda m: implies(" + _FIRST + " and m == len(self.expansion_strats), len(result) == 0 and "
                  "old(self.curr_level[m][0]) in self.ignore))",
                  # otherwise: one packet per strategy of expansion group m, in order, for that label, none of them inferral;
                  # the label moves on to the next stage
                  "forall(lambda m: implies(" + _FIRST + " and m < len(self.expansion_strats), "
                  "len(result) == len(self.expansion_strats[m]) and "
                  "forall(lambda j: implies(0 <= j and j < len(result), result[j].label == old(self.curr_level[m][0]) and "
                  "not result[j].inferral and len(result[j].strategies) == 1 and "
                  "result[j].strategies[0] == self.expansion_strats[m][j])) and "
                  "len(self.curr_level[m + 1]) == old(len(self.curr_level[m + 1])) + 1 and "
                  "self.curr_level[m + 1][len(self.curr_level[m + 1]) - 1] == old(self.curr_level[m][0])))",
                  "forall(lambda y: implies(old(y in self.ignore), y in self.ignore))"],
         loops={0: dict(ghost_before=["base = len(yielded)", "pre = yielded"], invariant=[
             "len(yielded) == base + _i0",
             "forall(lambda j: implies(0 <= j and j < base, yielded[j] == pre[j]))",
             "forall(lambda j: implies(0 <= j and j < _i0, yielded[base + j].label == label and "
             "not yielded[base + j].inferral and len(yielded[base + j].strategies) == 1 and "
             "yielded[base + j].strategies[0] == self.expansion_strats[idx][j]))"], modifies=[])},
         modifies=[m for m in _NEXT_MODS if m != "*self.working"],
         notes="serves the first non-empty stage: expansion group m for its head label, then the label moves to stage m+1; "
               "from the last stage the label is retired")
contract(F, "DefaultQueue._populate_staging", props=["C16"], aliases=AL,
         params={"self": Q}, may_raise=["StopIteration"],
         ensures=["len(self.staging) > 0"],
         loops={0: dict(invariant=["wf(self)"], modifies=_NEXT_MODS),
                1: dict(invariant=["wf(self)", "len(self.staging) > 0 or len(self.working) == 0"], modifies=_NEXT_MODS)},
         modifies=_NEXT_MODS,
         notes="returns only with a non-empty staging area; exhaustion is signalled by StopIteration (termination not proved)")
contract(F, "DefaultQueue.do_level", props=["C16"], aliases=AL,
         params={"self": Q}, returns=Seq(WorkPacket),
         yields=["not (it.label in self.ignore)"],
         may_raise=["NoMoreClassesToExpandError"],
         # the iteration ends normally only when a level has been completed since it started
         ensures=["len(self.queue_sizes) != old(len(self.queue_sizes))"],
         loops={0: dict(invariant=["wf(self)"], modifies=_NEXT_MODS)},
         modifies=_NEXT_MODS,
         notes="hands out only packets of labels that are not ignored at that moment; a level that cannot start is an error, "
               "never a silent empty iteration")

# ------------------------------------------------------------------ construction: the representation invariant is established
if "StrategyPack" not in REG.classes:
    klass("comb_spec_searcher/strategies/strategy_pack.py", "StrategyPack", fields={})
REG.classes["StrategyPack"].fields.update({"inferral_strats": Seq(Strat), "initial_strats": Seq(Strat),
                                           "expansion_strats": Seq(Seq(Strat))})
_PACK_COPIED = ["self.inferral_strategies == pack.inferral_strats", "self.initial_strategies == pack.initial_strats",
                "len(self.expansion_strats) == len(pack.expansion_strats)",
                "forall(lambda i: implies(0 <= i and i < len(pack.expansion_strats), self.expansion_strats[i] == pack.expansion_strats[i]))"]
contract(F, "CSSQueue.__init__", props=["C16"], aliases=AL, self_invariant=False,
         params={"self": Obj("CSSQueue"), "pack": Obj("StrategyPack")}, ensures=_PACK_COPIED,
         modifies=["self.inferral_strategies", "self.initial_strategies", "self.expansion_strats"],
         notes="the three strategy groups of the pack, in the pack's order")
contract(F, "DefaultQueue.__init__", props=["C16"], aliases=AL, self_invariant=False,
         params={"self": Q, "pack": Obj("StrategyPack")},
         ensures=["wf(self)"] + _PACK_COPIED + [
             "len(self.working) == 0", "len(self.staging) == 0", "len(self.queue_sizes) == 0",
             "forall(lambda y: not (y in self.next_level))", "forall(lambda y: not (y in self.ignore))",
             "forall(lambda y: not (y in self._inferral_expanded))", "forall(lambda y: not (y in self._initial_expanded))",
             "forall(lambda i: implies(0 <= i and i < len(self.curr_level), len(self.curr_level[i]) == 0))"],
         modifies=["*self"],
         notes="a new queue is empty everywhere, has one deque per expansion group plus one, and satisfies the invariant")
