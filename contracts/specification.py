"""Contracts for comb_spec_searcher/specification.py (property C19: expanding verified classes)."""
import z3
from pyvc.dsl import *
from pyvc.core import Val
from .common import CombClass
from . import searcher, rule, rule_db  # noqa: F401
from .rule_db import _ufn

F = "comb_spec_searcher/specification.py"
FR = "comb_spec_searcher/strategies/rule.py"
Pack = Opaque("Pack")
SPEC = Obj("CombinatorialSpecification")
REG.classes["CombinatorialSpecification"].fields.update({"rules_dict": Dict(CombClass, Obj("AbstractRule"))})
REG.classes["AbstractRule"].fields.update({"rules": Seq(Obj("AbstractRule"))})     # members of an equivalence path rule
from .class_db import ClassKey
AL = {"CombClass": CombClass, "ClassKey": ClassKey}

spec_fn("has_pack", _ufn("has_pack", Bool))          # the verification strategy of this rule supplies a pack (A2)
spec_fn("pack_of", _ufn("pack_of", Pack))
spec_fn("is_path_rule", _ufn("is_path_rule", Bool))
_ISMAP = {"VerificationRule": lambda ex, v, st: z3.Function("is_verif_rule", z3.IntSort(), z3.BoolSort())(v.z),
          "EquivalencePathRule": lambda ex, v, st: z3.Function("is_path_rule", z3.IntSort(), z3.BoolSort())(v.z),
          "int": lambda ex, v, st: z3.BoolVal(False)}

contract(FR, "AbstractRule.pack", source="VerificationRule.pack", props=["C19"], verify=False,
         trusted_reason="strategy.pack(comb_class): user code; raises InvalidOperationError when no pack is offered (A2)",
         params={"self": Obj("AbstractRule")}, returns=Pack,
         raises=[("InvalidOperationError", "not has_pack(self)")], ensures=["result == pack_of(self)"])

_EXPANDABLE = "({c} in {s}.rules_dict and is_verif_rule({s}.rules_dict[{c}]) and has_pack({s}.rules_dict[{c}]))"

contract(F, "CombinatorialSpecification.unexpanded_verified_classes", props=["C19"], yield_seq=True, aliases=AL,
         isinstance_map=_ISMAP, params={"self": SPEC}, returns=Seq(CombClass),
         ensures=["forall(lambda c=CombClass: (c in result) == " + _EXPANDABLE.format(c="c", s="self") + ")"],
         loops={0: dict(invariant=[
             "forall(lambda c=CombClass: (c in yielded) == (exists(lambda j: 0 <= j and j < _i0 and _keys0[j] == c) and "
             + _EXPANDABLE.format(c="c", s="self") + "))"], modifies=[])},
         modifies=[], notes="yields exactly the verified classes whose strategy offers a pack")

contract(F, "CombinatorialSpecification.expand_comb_class", props=["C19"], verify=False, aliases=AL,
         trusted_reason="summary used by expand_verified: a NEW specification, the receiver is not modified (its own "
                        "body is verified under the contract expand_comb_class#copies below)",
         params={"self": SPEC, "comb_class": CombClass, "pack": Pack, "reverse": Bool, "continue_expanding_verified": Bool,
                 "max_expansion_time": Opt(Opaque("Float"))},
         returns=SPEC, ensures=["fresh(result)"], may_raise=["SpecificationNotFound", "ExceededMaxtimeError"], modifies=[])

_LASTNEXT = 'last_result("CombinatorialSpecification.unexpanded_verified_classes")[0]'
contract(F, "CombinatorialSpecification.expand_verified", props=["C19"], lenient=True, aliases=AL, isinstance_map=_ISMAP,
         params={"self": SPEC}, returns=SPEC,
         may_raise=["SpecificationNotFound", "ExceededMaxtimeError"],
         ensures=[
             # the job is finished: no verified class of the result still offers a pack
             "forall(lambda c=CombClass: not " + _EXPANDABLE.format(c="c", s="result") + ")"],
         call_requires={"CombinatorialSpecification.expand_comb_class": [
             "comb_class == " + _LASTNEXT, 'pack == last_result("AbstractRule.pack")',
             "reverse == continue_expanding_verified"]},
         loops={0: dict(modifies=[])},
         modifies=[],
         notes="the only normal exit is exhaustion of the expandable classes of the CURRENT specification; the original "
               "specification is never modified (frame)")

# ---- the body of expand_comb_class: how the inner searcher is configured
FS = "comb_spec_searcher/comb_spec_searcher.py"
contract(FS, "CombinatorialSpecificationSearcher.__init__", props=["C19"], verify=False, aliases=AL,
         trusted_reason="constructor summary: stores its arguments (keyword defaults as in the source signature)",
         params={"self": Obj("CombinatorialSpecificationSearcher"), "start_class": CombClass, "strategy_pack": Pack,
                 "ruledb": Opt(Obj("RuleDBAbstract")), "expand_verified": Bool, "debug": Bool},
         ensures=["self.expand_verified == expand_verified", "self.start_class == start_class"],
         modifies=["*self"], self_invariant=False)
contract(F, "CombinatorialSpecification.expand_comb_class#body", source="CombinatorialSpecification.expand_comb_class",
         props=["C19"], lenient=True, aliases=AL, isinstance_map=_ISMAP,
         pure_calls=["get_label", "get_comb_class", "add", "try_verify"],
         params={"self": SPEC, "comb_class": CombClass, "pack": Pack, "reverse": Bool, "continue_expanding_verified": Bool,
                 "max_expansion_time": Opt(Opaque("Float"))},
         returns=SPEC, may_raise=["SpecificationNotFound", "ExceededMaxtimeError", "KeyError", "StrategyDoesNotApply",
                                  "UserCodeError", "AssertionError"],
         # the inner search is rooted at the specification's root, uses the offered pack, and keeps (or not) working on
         # verified classes exactly as the caller asked
         call_requires={"CombinatorialSpecificationSearcher.__init__": [
             "start_class == caller_self.root", "strategy_pack == pack", "expand_verified == continue_expanding_verified",
             "not debug"]},
         # frame: only state of the kinds owned by the inner searcher (its rule database and class database); that these
         # are the FRESH objects of the inner searcher and not the receiver's is not proved here
         modifies=["all:Obj('RuleDBAbstract')", "all:List(ClassKey)", "all:List(Opt(Bool))", "all:Dict(ClassKey, Int)",
                   "all:Obj('CombinatorialSpecificationSearcher')", "all:Obj('CombinatorialSpecification')",
                   "all:Obj('AbstractRule')", "all:List(Opaque('Terms'))"],
         notes="configuration of the inner searcher; the search itself is C01/C04/C05")
