"""Contracts for comb_spec_searcher/rule_db/{base,forget}.py (C05 cache/root discipline, C14 key-set view, C04 cleaning)."""
import z3
from pyvc.dsl import *
from pyvc.core import Val
from .common import CombClass, Strategy
from . import searcher, rule, class_db, class_queue, equiv_db  # noqa: F401  (registry entries extended below)

FB = "comb_spec_searcher/rule_db/base.py"
FF = "comb_spec_searcher/rule_db/forget.py"
RuleKey = Tup(Int, Seq(Int))
RulesDict = DefaultDict(Int, Set(Seq(Int)))
AL = {"RuleKey": RuleKey, "Strategy": Strategy, "CombClass": CombClass}

# ---------------------------------------------------------------- RecomputingDict: the key set is what matters
klass(FF, "RecomputingDict", fields={"rules": Set(Seq(Int)), "only_equiv": Bool},
      invariant=["forall(lambda k=Seq(Int): implies(k in self.rules, len(k) >= 1))"])
RD = Obj("RecomputingDict")

for nm in ("_flatten", "_unflatten"):
    contract(FF, f"RecomputingDict.{nm}", props=["C14"], inline=True, verify=False, aliases=AL,
             trusted_reason="one-line helper, inlined from its real source into every caller", params={})

contract(FF, "RecomputingDict.__contains__", props=["C14"], aliases=AL,
         params={"self": RD, "key": RuleKey}, returns=Bool,
         ensures=["result == (((key[0],) + key[1]) in self.rules)"], modifies=[],
         notes="membership of the flattened key (parent, children...)")
contract(FF, "RecomputingDict.__setitem__", props=["C14"], aliases=AL,
         params={"self": RD, "key": RuleKey, "value": Strategy},
         requires=["implies(self.only_equiv, len(key[1]) == 1)"],
         ensures=["forall(lambda k=Seq(Int): (k in self.rules) == (old(k in self.rules) or k == (key[0],) + key[1]))"],
         modifies=["*self.rules"])
contract(FF, "RecomputingDict.__delitem__", props=["C14"], aliases=AL,
         params={"self": RD, "key": RuleKey},
         raises=[("KeyError", "not (((key[0],) + key[1]) in self.rules)")],
         ensures=["forall(lambda k=Seq(Int): (k in self.rules) == (old(k in self.rules) and k != (key[0],) + key[1]))"],
         modifies=["*self.rules"])
contract(FF, "RecomputingDict.__len__", props=["C14"], aliases=AL,
         params={"self": RD}, returns=Int, ensures=["result == len(self.rules)"], modifies=[])
contract(FF, "RecomputingDict.__iter__", props=["C14"], aliases=AL,
         params={"self": RD}, returns=Seq(RuleKey),
         yields=["((it[0],) + it[1]) in self.rules", "len(it[1]) >= 0"], modifies=[],
         notes="yields only stored keys (each exactly once: bounded)")

# round trip of the flattening (a lemma over the two helpers' real bodies, which are inlined)
contract("verif:contracts/lemmas_src.py", "lemma_flatten_roundtrip", props=["C14"], lemma=True, aliases=AL,
         params={"start": Int, "ends": Seq(Int)},
         ensures=["result"], returns=Bool)

# ---------------------------------------------------------------- RuleDB (default) and RuleDBForgetStrategy

# ---------------------------------------------------------------- rule databases
FE = "comb_spec_searcher/equiv_db.py"
FR = "comb_spec_searcher/strategies/rule.py"
_EQMODS = ["*self.parents", "*self.weights", "*self.verified_roots", "*self.vertices", "*self._one_way_vertices",
           "all:Set(Int)", "self._one_way_vertices"]
for nm, ps in (("set_verified", {"comb_class": Int}), ("add_two_way_edge", {"label": Int, "other_label": Int}),
               ("add_one_way_edge", {"label": Int, "other_label": Int}), ("connect_cycles", {})):
    if f"EquivalenceDB.{nm}" not in REG.contracts:
        contract(FE, f"EquivalenceDB.{nm}", props=["C05", "C14"], verify=False,
                 trusted_reason="only the frame is used by the rule database contracts; behaviour covered under C06",
                 params=dict({"self": Obj("EquivalenceDB")}, **ps), modifies=_EQMODS)


def _ufn(name, rt, *arg_sorts):
    def f(ex, st, *vals):
        fn = z3.Function(name, *[v.z.sort() for v in vals], rt.sort())
        return Val(rt, fn(*[v.z for v in vals]))
    return f


spec_fn("two_way_of", _ufn("two_way_of", Bool))
spec_fn("strategy_of", _ufn("strategy_of", Strategy))
spec_fn("possibly_empty_of", _ufn("possibly_empty_of", Bool))
spec_fn("root_label_of", _ufn("root_label_of", Int))
spec_fn("iterative_of", _ufn("iterative_of", Bool))
spec_fn("is_verif_rule", _ufn("is_verif_rule", Bool))
spec_fn("classdb_of", _ufn("classdb_of", Obj("ClassDB")))
spec_fn("searcher_of", _ufn("searcher_of", Obj("CombinatorialSpecificationSearcher")))

REG.classes["Rule"].properties += ["strategy", "possibly_empty"]
contract(FR, "Rule.is_two_way", source="AbstractRule.is_two_way", props=["C14", "C04"], verify=False,
         trusted_reason="strategy.is_two_way(comb_class): deterministic user code (A2)",
         params={"self": Obj("Rule")}, returns=Bool, ensures=["result == two_way_of(self)"])
contract(FR, "Rule.strategy", source="AbstractRule.strategy", props=["C14", "C04"], verify=False,
         trusted_reason="attribute getter", params={"self": Obj("Rule")}, returns=Strategy,
         ensures=["result == strategy_of(self)"])
contract(FR, "Rule.possibly_empty", source="AbstractRule.possibly_empty", props=["C04"], verify=False,
         trusted_reason="strategy flag getter", params={"self": Obj("Rule")}, returns=Bool,
         ensures=["result == possibly_empty_of(self)"])

for _flag in ("workable", "inferrable", "ignore_parent"):
    spec_fn(f"{_flag}_of", _ufn(f"{_flag}_of", Bool))
    contract(FR, f"Rule.{_flag}", source=f"AbstractRule.{_flag}", props=["C04"], verify=False,
             trusted_reason="strategy flag getter", params={"self": Obj("Rule")}, returns=Bool,
             ensures=[f"result == {_flag}_of(self)"])
    REG.classes["Rule"].properties.append(_flag)
klass(FB, "RuleDBBase", bases=["RuleDBAbstract"],
      fields={"equivdb": Obj("EquivalenceDB"), "_pruned_dict": Opt(RulesDict)},
      properties=["root_label", "iterative", "classdb", "searcher", "pruned_dict"])
klass(FB, "RuleDB", bases=["RuleDBBase"],
      fields={"_rule_to_strategy": Dict(RuleKey, Strategy), "_eqv_rule_to_strategy": Dict(RuleKey, Strategy)},
      properties=["rule_to_strategy", "eqv_rule_to_strategy"],
      invariant=["not same(self._rule_to_strategy, self._eqv_rule_to_strategy)"])
klass(FF, "RuleDBForgetStrategy", bases=["RuleDBBase"],
      fields={"_rule_to_strategy": RD, "_eqv_rule_to_strategy": RD},
      properties=["rule_to_strategy", "eqv_rule_to_strategy"],
      invariant=["not same(self._rule_to_strategy, self._eqv_rule_to_strategy)",
                 "not same(self._rule_to_strategy.rules, self._eqv_rule_to_strategy.rules)",
                 "not self._rule_to_strategy.only_equiv", "self._eqv_rule_to_strategy.only_equiv",
                 "forall(lambda k=Seq(Int): implies(k in self._rule_to_strategy.rules, len(k) >= 1))",
                 "forall(lambda k=Seq(Int): implies(k in self._eqv_rule_to_strategy.rules, len(k) >= 1))"])
for cls, f in (("RuleDB", FB), ("RuleDBForgetStrategy", FF)):
    for nm in ("rule_to_strategy", "eqv_rule_to_strategy"):
        contract(f, f"{cls}.{nm}", props=["C14"], inline=True, verify=False,
                 trusted_reason="attribute getter, inlined from its real source", params={})

for nm in ("rule_to_strategy", "eqv_rule_to_strategy"):
    contract(FB, f"RuleDBBase.{nm}", props=["C05", "C02"], verify=False, aliases=AL,
             trusted_reason="abstract property: the store of the concrete database (a mapping keyed by (parent, children))",
             params={"self": Obj("RuleDBBase")}, returns=Dict(RuleKey, Strategy))
REG.classes["RuleDBBase"].properties += ["rule_to_strategy", "eqv_rule_to_strategy"]
contract(FB, "RuleDBBase.root_label", source="RuleDBBase.iterative", props=["C05"], verify=False,
         trusted_reason="searcher.start_label through the link to the searcher (RuleDBAbstract properties)",
         params={"self": Obj("RuleDBBase")}, returns=Int, ensures=["result == root_label_of(self)"])
contract(FB, "RuleDBBase.iterative", props=["C05"], verify=False,
         trusted_reason="strategy_pack.iterative through the link to the searcher",
         params={"self": Obj("RuleDBBase")}, returns=Bool, ensures=["result == iterative_of(self)"])
contract(FB, "RuleDBBase.classdb", source="RuleDBBase.iterative", props=["C04"], verify=False,
         trusted_reason="searcher.classdb through the link to the searcher",
         params={"self": Obj("RuleDBBase")}, returns=Obj("ClassDB"), ensures=["result == classdb_of(self)"])
contract(FB, "RuleDBBase.searcher", source="RuleDBBase.iterative", props=["C04"], verify=False,
         trusted_reason="the linked searcher", params={"self": Obj("RuleDBBase")},
         returns=Obj("CombinatorialSpecificationSearcher"), ensures=["result == searcher_of(self)"])
REG.classes["CombinatorialSpecificationSearcher"].fields.update({"classqueue": Obj("DefaultQueue"), "classdb": Obj("ClassDB")})

# ---- contains (C14): total, and decides membership of the sorted key in either store
_KEY = "(start, tuple(sorted(ends)))"
_FKEY = "((start,) + tuple(sorted(ends)))"
contract(FB, "RuleDBBase.contains", props=["C14"], aliases=AL, returns=Bool,
         params={"start": Int, "ends": Seq(Int)}, modifies=[],
         variants=[
             {"name": "default", "params": {"self": Obj("RuleDB")},
              "ensures": [f"result == ({_KEY} in self._rule_to_strategy or {_KEY} in self._eqv_rule_to_strategy)"]},
             {"name": "forget", "params": {"self": Obj("RuleDBForgetStrategy")},
              "ensures": [f"result == ({_FKEY} in self._rule_to_strategy.rules or {_FKEY} in self._eqv_rule_to_strategy.rules)"]},
         ],
         notes="no exception for any (parent, children) pair; children are compared as a sorted tuple")

# RecomputingDict.__getitem__: recomputation by replaying the pack.  Summary used by callers (pop): KeyError exactly
# for absent keys; any other failure is a RuntimeError; the key set is not modified.
contract(FF, "RecomputingDict.__getitem__", props=["C14"], verify=False, aliases=AL,
         trusted_reason="replays user strategies (outside the subset); its observable behaviour (KeyError iff absent, "
                        "handed-back strategy reproduces the key) is checked by the bounded lock-step stand-in",
         params={"self": RD, "key": RuleKey}, returns=Strategy,
         raises=[("KeyError", "not (((key[0],) + key[1]) in self.rules)")], may_raise=["RuntimeError"], modifies=[])

_CL_MODS = ["all:Obj('ClassDB')", "all:List(Opt(Bool))", "all:List(ClassKey)", "all:Dict(ClassKey, Int)", "all:List(Int)",
            "all:Set(Int)", "all:Counter(Int)", "rule._children"]
# ---- _clean_labels (C04): a child is dropped only if the strategy is possibly-empty AND the class database says empty
_LAB_OK = ("forall(lambda i: implies(0 <= i and i < len(ends), 0 <= ends[i] and ends[i] < len(classdb_of(self).comb_class_list) "
           "and classdb_of(self).comb_class_list[ends[i]] == compress(children_of(rule)[i])))")
_KEPT = "not (possibly_empty_of(rule) and truth(children_of(rule)[{i}]))"
contract(FB, "RuleDBBase._clean_labels", props=["C04", "C14"], aliases=dict(AL, ClassKey=class_db.ClassKey),
         params={"self": Obj("RuleDBBase"), "ends": Seq(Int), "rule": Obj("Rule")}, returns=Seq(Int),
         requires=["len(ends) == len(children_of(rule))", "wf(classdb_of(self))", "wf(searcher_of(self).classqueue)",
                   _LAB_OK],
         call_models={}, locals={"cleaned_ends": List(Int)},
         may_raise=["StrategyDoesNotApply", "UserCodeError"],
         ensures=["forall(lambda i, j: implies(0 <= i and i < j and j < len(result), result[i] <= result[j]))",
                  "forall(lambda i: implies(0 <= i and i < len(ends) and " + _KEPT.format(i="i") + ", ends[i] in result))",
                  "forall(lambda j: implies(0 <= j and j < len(result), exists(lambda i: 0 <= i and i < len(ends) and "
                  "ends[i] == result[j] and " + _KEPT.format(i="i") + ")))"],
         loops={0: dict(invariant=[
             "wf(classdb_of(self))", "wf(searcher_of(self).classqueue)", _LAB_OK,
             "forall(lambda i: implies(0 <= i and i < _i0 and " + _KEPT.format(i="i") + ", ends[i] in cleaned_ends))",
             "forall(lambda j: implies(0 <= j and j < len(cleaned_ends), exists(lambda i: 0 <= i and i < _i0 and "
             "ends[i] == cleaned_ends[j] and " + _KEPT.format(i="i") + ")))"])},
         modifies=_CL_MODS,
         notes="kept labels are sorted; a label is dropped only for a possibly-empty strategy and a truly empty class")

# ---- add (C05 cache reset, C14 identical key-set behaviour of both databases, C04 what gets stored)
_CLEANED = 'last_result("RuleDBBase._clean_labels")'
_TWO = f"(len({_CLEANED}) == 1 and two_way_of(rule))"
_K = f"(start, {_CLEANED})"
_KREV = f"({_CLEANED}[0], (start,))"


def _add_posts(rkeys, ekeys, mk):
    """rkeys/ekeys: expressions for 'k in rule store' / 'k in equivalence store' with a bound variable k."""
    return [
        "is_none(self._pruned_dict)",
        # two-way single-child rule: stored as an equivalence, removed from the general store in both directions
        f"implies({_TWO}, forall(lambda k=KT: {ekeys('k')} == (old({ekeys('k')}) or k == {mk(_K)})))",
        f"implies({_TWO}, forall(lambda k=KT: {rkeys('k')} == (old({rkeys('k')}) and k != {mk(_K)} and k != {mk(_KREV)})))",
        # anything else: stored in the general store, equivalence store untouched
        f"implies(not {_TWO}, forall(lambda k=KT: {rkeys('k')} == (old({rkeys('k')}) or k == {mk(_K)})))",
        f"implies(not {_TWO}, forall(lambda k=KT: {ekeys('k')} == old({ekeys('k')})))",
    ]


_flat = lambda key: f"(({key}[0],) + {key}[1])"
_ADD_MODS = _CL_MODS + ["self._pruned_dict", "all:Obj('EquivalenceDB')", "all:Dict(Int, Int)", "all:DefaultDict(Int, Set(Int))"]
_ADD_REQ = ["len(ends) == len(children_of(rule))", "wf(classdb_of(self))", "wf(searcher_of(self).classqueue)", _LAB_OK,
            "wf(self.equivdb)"]
contract(FB, "RuleDBBase.add", props=["C05", "C14", "C04"],
         params={"start": Int, "ends": Seq(Int), "rule": Obj("Rule")},
         isinstance_map={"VerificationRule": lambda ex, v, st: z3.Function("is_verif_rule", z3.IntSort(), z3.BoolSort())(v.z)},
         requires=_ADD_REQ, may_raise=["StrategyDoesNotApply", "UserCodeError"],
         variants=[
             {"name": "default", "params": {"self": Obj("RuleDB")}, "aliases": dict(AL, KT=RuleKey, ClassKey=class_db.ClassKey),
              "ensures": _add_posts(lambda k: f"({k} in self._rule_to_strategy)", lambda k: f"({k} in self._eqv_rule_to_strategy)",
                                    lambda key: key)
              + [f"implies(not {_TWO}, self._rule_to_strategy[{_K}] == strategy_of(rule))",
                 f"implies({_TWO}, self._eqv_rule_to_strategy[{_K}] == strategy_of(rule))"],
              "modifies": _ADD_MODS + ["*self._rule_to_strategy", "*self._eqv_rule_to_strategy"]},
             {"name": "forget", "params": {"self": Obj("RuleDBForgetStrategy")},
              "aliases": dict(AL, KT=Seq(Int), ClassKey=class_db.ClassKey),
              "ensures": _add_posts(lambda k: f"({k} in self._rule_to_strategy.rules)",
                                    lambda k: f"({k} in self._eqv_rule_to_strategy.rules)", _flat),
              "modifies": _ADD_MODS + ["*self._rule_to_strategy.rules", "*self._eqv_rule_to_strategy.rules"]},
         ],
         notes="both databases update their key sets identically; the cached pruned dictionary is dropped first")

# ---- pruned_dict / has_specification (C05): which pruning, with which root, and the cache discipline
FT = "comb_spec_searcher/tree_searcher.py"
contract(FT, "prune", props=["C05"], verify=False,
         trusted_reason="summary used by pruned_dict (frame only); prune itself is verified separately / bounded",
         params={"rdict": RulesDict}, modifies=["*rdict", "all:Set(Seq(Int))"])
contract(FT, "iterative_prune", props=["C05"], verify=False,
         trusted_reason="summary used by pruned_dict (fresh result); iterative_prune itself is bounded",
         params={"rules_dict": RulesDict, "root": Opt(Int)}, returns=RulesDict, ensures=["fresh(result)"])
_REPKEY = "self.equivdb.rep[{x}]"
contract(FB, "RuleDBBase.__iter__", props=["C05", "C02"], aliases=AL, returns=Seq(RuleKey),
         params={"self": Obj("RuleDBBase")}, yields=["len(it[1]) >= 0"], modifies=[], verify=False,
         trusted_reason="itertools.chain of the two stores' key iterators; which keys are stored is the subject of "
                        "RuleDBBase.add (verified) and completeness of the iteration is checked by the bounded stand-in")
contract(FB, "RuleDBBase.are_equivalent", props=["C05", "C02"], inline=True, verify=False, aliases=AL,
         trusted_reason="one-line delegation to equivdb.equivalent, inlined from its real source", params={})

contract(FB, "RuleDBBase.rules_up_to_equivalence", props=["C05", "C02"], aliases=AL,
         params={"self": Obj("RuleDBBase")}, returns=RulesDict,
         locals={"rules_dict": DefaultDict(Int, Set(Seq(Int))), "_comp0": List(Int)},
         requires=["wf(self.equivdb)"],
         ensures=["fresh(result)", "wf(self.equivdb)",
                  # every key is a representative, every rule consists of representatives, sorted
                  "forall(lambda k: implies(k in result, " + _REPKEY.format(x="k") + " == k))",
                  # a rule that only restates an equivalence (single child in the parent's own class) is never kept:
                  # this is what keeps circular one-child rules out of the pruned dictionary
                  "forall(lambda k: implies(k in result, not ((k,) in result[k])))"],
         comp_loops={0: dict(invariant=["wf(self.equivdb)", "len(_comp0) == _ic0",
                                        "forall(lambda y: self.equivdb.rep[y] == at('loopc0', self.equivdb.rep[y]))",
                                        "forall(lambda j: implies(0 <= j and j < _ic0, _comp0[j] == self.equivdb.rep[ends[j]]))"],
                             modifies=["*_comp0", "*self.equivdb.parents", "*self.equivdb.weights"])},
         loops={0: dict(invariant=[
             "wf(self.equivdb)", "forall(lambda y: self.equivdb.rep[y] == at('loop0', self.equivdb.rep[y]))",
             "forall(lambda k: implies(k in rules_dict, " + _REPKEY.format(x="k") + " == k))",
             "forall(lambda k: implies(k in rules_dict, not ((k,) in rules_dict[k])))",
             "forall(lambda k1, k2: implies(k1 in rules_dict and k2 in rules_dict and k1 != k2, "
             "not same(rules_dict[k1], rules_dict[k2])))",
             "fresh(rules_dict)", "forall(lambda k: implies(k in rules_dict, fresh(rules_dict[k])))"],
             modifies=["*rules_dict", "all:Set(Seq(Int))", "all:List(Int)", "*self.equivdb.parents", "*self.equivdb.weights"])},
         modifies=["all:Obj('EquivalenceDB')", "all:Dict(Int, Int)", "all:Set(Int)", "all:DefaultDict(Int, Set(Int))",
                   "all:List(Int)", "all:Set(Seq(Int))", "all:DefaultDict(Int, Set(Seq(Int)))"],
         notes="rules collapsed to representatives; one-child rules inside one equivalence class are dropped")

_FIND = "EquivalenceDB.__getitem__"
contract(FB, "RuleDBBase.pruned_dict", props=["C05"],
         params={"self": Obj("RuleDBBase")}, returns=RulesDict, requires=["wf(self.equivdb)"],
         ensures=["wf(self.equivdb)", "not is_none(self._pruned_dict) and same(result, val(self._pruned_dict))",
                  # a cached dictionary is served as is
                  "implies(not old(is_none(self._pruned_dict)), same(result, old(val(self._pruned_dict))))",
                  # ... and without touching the equivalences (so the representative of the start label stays what it was)
                  "implies(not old(is_none(self._pruned_dict)), forall(lambda y: self.equivdb.rep[y] == old(self.equivdb.rep[y])))"],
         call_requires={
             # iterative packs: recursion is allowed to the start class's own equivalence class, i.e. the root handed to
             # the pruning is the representative found for root_label AFTER equivalences were brought up to date
             "iterative_prune": ["iterative_of(self)", "not is_none(root)",
                                 # (state after the equivalences were brought up to date)
                                 "val(root) == self.equivdb.rep[root_label_of(self)]",
                                 'called_after("EquivalenceDB.__getitem__", "RuleDBBase.rules_up_to_equivalence")',
                                 'same(rules_dict, last_result("RuleDBBase.rules_up_to_equivalence"))'],
             "prune": ["not iterative_of(self)", 'same(rdict, last_result("RuleDBBase.rules_up_to_equivalence"))'],
             "RuleDBBase.rules_up_to_equivalence": ["old(is_none(self._pruned_dict))"]},
         loops={0: dict(invariant=["wf(self.equivdb)"],
                        modifies=["all:Obj('EquivalenceDB')", "all:Dict(Int, Int)", "all:Set(Int)", "all:DefaultDict(Int, Set(Int))"])},
         modifies=["self._pruned_dict", "all:Obj('EquivalenceDB')", "all:Dict(Int, Int)", "all:Set(Int)",
                   "all:DefaultDict(Int, Set(Int))", "all:Set(Seq(Int))", "all:DefaultDict(Int, Set(Seq(Int)))"],
         notes="recomputed only when the cache is empty; the right pruning with the right root")

contract(FB, "RuleDBBase.has_specification", props=["C05"],
         params={"self": Obj("RuleDBBase")}, returns=Bool, requires=["wf(self.equivdb)"],
         ensures=["result == (self.equivdb.rep[root_label_of(self)] in val(self._pruned_dict))",
                  # the representative is asked for only after the pruned dictionary (hence the equivalences) is up to date
                  f'called_after("{_FIND}", "RuleDBBase.pruned_dict")'],
         modifies=["self._pruned_dict", "all:Obj('EquivalenceDB')", "all:Dict(Int, Int)", "all:Set(Int)",
                   "all:DefaultDict(Int, Set(Int))", "all:Set(Seq(Int))", "all:DefaultDict(Int, Set(Seq(Int)))"],
         notes="a specification exists iff the representative of the start label survives in the pruned dictionary")

# ------------------------------------------------------------------ C05/C02: which root the tree finders and the extractor get
# Finders search in the pruned dictionary from the REPRESENTATIVE of the start label, looked up after pruned_dict brought the
# equivalences up to date (cf. D4, D12); the rule extractor is rooted at the START LABEL itself (cf. D5).
FTS = "comb_spec_searcher/tree_searcher.py"
_Node = Obj("Node")      # class declared in contracts/bijection.py (tree_searcher.Node)
Float_ = Opaque("Float")
# Ghost functions for the 'smallest' option: tsize(node) = number of nodes of a proof tree (what Node.__len__ computes);
# min_tsize(d, root) = the least size of a proof tree for `root` in the dictionary object d.  min_tsize is keyed by the
# dictionary OBJECT: it is only used between two readings of the cached pruned dictionary, which pruned_dict (verified)
# serves unchanged -- see the notes of RuleDBBase._get_smallest_node.
spec_fn("tsize", _ufn("tsize", Int))
spec_fn("min_tsize", _ufn("min_tsize", Int))
_MIN = "min_tsize(rules_dict, root)"
contract(FTS, "iterative_proof_tree_finder", props=["C05"], verify=False,
         trusted_reason="tree search in the pruned dictionary (bounded stand-in c05: exhaustive small dictionaries)",
         params={"rules_dict": RulesDict, "root": Int}, returns=_Node, modifies=[])
contract(FTS, "random_proof_tree", props=["C05"], verify=False,
         trusted_reason="breadth-first random tree search in the pruned dictionary (bounded stand-in c05: exhaustive small "
                        "dictionaries, every random choice); assumed here: it returns a proof tree for the root, hence one "
                        "that is not smaller than the smallest",
         params={"rules_dict": RulesDict, "root": Int}, returns=_Node,
         ensures=["result.label == root", "tsize(result) >= " + _MIN, _MIN + " >= 1"], modifies=[])
contract(FTS, "smallish_random_proof_tree", props=["C05"], lenient=True,
         params={"rules_dict": RulesDict, "root": Int, "minimization_time_limit": Float_}, returns=_Node,
         locals={"smallest_so_far": _Node, "next_tree": _Node, "smallest_size": Int, "next_tree_size": Int},
         ensures=["result.label == root", "tsize(result) >= " + _MIN, _MIN + " >= 1"],
         loops={0: dict(invariant=["smallest_so_far.label == root", "tsize(smallest_so_far) >= " + _MIN, _MIN + " >= 1",
                                   # the recorded size is the size of the recorded tree
                                   "smallest_size == tsize(smallest_so_far)"], modifies=[])},
         modifies=[],
         notes="whatever the clock says (readings are arbitrary), the tree handed back is one of the trees random_proof_tree "
               "returned for this dictionary and root, and the size kept beside it is its size")
contract(FTS, "proof_tree_generator_dfs", props=["C05"], verify=False,
         trusted_reason="depth-first generator of proof trees (bounded stand-in c05); assumed here: with a bound it yields "
                        "exactly the proof trees of at most `maximum` nodes (none iff the smallest tree is larger)",
         params={"rules_dict": RulesDict, "root": Int, "maximum": Opt(Int)}, returns=Seq(_Node),
         yields=["tsize(it) >= " + _MIN, "is_none(maximum) or tsize(it) <= val(maximum)"],
         yields_count=["(count > 0) == (is_none(maximum) or val(maximum) >= " + _MIN + ")"],
         modifies=[])
_ROOT_OK = ["same(rules_dict, val(self._pruned_dict))", "root == self.equivdb.rep[root_label_of(self)]",
            'called_after("EquivalenceDB.__getitem__", "RuleDBBase.pruned_dict")']
_NODE_MODS = ["self._pruned_dict", "all:Obj('EquivalenceDB')", "all:Dict(Int, Int)", "all:Set(Int)",
              "all:DefaultDict(Int, Set(Int))", "all:Set(Seq(Int))", "all:DefaultDict(Int, Set(Seq(Int)))"]
contract(FB, "RuleDBBase._get_iterative_node", props=["C05"], aliases=AL,
         params={"self": Obj("RuleDBBase")}, returns=_Node, requires=["wf(self.equivdb)"],
         raises=[("InvalidOperationError", "not iterative_of(self)")],
         call_requires={"iterative_proof_tree_finder": _ROOT_OK}, ensures=["wf(self.equivdb)"], modifies=_NODE_MODS)
_MINSELF = "min_tsize(val(self._pruned_dict), self.equivdb.rep[root_label_of(self)])"
contract(FB, "RuleDBBase._get_smallish_node", props=["C05"], aliases=AL, lenient=True,
         params={"self": Obj("RuleDBBase"), "minimization_time_limit": Float_}, returns=_Node, requires=["wf(self.equivdb)"],
         raises=[("InvalidOperationError", "iterative_of(self)")],
         call_requires={"smallish_random_proof_tree": _ROOT_OK}, ensures=["wf(self.equivdb)", "not is_none(self._pruned_dict)", "tsize(result) >= " + _MINSELF, _MINSELF + " >= 1"],
         modifies=_NODE_MODS)
_BS_INV = ["wf(self.equivdb)", "not is_none(self._pruned_dict)", "same(val(self._pruned_dict), at('loop0', val(self._pruned_dict)))",
           "self.equivdb.rep[root_label_of(self)] == at('loop0', self.equivdb.rep[root_label_of(self)])",
           "1 <= minimum", "minimum <= " + _MINSELF, _MINSELF + " <= maximum", "tsize(node) == maximum"]
contract(FB, "RuleDBBase._get_smallest_node", props=["C05"], aliases=AL, lenient=True,
         params={"self": Obj("RuleDBBase"), "minimization_time_limit": Float_}, returns=_Node, requires=["wf(self.equivdb)"],
         locals={"node": _Node, "minimum": Int, "maximum": Int, "middle": Int},
         raises=[("InvalidOperationError", "iterative_of(self)")],
         call_requires={"proof_tree_generator_dfs": _ROOT_OK},
         loops={0: dict(invariant=_BS_INV, modifies=_NODE_MODS)},
         ensures=["wf(self.equivdb)", "not is_none(self._pruned_dict)",
                  # the binary search ends on a tree of the least size
                  "tsize(result) == " + _MINSELF],
         modifies=_NODE_MODS,
         notes="binary search over the bounded depth-first generator: the returned tree has the least size among the proof "
               "trees of the cached pruned dictionary for the representative of the start label (relative to the assumed "
               "contracts of the two finders; min_tsize is keyed by the dictionary object, which pruned_dict serves "
               "unchanged, with the equivalences untouched, once it is cached -- both proved)")
contract(FB, "RuleDBBase._get_specification_node", props=["C05"], aliases=AL, lenient=True,
         params={"self": Obj("RuleDBBase"), "minimization_time_limit": Float_, "smallest": Bool}, returns=_Node,
         requires=["wf(self.equivdb)"],
         raises=[("InvalidOperationError", "iterative_of(self) and smallest")],
         ensures=["wf(self.equivdb)",
                  # the finder matches the pack's mode and the caller's wish
                  "implies(iterative_of(self), called_after('RuleDBBase._get_iterative_node', 'RuleDBBase._get_smallish_node'))",
                  # the 'smallest' option hands back a tree of the least size (carried from _get_smallest_node)
                  "implies(smallest, not is_none(self._pruned_dict) and tsize(result) == " + _MINSELF + ")"],
         modifies=_NODE_MODS)
contract(FB, "RuleDBBase.get_specification_rules", props=["C05", "C02"], aliases=AL, lenient=True,
         params={"self": Obj("RuleDBBase"), "minimization_time_limit": Float_, "smallest": Bool},
         returns=Opaque("RuleIter"), requires=["wf(self.equivdb)"],
         may_raise=["InvalidOperationError", "AssertionError", "KeyError"],
         call_requires={"SpecificationRuleExtractor.__init__": [
             "root_label == root_label_of(caller_self)", "same(ruledb, caller_self)",
             'same(root_node, last_result("RuleDBBase._get_specification_node"))']},
         modifies=_NODE_MODS + ["all:Obj('SpecificationRuleExtractor')"])
contract(FTS, "Node.__len__", props=["C05"], verify=False, trusted_reason="number of nodes of a proof tree (recursive structure)",
         params={"self": _Node}, returns=Int, ensures=["result >= 1", "result == tsize(self)"], modifies=[])

# ------------------------------------------------------------------ C05: prune -- what holds when it returns
# (soundness of the pruning: the result is closed, a sub-dictionary of the input; that it is the GREATEST such
# sub-dictionary is checked by the bounded stand-in)
_CLOSED = ("forall(lambda k, r=Seq(Int): implies(k in {d} and r in {d}[k], "
           "forall(lambda j: implies(0 <= j and j < len(r), r[j] in {d}))))")
_DISTINCT_SETS = "forall(lambda k, l: implies(k in rdict and l in rdict and k != l, not same(rdict[k], rdict[l])))"
_SHRINK = ["forall(lambda k: implies(k in rdict, at('loop0', k in rdict)))",
           "forall(lambda k, r=Seq(Int): implies(k in rdict and r in rdict[k], at('loop0', r in rdict[k])))",
           "forall(lambda k: implies(k in rdict, same(rdict[k], at('loop0', rdict[k]))))"]
# nothing changed since the start of the current pass (label iter0 = head of the current while iteration)
_SAME_PASS = ("(forall(lambda k: (k in rdict) == at('iter0', k in rdict)) and "
              "forall(lambda k, r=Seq(Int): implies(k in rdict, (r in rdict[k]) == at('iter0', r in rdict[k]))))")
_RC0 = "forall(lambda q: implies(0 <= q and q < len({r}), at('iter0', {r}[q] in rdict)))"     # closed w.r.t. the pass start
_ACC1 = ("implies(not changed, forall(lambda j, r=Seq(Int): implies(0 <= j and j < _i1 and at('iter0', r in rdict[_keys1[j]]), "
         + _RC0.format(r="r") + ")))")
contract(FT, "prune#body", source="prune", props=["C05"], aliases=AL,
         params={"rdict": RulesDict},
         requires=[_DISTINCT_SETS],
         ensures=[_CLOSED.format(d="rdict"),
                  "forall(lambda k: implies(k in rdict, old(k in rdict)))",
                  "forall(lambda k, r=Seq(Int): implies(k in rdict and r in rdict[k], old(r in rdict[k])))"],
         loops={
             0: dict(invariant=[_DISTINCT_SETS, "implies(not changed, " + _CLOSED.format(d="rdict") + ")"] + _SHRINK,
                     modifies=["*rdict", "all:Set(Seq(Int))"]),
             # pass over the snapshot of the items: while nothing changed, the keys done so far have only closed rules
             1: dict(ghost_end=["assert implies(not changed, forall(lambda r=Seq(Int): implies(at('iter0', r in rdict[k]), "
                                + _RC0.format(r="r") + ")))"],
                     invariant=[_DISTINCT_SETS] + _SHRINK + [
                 # keys of the snapshot that were not visited yet are still present
                 "forall(lambda j: implies(_i1 <= j and j < _n1, _keys1[j] in rdict))",
                 "implies(not changed, " + _SAME_PASS + ")", _ACC1],
                     modifies=["*rdict", "all:Set(Seq(Int))"]),
             # pass over the snapshot of one rule set
             2: dict(ghost_end=["assert implies(not changed, " + _RC0.format(r="rule") + ")"],
                     invariant=[_DISTINCT_SETS] + _SHRINK + [
                 "implies(at('loop2', changed), changed)",
                 "forall(lambda j: implies(_i1 < j and j < _n1, _keys1[j] in rdict))",
                 # the key is still there with this very set, unless the set ran empty (then the key was deleted)
                 "(k in rdict and same(rdict[k], rule_set)) or len(rule_set) == 0",
                 # rules of the snapshot not looked at yet are still in the set
                 "forall(lambda j: implies(_i2 <= j and j < _n2, _keys2[j] in rule_set))",
                 "implies(not changed, " + _SAME_PASS + ")", _ACC1,
                 "implies(not changed, forall(lambda j: implies(0 <= j and j < _i2, " + _RC0.format(r="_keys2[j]") + ")))"],
                     modifies=["*rdict", "all:Set(Seq(Int))"])},
         modifies=["*rdict", "all:Set(Seq(Int))"],
         notes="on return every surviving rule has all its children among the surviving keys; only removals happened")

# ------------------------------------------------------------------ C05: iterative_prune -- what holds for the returned dictionary
# every kept rule is a rule of the input for the same key, and each of its children is the root or itself a key of the result
# (iteratively verifiable); that nothing iteratively verifiable is lost is checked by the bounded stand-in
_VL = "(({x}) in verified_labels)"
_ISUB = ("forall(lambda k, r=Seq(Int): implies(k in new_rules_dict and r in new_rules_dict[k], "
         "k in rules_dict and r in rules_dict[k]))")
_IVER = ("forall(lambda k, r=Seq(Int): implies(k in new_rules_dict and r in new_rules_dict[k], "
         "k in verified_labels and forall(lambda q: implies(0 <= q and q < len(r), r[q] in verified_labels))))")
_VORIG = ("forall(lambda v: implies(v in verified_labels, (not is_none(root) and v == val(root)) or v in new_rules_dict))")
_RSUB = ("forall(lambda k, r=Seq(Int): implies(k in rdict and r in rdict[k], k in rules_dict and r in rules_dict[k]))")
_NDIST = ("forall(lambda k, l: implies(k in new_rules_dict and l in new_rules_dict and k != l, "
          "not same(new_rules_dict[k], new_rules_dict[l])))")
_RDIST = "forall(lambda k, l: implies(k in rdict and l in rdict and k != l, not same(rdict[k], rdict[l])))"
_CROSS = ("forall(lambda k, l: implies(k in rdict and l in new_rules_dict, not same(rdict[k], new_rules_dict[l])))")
_FRESHN = "fresh(new_rules_dict) and forall(lambda k: implies(k in new_rules_dict, fresh(new_rules_dict[k])))"
_FRESHR = "fresh(rdict) and forall(lambda k: implies(k in rdict, fresh(rdict[k])))"
_INPUT_SAME = ["forall(lambda k: (k in rules_dict) == old(k in rules_dict))",
               "forall(lambda k: implies(k in rules_dict, same(rules_dict[k], old(rules_dict[k]))))",
               "forall(lambda k, r=Seq(Int): implies(k in rules_dict, (r in rules_dict[k]) == old(r in rules_dict[k])))"]
_IP_INV = _INPUT_SAME + ["forall(lambda k: implies(k in rdict, same(rdict[k], at('loop0', rdict[k]))))",_ISUB, _IVER, _VORIG, _RSUB, _NDIST, _RDIST, _CROSS, _FRESHN, _FRESHR, "fresh(verified_labels)",
           "forall(lambda k: implies(k in new_rules_dict, len(new_rules_dict[k]) > 0))"]
_IP_MODS = ["all:Set(Int)", "all:Set(Seq(Int))", "all:DefaultDict(Int, Set(Seq(Int)))"]
contract(FT, "iterative_prune#body", source="iterative_prune", props=["C05"], aliases=AL,
         params={"rules_dict": RulesDict, "root": Opt(Int)}, returns=RulesDict,
         locals={"verified_labels": Set(Int), "new_rules_dict": RulesDict, "rdict": RulesDict},
         ensures=["fresh(result)",
                  "forall(lambda k, r=Seq(Int): implies(k in result and r in result[k], k in rules_dict and r in rules_dict[k]))",
                  "forall(lambda k, r=Seq(Int): implies(k in result and r in result[k], forall(lambda q: implies(0 <= q and "
                  "q < len(r), (not is_none(root) and r[q] == val(root)) or r[q] in result))))",
                  # the input is not touched
                  "forall(lambda k: (k in rules_dict) == old(k in rules_dict))",
                  "forall(lambda k, r=Seq(Int): implies(k in rules_dict, (r in rules_dict[k]) == old(r in rules_dict[k])))"],
         loops={0: dict(invariant=_IP_INV, modifies=_IP_MODS),
                1: dict(invariant=_IP_INV + ["forall(lambda j: implies(_i1 <= j and j < _n1, _keys1[j] in rdict))"], modifies=_IP_MODS),
                2: dict(invariant=_IP_INV + ["forall(lambda j: implies(_i1 < j and j < _n1, _keys1[j] in rdict))",
                                             "k in rdict and same(rdict[k], rule_set)",
                                             "forall(lambda j: implies(_i2 <= j and j < _n2, _keys2[j] in rule_set))"],
                        modifies=_IP_MODS)},
         ghost_stmts={"before:expr#3": ["assert rule in rule_set", "assert k in rdict and same(rdict[k], rule_set)"],
                      "before:expr#4": ["assert rule in rule_set", "assert k in rdict and same(rdict[k], rule_set)"]},
         modifies=_IP_MODS,     # coarse; that the INPUT is untouched is stated (and proved) as postconditions above
         notes="the input dictionary is deep-copied first; only the copy and the new objects change")
