"""Contracts for comb_spec_searcher/utils.py"""
from pyvc.dsl import *

F = "comb_spec_searcher/utils.py"

contract(F, "compositions", props=["C10", "C09", "C01"],
         params={"n": Int, "k": Int, "min_sizes": Seq(Int), "max_sizes": Seq(Opt(Int))},
         returns=Seq(Seq(Int)),
         requires=["len(min_sizes) == k", "len(max_sizes) == k"],
         yields=["len(it) == k",
                 "sum(it) == n",
                 "forall(lambda j: implies(0 <= j and j < k, min_sizes[j] <= it[j]))",
                 "forall(lambda j: implies(0 <= j and j < k, is_none(max_sizes[j]) or it[j] <= val(max_sizes[j])))"],
         decreases="k",
         notes="every yielded composition has k parts summing to n within the given bounds")
