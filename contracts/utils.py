"""Contracts for comb_spec_searcher/utils.py"""
from pyvc.dsl import *

F = "comb_spec_searcher/utils.py"

contract(F, "compositions", props=["C10", "C09", "C01"],
         params={"n": Int, "k": Int, "min_sizes": Seq(Int), "max_sizes": Seq(Opt(Int))},
         returns=Seq(Seq(Int)),
         requires=["len(min_sizes) == k", "len(max_sizes) == k"],
         yields=["len(it) == k",
                 "sum(it) == n",
                 "forall(lambda j: implies(0 <= j and j < k, min_sizes[j] <= it[j]))",
                 "forall(lambda j: implies(0 <= j and j < k, is_none(max_sizes[j]) or it[j] <= val(max_sizes[j])))"],
         decreases="k",
         complete={"var": "w", "type": Seq(Int),
                   "when": ["k >= 1", "len(w) == k", "sum(w) == n",
                            "forall(lambda j: implies(0 <= j and j < k, 0 <= min_sizes[j]))",
                            "forall(lambda j: implies(0 <= j and j < k, min_sizes[j] <= w[j]))",
                            "forall(lambda j: implies(0 <= j and j < k, is_none(max_sizes[j]) or w[j] <= val(max_sizes[j])))"],
                   "hints": {"yieldfrom#0": "w[1:]"},
                   "invariants": {0: ["found or w[0] >= min_sizes[0] + _i0"]},
                   "ghost_stmts": {"before:if#0": ["use lemma_sum_nonneg(w)", "use lemma_sum_ge(w, min_sizes)",
                                                   "when forall(lambda j: implies(0 <= j and j < k, not is_none(max_sizes[j]))): "
                                                   "use lemma_sum_ge(max_sizes, w)"],
                                   "before:loop#0": ["use lemma_sum_nonneg(w[1:])"]}},
         notes="sound (every yielded composition has k parts summing to n within the given bounds) and complete (every such "
               "composition with non-negative minimum sizes is yielded)")
