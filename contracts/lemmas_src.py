"""Lemma functions: ghost Python whose body is the induction; verified by pyvc like any other function."""


def lemma_sum_ge(t, m):
    # requires len(t) == len(m), forall j: m[j] <= t[j];  ensures sum(m) <= sum(t)
    if len(t) == 0:
        return
    lemma_sum_ge(t[1:], m[1:])


def lemma_part_bound(t, m, i):
    # requires len(t) == len(m), forall j: m[j] <= t[j], 0 <= i < len(t)
    # ensures t[i] - m[i] <= sum(t) - sum(m)
    if i == 0:
        lemma_sum_ge(t[1:], m[1:])
        return
    lemma_part_bound(t[1:], m[1:], i - 1)


def lemma_sum_drop(m, idx):
    # requires 0 <= idx < len(m);  ensures sum(m[:idx] + m[idx+1:]) == sum(m) - m[idx]
    if idx == 0:
        assert m[:idx] + m[idx + 1:] == m[1:]
        return
    lemma_sum_drop(m[1:], idx - 1)
    assert m[:idx] == (m[0],) + m[1:][: idx - 1]
    assert m[idx + 1:] == m[1:][idx:]
    rest = m[1:][: idx - 1] + m[1:][idx:]
    assert m[:idx] + m[idx + 1:] == (m[0],) + rest
    assert sum((m[0],) + rest) == m[0] + sum(rest)
    assert sum(m) == m[0] + sum(m[1:])


def lemma_quotient_link(mins, s, r, idx, pshift):
    # The discipline proved for Quotient (in terms of minimum sizes) is exactly "n - ReverseRule.shifts()[j]":
    # s = product shifts, r = reverse shifts as specified by the contracts of the two shifts() functions.
    return


def lemma_union_link(s, r, idx):
    # union shifts are all zero, hence so are the reverse (complement) shifts
    return


def lemma_flatten_roundtrip(start, ends):
    # the two one-line helpers of RecomputingDict, composed: _unflatten(_flatten(key)) == key
    from comb_spec_searcher.rule_db.forget import RecomputingDict
    flat = RecomputingDict._flatten((start, ends))
    back = RecomputingDict._unflatten(flat)
    return back[0] == start and back[1] == ends and len(flat) == len(ends) + 1


def lemma_sum_pointwise(a, b):
    # requires len(a) == len(b), forall i: a[i] == b[i];  ensures sum(a) == sum(b)
    if len(a) == 0:
        return
    lemma_sum_pointwise(a[1:], b[1:])


def lemma_sum_nonneg(t):
    # requires forall j: 0 <= t[j];  ensures 0 <= sum(t)
    if len(t) == 0:
        return
    lemma_sum_nonneg(t[1:])

