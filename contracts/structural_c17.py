"""C17 (pickled / interrupted searches resume faithfully): ownership, interruption-point and equality obligations."""
import ast
from pyvc.structural import structural

CSS = "comb_spec_searcher/comb_spec_searcher.py"
STATE_CLASSES = [
    (CSS, "CombinatorialSpecificationSearcher"), ("comb_spec_searcher/class_queue.py", "DefaultQueue"),
    ("comb_spec_searcher/class_db.py", "ClassDB"), ("comb_spec_searcher/class_db.py", "LabelToInfo"),
    ("comb_spec_searcher/class_db.py", "ClassToInfo"), ("comb_spec_searcher/rule_db/base.py", "RuleDBBase"),
    ("comb_spec_searcher/rule_db/base.py", "RuleDB"), ("comb_spec_searcher/rule_db/forget.py", "RuleDBForgetStrategy"),
    ("comb_spec_searcher/rule_db/forget.py", "RecomputingDict"), ("comb_spec_searcher/rule_db/forest.py", "RuleDBForest"),
    ("comb_spec_searcher/rule_db/forest.py", "TableMethod"), ("comb_spec_searcher/rule_db/forest.py", "Function"),
    ("comb_spec_searcher/rule_db/forest.py", "DefaultList"), ("comb_spec_searcher/equiv_db.py", "EquivalenceDB"),
]


@structural(["C17"], "state-classes/no-custom-pickling", "no state-holding class customises pickling or uses __slots__")
def _no_custom_pickling(src):
    bad = []
    for f, c in STATE_CLASSES:
        for n in src.cls(f, c).body:
            if isinstance(n, ast.FunctionDef) and n.name in ("__getstate__", "__setstate__", "__reduce__", "__reduce_ex__"):
                bad.append(f"{f}:{n.lineno} {c}.{n.name}")
            if isinstance(n, ast.Assign) and any(isinstance(t, ast.Name) and t.id == "__slots__" for t in n.targets):
                bad.append(f"{f}:{n.lineno} {c}.__slots__")
    return bad


SEARCH_FUNCS = ["_expand_classes_for", "_expand", "_inferral_expand", "_symmetry_expand", "try_verify", "add_rule",
                "do_level", "has_specification", "_auto_search_rules", "_expand_class_with_strategy"]
ALLOWED_SELF_FIELDS_NOTE = "stores go to locals or to attributes of self (picklable members)"


@structural(["C17"], "search-loop/stores-only-to-self-or-locals",
            "every store executed by the expansion functions targets a local or an attribute of self; no global/nonlocal")
def _stores(src):
    bad = []
    for name in SEARCH_FUNCS:
        fn = src.fn(CSS, f"CombinatorialSpecificationSearcher.{name}")
        for n in ast.walk(fn):
            if isinstance(n, (ast.Global, ast.Nonlocal)):
                bad.append(f"{CSS}:{n.lineno} {name}: {type(n).__name__.lower()} statement")
            if isinstance(n, ast.Attribute) and isinstance(n.ctx, (ast.Store, ast.Del)):
                base = n.value
                while isinstance(base, ast.Attribute):
                    base = base.value
                if not (isinstance(base, ast.Name) and base.id == "self"):
                    bad.append(f"{CSS}:{n.lineno} {name}: store to {ast.unparse(n)}")
    return bad


def _index_path(fn, pred):
    """(statement list, index) of the first statement satisfying pred, searching nested bodies."""
    def rec(stmts):
        for i, s in enumerate(stmts):
            if pred(s):
                return stmts, i
            for fld in ("body", "orelse", "handlers", "finalbody"):
                sub = getattr(s, fld, None)
                if sub:
                    r = rec([h for h in sub] if fld != "handlers" else [x for h in sub for x in h.body])
                    if r:
                        return r
        return None
    return rec(fn.body)


@structural(["C17"], "_expand_classes_for/time-check-after-completed-expansion",
            "the loop over work packets is left (break) only by the time test that FOLLOWS the completed self._expand(...) "
            "of the packet: a time-out never drops or half-processes a packet")
def _time_check(src):
    fn = src.fn(CSS, "CombinatorialSpecificationSearcher._expand_classes_for")
    loop = next((n for n in ast.walk(fn) if isinstance(n, ast.For)), None)
    if loop is None:
        return [f"{CSS}:{fn.lineno} no for loop over the queue"]
    bad = []
    breaks = [n for n in ast.walk(loop) if isinstance(n, ast.Break)]
    if len(breaks) != 1:
        bad.append(f"{CSS}:{loop.lineno} expected exactly one break, found {len(breaks)}")
    idx_expand = idx_break = None
    for i, s in enumerate(loop.body):
        if any(isinstance(x, ast.Call) and isinstance(x.func, ast.Attribute) and x.func.attr == "_expand" for x in ast.walk(s)):
            idx_expand = i if idx_expand is None else idx_expand
        if any(isinstance(x, ast.Break) for x in ast.walk(s)):
            idx_break = i
            if not (isinstance(s, ast.If) and "time.time()" in ast.unparse(s.test) and "expansion_time" in ast.unparse(s.test)):
                bad.append(f"{CSS}:{s.lineno} the break is not guarded by the expansion-time test")
    if idx_expand is None or idx_break is None or idx_break <= idx_expand:
        bad.append(f"{CSS}:{loop.lineno} the time test does not follow the self._expand(...) call inside the loop body")
    for n in ast.walk(loop):
        if isinstance(n, (ast.Return, ast.Raise)):
            bad.append(f"{CSS}:{n.lineno} return/raise inside the packet loop")
    return bad


@structural(["C17"], "_auto_search_rules/time-limit-only-between-slices",
            "ExceededMaxtimeError is raised only in the search loop, after _expand_classes_for returned and after the "
            "specification test; clock readings influence only these tests, the slice length and logging")
def _max_time(src):
    fn = src.fn(CSS, "CombinatorialSpecificationSearcher._auto_search_rules")
    loop = next((n for n in ast.walk(fn) if isinstance(n, ast.While)), None)
    if loop is None:
        return [f"{CSS}:{fn.lineno} no while loop"]
    bad = []
    order = {}
    for i, s in enumerate(loop.body):
        txt = ast.unparse(s)
        if "_expand_classes_for" in txt:
            order.setdefault("expand", i)
        if "has_specification" in txt:
            order.setdefault("test", i)
        if "ExceededMaxtimeError" in txt:
            order.setdefault("raise", i)
    if not ("expand" in order and "test" in order and "raise" in order and order["expand"] < order["test"] < order["raise"]):
        bad.append(f"{CSS}:{loop.lineno} order of expand / specification test / time-limit raise is {order}")
    for n in ast.walk(fn):
        if isinstance(n, ast.Raise) and "ExceededMaxtimeError" in ast.unparse(n):
            if not any(n is x for s in loop.body for x in ast.walk(s)):
                bad.append(f"{CSS}:{n.lineno} ExceededMaxtimeError raised outside the search loop")
    return bad


@structural(["C17"], "equality/compares-all-state",
            "searcher and queue compare their whole __dict__; ClassDB, EquivalenceDB, rule databases and the forest's table "
            "method define __eq__ (a restored copy can equal the original)")
def _eq(src):
    bad = []
    for f, c in [(CSS, "CombinatorialSpecificationSearcher"), ("comb_spec_searcher/class_queue.py", "DefaultQueue")]:
        eq = next((n for n in src.cls(f, c).body if isinstance(n, ast.FunctionDef) and n.name == "__eq__"), None)
        if eq is None or "__dict__" not in ast.unparse(eq):
            bad.append(f"{f} {c}.__eq__ does not compare __dict__")
    for f, c in [("comb_spec_searcher/class_db.py", "ClassDB"), ("comb_spec_searcher/equiv_db.py", "EquivalenceDB"),
                 ("comb_spec_searcher/rule_db/base.py", "RuleDBBase"), ("comb_spec_searcher/rule_db/forget.py", "RecomputingDict"),
                 ("comb_spec_searcher/rule_db/forest.py", "RuleDBForest"), ("comb_spec_searcher/rule_db/forest.py", "TableMethod"),
                 ("comb_spec_searcher/rule_db/forest.py", "Function"), ("comb_spec_searcher/rule_db/forest.py", "DefaultList")]:
        if not any(isinstance(n, ast.FunctionDef) and n.name == "__eq__" for n in src.cls(f, c).body):
            bad.append(f"{f} {c} defines no __eq__")
    return bad


@structural(["C17", "C05"], "RuleDBBase.add/cache-reset-first",
            "RuleDBBase.add drops the cached pruned dictionary before doing anything else")
def _cache_reset(src):
    fn = src.fn("comb_spec_searcher/rule_db/base.py", "RuleDBBase.add")
    first = next((s for s in fn.body if not (isinstance(s, ast.Expr) and isinstance(s.value, ast.Constant))), None)
    if first is None or ast.unparse(first).replace(" ", "") != "self._pruned_dict=None":
        return [f"comb_spec_searcher/rule_db/base.py:{fn.lineno} first statement of add is `{ast.unparse(first)[:60]}`"]
    return []
