"""Contracts for comb_spec_searcher/strategies/constructor/{cartesian,disjoint}.py."""
import z3
from pyvc.dsl import *
from pyvc.core import Val
from .common import CombClass, TermsT

FC = "comb_spec_searcher/strategies/constructor/cartesian.py"
FD = "comb_spec_searcher/strategies/constructor/disjoint.py"

klass(FC, "CartesianProduct", fields={}, properties=["min_sizes", "max_sizes"],
      ghost_fields={"g_children": Seq(CombClass)},
      invariant=[
          "len(self.min_child_sizes) == len(self.g_children)", "len(self.max_child_sizes) == len(self.g_children)",
          "forall(lambda i: implies(0 <= i and i < len(self.g_children), \"n\" in self.min_child_sizes[i] and "
          "self.min_child_sizes[i][\"n\"] == self.g_children[i].minimum_size_of_object()))",
          "forall(lambda i: implies(0 <= i and i < len(self.g_children), "
          "(\"n\" in self.max_child_sizes[i]) == self.g_children[i].is_atom() and "
          "implies(self.g_children[i].is_atom(), self.max_child_sizes[i][\"n\"] == self.g_children[i].minimum_size_of_object())))",
          ])
klass(FC, "Quotient", fields={"idx": Int, "number_of_children": Int, "_min_sizes": Seq(Int),
                              "_max_sizes": Seq(Opt(Int)), "_parent_shift": Int})
klass(FD, "DisjointUnion", fields={"number_of_children": Int, "zeroes": Seq(Set(Str))})
klass(FD, "Complement", fields={"idx": Int})


def _cp_min(ex, st, c):
    return Val(Seq(Int), z3.Function("cp_min_sizes", z3.IntSort(), z3.SeqSort(z3.IntSort()))(c.z))


def _cp_max(ex, st, c):
    t = Seq(Opt(Int))
    return Val(t, z3.Function("cp_max_sizes", z3.IntSort(), t.sort())(c.z))


spec_fn("cp_min_sizes", _cp_min)
spec_fn("cp_max_sizes", _cp_max)

# ghost field g_children: the children the constructor was built for (set by a ghost statement at the end of __init__)
_GMIN = "tuple(c.minimum_size_of_object() for c in self.g_children)"
contract(FC, "CartesianProduct.min_sizes", props=["C10", "C09"],
         params={"self": Obj("CartesianProduct")}, returns=Seq(Int),
         ensures=["len(result) == len(self.g_children)",
                  "forall(lambda i: implies(0 <= i and i < len(result), result[i] == self.g_children[i].minimum_size_of_object()))"],
         modifies=[])
contract(FC, "CartesianProduct.max_sizes", props=["C10", "C09"],
         params={"self": Obj("CartesianProduct")}, returns=Seq(Opt(Int)),
         ensures=["len(result) == len(self.g_children)",
                  "forall(lambda i: implies(0 <= i and i < len(result), result[i] == "
                  "ite(self.g_children[i].is_atom(), self.g_children[i].minimum_size_of_object(), None)))"],
         modifies=[])

contract(FC, "CartesianProduct.params_value_pairs_combinations", props=["C10"], inline=True, verify=False,
         trusted_reason="inlined into its callers (its real body is executed symbolically there)",
         params={})

_IDS = ["forall(lambda j: implies(0 <= j and j < len(subterms), subterms[j] == j))", "parent_terms == -1"]

_MS_G = "tuple(c.minimum_size_of_object() for c in self.g_children)"
_MS_CODE = 'last_result("CartesianProduct.min_sizes")'
contract(FC, "CartesianProduct.get_terms", props=["C10"], lenient=True,
         params={"self": Obj("CartesianProduct"), "parent_terms": Fun("terms"), "subterms": Seq(Fun("terms")), "n": Int},
         requires=_IDS + ["len(subterms) == len(self.g_children)"],
         pure_calls=["_new_param"],
         provider_requires={"terms": [
             "idx >= 0 and idx < len(subterms)",        # never the parent's own terms, only children
             # child i is asked only for sizes <= n - shifts()[i], where (CartesianProductStrategy.shifts)
             # shifts()[i] = sum of the children's minimum sizes - its own
             f"m <= n - (sum({_MS_G}) - self.g_children[idx].minimum_size_of_object())"]},
         provider_hints={"terms": [f"use lemma_part_bound(sizes, {_MS_CODE}, _ci)",
                                   f"use lemma_sum_pointwise({_MS_CODE}, {_MS_G})"]},
         notes="child i is asked only for sizes <= n - (sum of minimum sizes - its own) = n - shifts[i]")

contract(FD, "DisjointUnion.get_terms", props=["C10"], lenient=True,
         params={"self": Obj("DisjointUnion"), "parent_terms": Fun("terms"), "subterms": Seq(Fun("terms")), "n": Int},
         requires=_IDS,
         provider_requires={"terms": ["idx >= 0 and idx < len(subterms)", "m <= n"]},
         notes="union shifts are all 0: child i is asked only for size n; own terms never")

contract(FD, "Complement.get_terms", props=["C10"], lenient=True,
         params={"self": Obj("Complement"), "parent_terms": Fun("terms"), "subterms": Seq(Fun("terms")), "n": Int},
         requires=_IDS + ["len(subterms) >= 1"], asserts="assume",
         provider_requires={"terms": ["idx >= 0 and idx < len(subterms)", "m <= n"]},
         notes="complement (reverse of a union): shifts are all 0; every child incl. the original parent is read at n only")

# Quotient = reverse of a product with respect to child idx.  Providers: subterms[0] is the ORIGINAL parent,
# subterms[1:] the original children without idx, parent_terms (id -1) the counted child itself.
# With s_c = sum(min) - min[c] (product shifts) the reverse rule declares  -s_idx  for the original parent and
# s_c - s_idx = min[idx] - min[c]  for original child c.
_QINV = ["self.number_of_children == len(self._min_sizes)", "len(self._max_sizes) == len(self._min_sizes)",
         "0 <= self.idx", "self.idx < len(self._min_sizes)",
         "self._parent_shift == sum(self._min_sizes) - self._min_sizes[self.idx]"]

contract(FC, "Quotient._a", props=["C10"], lenient=True,
         params={"self": Obj("Quotient"), "n": Int, "parent_subterm": Fun("terms"), "children_subterms": Seq(Fun("terms"))},
         requires=_QINV + ["parent_subterm == 0", "len(children_subterms) == self.number_of_children",
                           "children_subterms[self.idx] == -1",
                           "forall(lambda j: implies(0 <= j and j < self.idx, children_subterms[j] == j + 1))",
                           "forall(lambda j: implies(self.idx < j and j < len(children_subterms), children_subterms[j] == j))"],
         pure_calls=["_new_param"],
         provider_requires={"terms": [
             "implies(idx == 0, m <= n + self._parent_shift)",                     # original parent: n - (-s_idx)
             "implies(idx == -1, m <= n - 1)",                                      # own earlier terms only
             "implies(idx >= 1 and idx <= self.idx, m <= n - (self._min_sizes[self.idx] - self._min_sizes[idx - 1]))",
             "implies(idx > self.idx, m <= n - (self._min_sizes[self.idx] - self._min_sizes[idx]))",
             "idx >= -1 and idx < self.number_of_children"]},
         provider_hints={"terms": ["use lemma_part_bound(sizes, self._min_sizes, _ci)"]}, asserts="assume",
         notes="a_n: parent at n+shift, counted child below n, siblings within their reverse shifts")

_QDISC = [
    "implies(idx == 0, m <= n + self._parent_shift)",
    "implies(idx == -1, m <= n - 1)",
    "implies(idx >= 1 and idx <= self.idx, m <= n - (self._min_sizes[self.idx] - self._min_sizes[idx - 1]))",
    "implies(idx > self.idx, m <= n - (self._min_sizes[self.idx] - self._min_sizes[idx]))",
    "idx >= -1 and idx < self.number_of_children"]
_QIDS = ["len(children_subterms) == self.number_of_children", "children_subterms[self.idx] == -1",
         "forall(lambda j: implies(0 <= j and j < self.idx, children_subterms[j] == j + 1))",
         "forall(lambda j: implies(self.idx < j and j < len(children_subterms), children_subterms[j] == j))"]

contract(FC, "Quotient._c", props=["C10"], lenient=True, asserts="assume",
         params={"self": Obj("Quotient"), "children_subterms": Seq(Fun("terms"))},
         requires=_QINV + _QIDS,
         pure_calls=["_other_new_param"],
         provider_requires={"terms": [
             "idx >= 1 and idx < self.number_of_children",
             "implies(idx <= self.idx, m <= self._min_sizes[idx - 1])",
             "implies(idx > self.idx, m <= self._min_sizes[idx])"]},
         provider_hints={"terms": [
             "use lemma_sum_drop(self._min_sizes, self.idx)",
             "use lemma_part_bound(sizes, self._min_sizes[:self.idx] + self._min_sizes[self.idx + 1:], _ci)"]},
         notes="c: the siblings at total size parent_shift, hence each at exactly its minimum size")

contract(FC, "Quotient._b", props=["C10"], lenient=True, asserts="assume",
         params={"self": Obj("Quotient"), "n": Int, "parent_subterm": Fun("terms"), "children_subterms": Seq(Fun("terms"))},
         requires=_QINV + _QIDS + ["parent_subterm == 0", "n >= self._min_sizes[self.idx]"],
         pure_calls=["_terms_to_poly", "_poly_to_terms"],
         provider_requires={"terms": _QDISC})

contract(FC, "Quotient.get_terms", props=["C10"], lenient=True, asserts="assume",
         params={"self": Obj("Quotient"), "parent_terms": Fun("terms"), "subterms": Seq(Fun("terms")), "n": Int},
         requires=_QINV + _IDS + ["len(subterms) == self.number_of_children"],
         pure_calls=["_parent_param_map"],
         provider_requires={"terms": _QDISC},
         notes="reverse of a product: provider j (j>=1) is original child j-1 (j<=idx) or j (j>idx); 0 the original parent")

# ------------------------------------------------------------------ C08: threshold walks (every randint outcome)
from .common import CombObj
provider("recs", args=[], arg_names=[], returns=Int, ensures=["result >= 0"])
provider("samplers", args=[], arg_names=[], returns=CombObj)

contract(FD, "DisjointUnion.random_sample_sub_objects", props=["C08"], lenient=True,
         params={"self": Obj("DisjointUnion"), "parent_count": Int, "subsamplers": Seq(Fun("samplers")),
                 "subrecs": Seq(Fun("recs")), "n": Int, "parameters": Dict(Str, Int)},
         returns=Seq(Opt(CombObj)),
         requires=["parent_count >= 1", "len(subsamplers) == len(subrecs)", "len(self.zeroes) == len(subrecs)",
                   "forall(lambda j: implies(0 <= j and j < len(subrecs), subrecs[j] == j and subsamplers[j] == j))"],
         pure_calls=["get_extra_parameters"],
         may_raise=["RuntimeError"],
         ensures=["len(result) == len(subrecs)",
                  # exactly one child is sampled, all other components are None
                  "exists(lambda i: 0 <= i and i < len(result) and not is_none(result[i]) and "
                  "forall(lambda j: implies(0 <= j and j < len(result) and j != i, is_none(result[j]))))"],
         provider_requires={
             # child idx is sampled only if the random threshold falls into its interval:
             # (sum of the weights of the children before it) < r <= (that sum + its own weight)
             "samplers": ["idx == _i0", 'last_arg("prov:recs", 0) == _i0', "random_choice <= total",
                          'random_choice > total - last_result("prov:recs")'],
             # a child that forces a parent parameter to zero is skipped when the requested value is not zero
             "recs": ["idx == _i0", "random_choice > total",
                      "forall(lambda k=Str: implies(k in parameters and parameters[k] != 0, not (k in self.zeroes[idx])))"]},
         loops={0: dict(invariant=["random_choice > total", "total >= 0"], modifies=[],
                        ghost_end=[])},
         notes="for every outcome r of randint(1, parent_count)")

contract(FC, "CartesianProduct.random_sample_sub_objects", props=["C08"], lenient=True, asserts="assume",
         params={"self": Obj("CartesianProduct"), "parent_count": Int, "subsamplers": Seq(Fun("samplers")),
                 "subrecs": Seq(Fun("recs")), "n": Int},
         returns=Seq(CombObj),
         requires=["parent_count >= 1", "len(subsamplers) == len(subrecs)",
                   "forall(lambda j: implies(0 <= j and j < len(subrecs), subrecs[j] == j and subsamplers[j] == j))"],
         pure_calls=["get_extra_parameters", "_valid_compositions"],
         may_raise=["RuntimeError"],
         provider_requires={
             # the samplers run only for the composition whose interval contains the threshold:
             # (weights of earlier compositions) < r <= (that sum + product of the children's counts)
             "samplers": ["random_choice <= total", "random_choice > total - tmp", "idx == _ci"],
             "recs": ["random_choice > total", "idx == _i1"]},
         loops={0: dict(invariant=["random_choice > total", "total >= 0"], modifies=[]),
                # the weight of a composition is the product of the children's counts (ghost product gp, starting from 1)
                1: dict(ghost_before=["gp = 1"], ghost_end=['gp = gp * last_result("prov:recs")'],
                        invariant=["tmp >= 0", "random_choice > total", "total >= 0", "tmp == gp"], modifies=[])},
         notes="for every outcome r of randint(1, parent_count)")

# ------------------------------------------------------------------ C09: parameter maps (pure integer functions)
FBASE = "comb_spec_searcher/strategies/constructor/base.py"
_PM_REQ = ["len(child_pos_to_parent_pos) == len(param)", "num_parent_params >= 0",
           "forall(lambda pos, j: implies(0 <= pos and pos < len(param) and 0 <= j and j < len(child_pos_to_parent_pos[pos]), "
           "0 <= child_pos_to_parent_pos[pos][j] and child_pos_to_parent_pos[pos][j] < num_parent_params))"]
# by construction (extra_parameters is a dictionary parent -> child) every parent position is listed at most once
_PM_UNIQ = ("forall(lambda p1, j1, p2, j2: implies(0 <= p1 and p1 < len(param) and 0 <= j1 and j1 < len(child_pos_to_parent_pos[p1]) "
            "and 0 <= p2 and p2 < len(param) and 0 <= j2 and j2 < len(child_pos_to_parent_pos[p2]) and "
            "child_pos_to_parent_pos[p1][j1] == child_pos_to_parent_pos[p2][j2], p1 == p2 and j1 == j2))")
_HIT = "child_pos_to_parent_pos[{pos}][{j}]"


def _pm_loops(value_of):
    """Loop invariants shared by the three param_map variants; value_of(x) wraps the stored value (Optional or not)."""
    done_rows = ("forall(lambda q, j: implies(0 <= q and q < _i0 and 0 <= j and j < len(child_pos_to_parent_pos[q]), "
                 + value_of("new_params[child_pos_to_parent_pos[q][j]]", "param[q]") + "))")
    untouched0 = ("forall(lambda p: implies(0 <= p and p < num_parent_params and "
                  "forall(lambda q, j: implies(0 <= q and q < _i0 and 0 <= j and j < len(child_pos_to_parent_pos[q]), "
                  "child_pos_to_parent_pos[q][j] != p)), UNTOUCHED))")
    cur_row = ("forall(lambda j: implies(0 <= j and j < _i1, " + value_of("new_params[parent_pos[j]]", "value") + "))")
    untouched1 = ("forall(lambda p: implies(0 <= p and p < num_parent_params and "
                  "forall(lambda q, j: implies(0 <= q and q < _i0 and 0 <= j and j < len(child_pos_to_parent_pos[q]), "
                  "child_pos_to_parent_pos[q][j] != p)) and forall(lambda j: implies(0 <= j and j < _i1, parent_pos[j] != p)), UNTOUCHED))")
    return done_rows, untouched0, cur_row, untouched1


def _param_map_contract(file, qual, value_of, untouched, post_untouched, optional, props):
    done_rows, untouched0, cur_row, untouched1 = _pm_loops(value_of)
    inv_len = "len(new_params) == num_parent_params"
    contract(file, qual, props=props,
             params={"child_pos_to_parent_pos": Seq(Seq(Int)), "num_parent_params": Int, "param": Seq(Int)},
             returns=Seq(Int), locals={"new_params": List(Opt(Int)) if optional else List(Int)},
             requires=_PM_REQ + [_PM_UNIQ],
             ensures=["len(result) == num_parent_params",
                      "forall(lambda pos, j: implies(0 <= pos and pos < len(param) and 0 <= j and "
                      "j < len(child_pos_to_parent_pos[pos]), result[child_pos_to_parent_pos[pos][j]] == param[pos]))",
                      "forall(lambda p: implies(0 <= p and p < num_parent_params and "
                      "forall(lambda q, j: implies(0 <= q and q < len(param) and 0 <= j and j < len(child_pos_to_parent_pos[q]), "
                      "child_pos_to_parent_pos[q][j] != p)), " + post_untouched + "))"],
             loops={0: dict(invariant=[inv_len, done_rows, untouched0.replace("UNTOUCHED", untouched)], modifies=["*new_params"]),
                    1: dict(invariant=[inv_len, "parent_pos == child_pos_to_parent_pos[_i0]", "value == param[_i0]",
                                       done_rows, cur_row, untouched1.replace("UNTOUCHED", untouched)],
                            modifies=["*new_params"])},
             modifies=[],
             notes="parent position p receives the value of the child position mapped to it; unmapped positions get 0")


_param_map_contract(FBASE, "Constructor.param_map", lambda x, v: f"{x} == {v}", "new_params[p] == 0", "result[p] == 0",
                    False, ["C09"])
_param_map_contract(FD, "DisjointUnion.param_map", lambda x, v: f"(not is_none({x}) and val({x}) == {v})",
                    "is_none(new_params[p])", "result[p] == 0", True, ["C09"])

# ------------------------------------------------------------------ C07: sub-object enumeration of unions
ObjList = List(Opt(CombObj))
provider("objects", args=[Int], arg_names=["m"], returns=Opaque("Any"))
_NONE_LIST = "(len({l}) == 1 and is_none({l}[0]))"

contract(FD, "DisjointUnion.get_sub_objects", props=["C07"], lenient=True,
         aliases={"Any": Opaque("Any"), "CombObj": CombObj},
         params={"self": Obj("DisjointUnion"), "subobjs": Seq(Fun("objects")), "n": Int},
         returns=Seq(Tup(Opaque("Any"), Seq(ObjList))), locals={"res": List(ObjList)},
         requires=["self.number_of_children == len(subobjs)", "forall(lambda j: implies(0 <= j and j < len(subobjs), subobjs[j] == j))"],
         yields=["len(it[1]) == self.number_of_children",
                 # only the component of the child being enumerated carries objects; every other one is [None]
                 "forall(lambda j: implies(0 <= j and j < len(it[1]) and j != i, " + _NONE_LIST.format(l="it[1][j]") + "))"],
         provider_requires={"objects": ["idx == i", "m == n"]},
         loops={0: dict(invariant=["len(res) == self.number_of_children",
                                   "forall(lambda j: implies(0 <= j and j < len(res), " + _NONE_LIST.format(l="res[j]") + "))"],
                        modifies=["*res", "all:List(Opt(CombObj))"]),
                1: dict(invariant=["len(res) == self.number_of_children",
                                   "forall(lambda j: implies(0 <= j and j < len(res) and j != i, " + _NONE_LIST.format(l="res[j]") + "))"],
                        modifies=["*res"])},
         modifies=["all:List(List(Opt(CombObj)))", "all:List(Opt(CombObj))"],
         notes="each yielded tuple puts the objects of exactly one child at that child's position")

# ------------------------------------------------------------------ constructors establish what get_terms relies on
_MS = "tuple(c.minimum_size_of_object() for c in children)"
contract(FC, "Quotient.__init__", props=["C10"], lenient=True,
         params={"self": Obj("Quotient"), "parent": CombClass, "children": Seq(CombClass), "idx": Int},
         requires=["0 <= idx", "idx < len(children)"],
         pure_calls=["_build_parent_param_map"], self_invariant=False,
         ensures=_QINV + [
             "self.idx == idx", "len(self._min_sizes) == len(children)",
             "forall(lambda i: implies(0 <= i and i < len(children), self._min_sizes[i] == children[i].minimum_size_of_object()))",
             "forall(lambda i: implies(0 <= i and i < len(children), self._max_sizes[i] == "
             "ite(children[i].is_atom(), children[i].minimum_size_of_object(), None)))"],
         modifies=["*self"],
         notes="the fields the reverse-product discipline is stated over are the children's minimum sizes (atoms: also "
               "maximum), and _parent_shift is the product shift of the counted child")

REG.classes["CartesianProduct"].fields.update({"min_child_sizes": Seq(Dict(Str, Int)), "max_child_sizes": Seq(Dict(Str, Int)),
                                               "parent_parameters": Seq(Str)})
opaque_method("CombClass", "get_minimum_value", Int, args=[Str])
_CP_INV = ["len(self.min_child_sizes) == len(children)", "len(self.max_child_sizes) == len(children)",
           "forall(lambda i: implies(0 <= i and i < len(children), \"n\" in self.min_child_sizes[i] and "
           "self.min_child_sizes[i][\"n\"] == children[i].minimum_size_of_object()))",
           "forall(lambda i: implies(0 <= i and i < len(children), (\"n\" in self.max_child_sizes[i]) == children[i].is_atom() "
           "and implies(children[i].is_atom(), self.max_child_sizes[i][\"n\"] == children[i].minimum_size_of_object())))"]
contract(FC, "CartesianProduct.__init__", props=["C10", "C09"], lenient=True,
         params={"self": Obj("CartesianProduct"), "parent": CombClass, "children": Seq(CombClass)},
         requires=["forall(lambda j: implies(0 <= j and j < len(parent.extra_parameters), parent.extra_parameters[j] != \"n\"))"],
         pure_calls=["_build_children_param_map"], self_invariant=False,
         ghost_stmts={"exit": ["self.g_children = children"]},
         ensures=_CP_INV + ["self.g_children == children"],
         loops={0: dict(invariant=["True"]),
                1: dict(invariant=_CP_INV, modifies=["all:Dict(Str, Int)"]),
                2: dict(invariant=_CP_INV, modifies=["all:Dict(Str, Int)"])},
         modifies=["*self", "all:Dict(Str, Int)"],
         notes="\"n\" is reserved: the size entries of the per-child dictionaries are the children's minimum sizes "
               "(and, for atoms only, their maximum)")

# ------------------------------------------------------------------ DisjointUnion.__init__ (C09/C08/C01): maps stored, zero sets
REG.classes["DisjointUnion"].fields.update({"extra_parameters": Seq(Dict(Str, Str)), "fixed_values": Seq(Dict(Str, Int))})
contract(FD, "DisjointUnion.__init__", props=["C09", "C01", "C07", "C08"], lenient=True,
         params={"self": Obj("DisjointUnion"), "parent": CombClass, "children": Seq(CombClass),
                 "extra_parameters": Opt(Seq(Dict(Str, Str))), "fixed_values": Opt(Seq(Dict(Str, Int)))},
         pure_calls=["_build_children_param_maps"],
         may_raise=["AssertionError"], asserts="raise",
         ensures=["self.number_of_children == len(children)",
                  "implies(not is_none(extra_parameters), self.extra_parameters == val(extra_parameters))",
                  "implies(not is_none(fixed_values), self.fixed_values == val(fixed_values))",
                  "len(self.extra_parameters) == len(children)",
                  # zeroes[i]: the parent parameters that child i does not track (they must be 0 on that child)
                  "len(self.zeroes) == len(children)",
                  "forall(lambda i, p=Str: implies(0 <= i and i < len(children), (p in self.zeroes[i]) == "
                  "((p in parent.extra_parameters) and not (p in self.extra_parameters[i]))))"],
         modifies=["*self", "all:Set(Str)", "all:Dict(Str, Str)", "all:Dict(Str, Int)"], self_invariant=False,
         notes="a parent parameter no parameter of child i maps from is forced to zero on that child")
