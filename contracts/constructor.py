"""Contracts for comb_spec_searcher/strategies/constructor/{cartesian,disjoint}.py."""
import z3
from pyvc.dsl import *
from pyvc.core import Val
from .common import CombClass, TermsT

FC = "comb_spec_searcher/strategies/constructor/cartesian.py"
FD = "comb_spec_searcher/strategies/constructor/disjoint.py"

klass(FC, "CartesianProduct", fields={}, properties=["min_sizes", "max_sizes"])
klass(FC, "Quotient", fields={"idx": Int, "number_of_children": Int, "_min_sizes": Seq(Int),
                              "_max_sizes": Seq(Opt(Int)), "_parent_shift": Int})
klass(FD, "DisjointUnion", fields={"number_of_children": Int})
klass(FD, "Complement", fields={"idx": Int})


def _cp_min(ex, st, c):
    return Val(Seq(Int), z3.Function("cp_min_sizes", z3.IntSort(), z3.SeqSort(z3.IntSort()))(c.z))


def _cp_max(ex, st, c):
    t = Seq(Opt(Int))
    return Val(t, z3.Function("cp_max_sizes", z3.IntSort(), t.sort())(c.z))


spec_fn("cp_min_sizes", _cp_min)
spec_fn("cp_max_sizes", _cp_max)

_TRUST = ("min_child_sizes/max_child_sizes are tuples of string-keyed dictionaries built in __init__; the getter is "
          "not verified (dictionary displays inside comprehensions are outside the subset). Assumed: a deterministic "
          "tuple per constructor; that entry i equals children[i].minimum_size_of_object() is checked by the bounded "
          "provider-trace monitor, not proved")
contract(FC, "CartesianProduct.min_sizes", props=["C10", "C09"], verify=False, trusted_reason=_TRUST,
         params={"self": Obj("CartesianProduct")}, returns=Seq(Int), ensures=["result == cp_min_sizes(self)"])
contract(FC, "CartesianProduct.max_sizes", props=["C10", "C09"], verify=False, trusted_reason=_TRUST,
         params={"self": Obj("CartesianProduct")}, returns=Seq(Opt(Int)), ensures=["result == cp_max_sizes(self)"])

contract(FC, "CartesianProduct.params_value_pairs_combinations", props=["C10"], inline=True, verify=False,
         trusted_reason="inlined into its callers (its real body is executed symbolically there)",
         params={})

_IDS = ["forall(lambda j: implies(0 <= j and j < len(subterms), subterms[j] == j))", "parent_terms == -1"]

contract(FC, "CartesianProduct.get_terms", props=["C10"], lenient=True,
         params={"self": Obj("CartesianProduct"), "parent_terms": Fun("terms"), "subterms": Seq(Fun("terms")), "n": Int},
         requires=_IDS + ["len(subterms) == len(cp_min_sizes(self))", "len(cp_max_sizes(self)) == len(subterms)"],
         pure_calls=["_new_param"],
         provider_requires={"terms": [
             "idx >= 0 and idx < len(subterms)",        # never the parent's own terms, only children
             "m <= n - (sum(cp_min_sizes(self)) - cp_min_sizes(self)[idx])"]},
         provider_hints={"terms": ["use lemma_part_bound(sizes, cp_min_sizes(self), _ci)"]},
         notes="child i is asked only for sizes <= n - (sum of minimum sizes - its own) = n - shifts[i]")

contract(FD, "DisjointUnion.get_terms", props=["C10"], lenient=True,
         params={"self": Obj("DisjointUnion"), "parent_terms": Fun("terms"), "subterms": Seq(Fun("terms")), "n": Int},
         requires=_IDS,
         provider_requires={"terms": ["idx >= 0 and idx < len(subterms)", "m <= n"]},
         notes="union shifts are all 0: child i is asked only for size n; own terms never")

contract(FD, "Complement.get_terms", props=["C10"], lenient=True,
         params={"self": Obj("Complement"), "parent_terms": Fun("terms"), "subterms": Seq(Fun("terms")), "n": Int},
         requires=_IDS + ["len(subterms) >= 1"], asserts="assume",
         provider_requires={"terms": ["idx >= 0 and idx < len(subterms)", "m <= n"]},
         notes="complement (reverse of a union): shifts are all 0; every child incl. the original parent is read at n only")

# Quotient = reverse of a product with respect to child idx.  Providers: subterms[0] is the ORIGINAL parent,
# subterms[1:] the original children without idx, parent_terms (id -1) the counted child itself.
# With s_c = sum(min) - min[c] (product shifts) the reverse rule declares  -s_idx  for the original parent and
# s_c - s_idx = min[idx] - min[c]  for original child c.
_QINV = ["self.number_of_children == len(self._min_sizes)", "len(self._max_sizes) == len(self._min_sizes)",
         "0 <= self.idx", "self.idx < len(self._min_sizes)",
         "self._parent_shift == sum(self._min_sizes) - self._min_sizes[self.idx]"]

contract(FC, "Quotient._a", props=["C10"], lenient=True,
         params={"self": Obj("Quotient"), "n": Int, "parent_subterm": Fun("terms"), "children_subterms": Seq(Fun("terms"))},
         requires=_QINV + ["parent_subterm == 0", "len(children_subterms) == self.number_of_children",
                           "children_subterms[self.idx] == -1",
                           "forall(lambda j: implies(0 <= j and j < self.idx, children_subterms[j] == j + 1))",
                           "forall(lambda j: implies(self.idx < j and j < len(children_subterms), children_subterms[j] == j))"],
         pure_calls=["_new_param"],
         provider_requires={"terms": [
             "implies(idx == 0, m <= n + self._parent_shift)",                     # original parent: n - (-s_idx)
             "implies(idx == -1, m <= n - 1)",                                      # own earlier terms only
             "implies(idx >= 1 and idx <= self.idx, m <= n - (self._min_sizes[self.idx] - self._min_sizes[idx - 1]))",
             "implies(idx > self.idx, m <= n - (self._min_sizes[self.idx] - self._min_sizes[idx]))",
             "idx >= -1 and idx < self.number_of_children"]},
         provider_hints={"terms": ["use lemma_part_bound(sizes, self._min_sizes, _ci)"]}, asserts="assume",
         notes="a_n: parent at n+shift, counted child below n, siblings within their reverse shifts")

_QDISC = [
    "implies(idx == 0, m <= n + self._parent_shift)",
    "implies(idx == -1, m <= n - 1)",
    "implies(idx >= 1 and idx <= self.idx, m <= n - (self._min_sizes[self.idx] - self._min_sizes[idx - 1]))",
    "implies(idx > self.idx, m <= n - (self._min_sizes[self.idx] - self._min_sizes[idx]))",
    "idx >= -1 and idx < self.number_of_children"]
_QIDS = ["len(children_subterms) == self.number_of_children", "children_subterms[self.idx] == -1",
         "forall(lambda j: implies(0 <= j and j < self.idx, children_subterms[j] == j + 1))",
         "forall(lambda j: implies(self.idx < j and j < len(children_subterms), children_subterms[j] == j))"]

contract(FC, "Quotient._c", props=["C10"], lenient=True, asserts="assume",
         params={"self": Obj("Quotient"), "children_subterms": Seq(Fun("terms"))},
         requires=_QINV + _QIDS,
         pure_calls=["_other_new_param"],
         provider_requires={"terms": [
             "idx >= 1 and idx < self.number_of_children",
             "implies(idx <= self.idx, m <= self._min_sizes[idx - 1])",
             "implies(idx > self.idx, m <= self._min_sizes[idx])"]},
         provider_hints={"terms": [
             "use lemma_sum_drop(self._min_sizes, self.idx)",
             "use lemma_part_bound(sizes, self._min_sizes[:self.idx] + self._min_sizes[self.idx + 1:], _ci)"]},
         notes="c: the siblings at total size parent_shift, hence each at exactly its minimum size")

contract(FC, "Quotient._b", props=["C10"], lenient=True, asserts="assume",
         params={"self": Obj("Quotient"), "n": Int, "parent_subterm": Fun("terms"), "children_subterms": Seq(Fun("terms"))},
         requires=_QINV + _QIDS + ["parent_subterm == 0", "n >= self._min_sizes[self.idx]"],
         pure_calls=["_terms_to_poly", "_poly_to_terms"],
         provider_requires={"terms": _QDISC})

contract(FC, "Quotient.get_terms", props=["C10"], lenient=True, asserts="assume",
         params={"self": Obj("Quotient"), "parent_terms": Fun("terms"), "subterms": Seq(Fun("terms")), "n": Int},
         requires=_QINV + _IDS + ["len(subterms) == self.number_of_children"],
         pure_calls=["_parent_param_map"],
         provider_requires={"terms": _QDISC},
         notes="reverse of a product: provider j (j>=1) is original child j-1 (j<=idx) or j (j>idx); 0 the original parent")
