"""Contracts for comb_spec_searcher/bijection.py (property C13): the specification is built for the start label."""
from pyvc.dsl import *
from .common import CombClass
from . import searcher, rule_db, extractor  # noqa: F401
from .searcher import RuleIter

F = "comb_spec_searcher/bijection.py"
FX = "comb_spec_searcher/specification_extrator.py"
Node = Obj("Node")
klass("comb_spec_searcher/tree_searcher.py", "Node", fields={"label": Int})
klass(F, "ParallelInfo", fields={"searcher": Obj("CombinatorialSpecificationSearcher"), "ruledb": Obj("RuleDB"),
                                 "root_eq_label": Int, "root_class": CombClass})
REG.classes["CombinatorialSpecificationSearcher"].fields.update({"start_label": Int})

contract(FX, "SpecificationRuleExtractor.__init__", props=["C13", "C02"], verify=False,
         trusted_reason="constructor summary; its parts (_populate_*, _check) are covered under C02",
         params={"self": Obj("SpecificationRuleExtractor"), "root_label": Int, "root_node": Node, "ruledb": Obj("RuleDBBase"),
                 "classdb": Obj("ClassDB")}, may_raise=["AssertionError", "KeyError"], modifies=["*self"], self_invariant=False)
contract(FX, "SpecificationRuleExtractor.rules", props=["C13", "C02"], verify=False,
         trusted_reason="generator over the extracted rules; content covered under C02 and by the bounded stand-in",
         params={"self": Obj("SpecificationRuleExtractor")}, returns=RuleIter, self_invariant=False)
contract(F, "ParallelSpecFinder._create_tree", props=["C13"], verify=False,
         trusted_reason="tree construction from the label map (bounded stand-in); only the root label is used here",
         params={"d": Dict(Int, Seq(Int)), "root_eq_label": Int}, returns=Node, ensures=["result.label == root_eq_label"])

contract(F, "ParallelSpecFinder._create_spec", props=["C13"],
         params={"d": Dict(Int, Seq(Int)), "pi": Obj("ParallelInfo")}, returns=Obj("CombinatorialSpecification"),
         may_raise=["AssertionError", "KeyError"],
         call_requires={
             # the extractor is rooted at the START LABEL (whose class is pi.root_class), while the tree is rooted at the
             # representative of its equivalence class -- exactly as RuleDBBase.get_specification_rules does
             "SpecificationRuleExtractor.__init__": ["root_label == pi.searcher.start_label", "same(ruledb, pi.ruledb)",
                                                     "same(classdb, pi.searcher.classdb)",
                                                     'same(root_node, last_result("ParallelSpecFinder._create_tree"))'],
             "ParallelSpecFinder._create_tree": ["root_eq_label == pi.root_eq_label", "same(d, at_entry_d)"],
             "CombinatorialSpecification.__init__": ["root == pi.root_class",
                                                     'rules == last_result("SpecificationRuleExtractor.rules")']},
         ghost={"at_entry_d": Dict(Int, Seq(Int))}, requires=["same(at_entry_d, d)"],
         ensures=["result.root == pi.root_class"],
         modifies=["all:Obj('SpecificationRuleExtractor')", "all:Obj('CombinatorialSpecification')"],
         notes="start classes that are not their own representative get a specification rooted at the start class")

# ---- EqPathParallelSpecFinder._eq_path_matches: two equivalence paths match only if they have the same number of
# non-equivalence steps and the steps match pairwise (a path that is a proper prefix of the other does NOT match)
FRX = "comb_spec_searcher/specification_extrator.py"
SpecMap = Dict(Int, Seq(Int))
PathKey = Tup(Seq(Int), Seq(Int))
PairKey = Tup(Int, Int)
EqCache = DefaultDict(PairKey, DefaultDict(PairKey, Dict(PathKey, Bool)))
REG.classes["ParallelInfo"].fields.update({})
klass(F, "EqPathParallelSpecFinder", fields={"_pi1": Obj("ParallelInfo"), "_pi2": Obj("ParallelInfo")})
import z3 as _z3
from pyvc.core import Val as _Val


def _rule_match(ex, st, a, b):
    return _Val(Bool, _z3.Function("rule_match", _z3.IntSort(), _z3.IntSort(), _z3.BoolSort())(a.z, b.z))


spec_fn("rule_match", _rule_match)
contract(F, "EqPathParallelSpecFinder._rule_match", source="ParallelSpecFinder._rule_match", props=["C13"], verify=False,
         trusted_reason="comparison of two rules (strategy classes, constructors, parameter maps): a deterministic relation "
                        "on rules, checked by the bounded stand-in",
         params={"self": Obj("EqPathParallelSpecFinder"), "rule1": Obj("Rule"), "rule2": Obj("Rule")}, returns=Bool,
         ensures=["result == rule_match(rule1, rule2)"], modifies=[])
contract(FRX, "EquivalenceRuleExtractor.__init__", props=["C13"], verify=False,
         trusted_reason="constructor summary (rule extraction along one equivalence path): covered under C02 and bounded",
         params={"self": Obj("EquivalenceRuleExtractor"), "root_label": Int, "start_label": Int, "root_node": Node,
                 "ruledb": Obj("RuleDBBase"), "classdb": Obj("ClassDB"), "eq_label": Int, "parent_eq_label": Int, "idx": Int},
         may_raise=["AssertionError", "KeyError"], modifies=["*self"], self_invariant=False)
contract(FRX, "EquivalenceRuleExtractor.nonequivalent_rules_in_equiv_path", props=["C13"], verify=False,
         trusted_reason="the non-equivalence rules along the path, in order (bounded stand-in)",
         params={"self": Obj("EquivalenceRuleExtractor")}, returns=Seq(Obj("Rule")), modifies=[], self_invariant=False)
klass(FRX, "EquivalenceRuleExtractor", fields={})

contract(F, "EqPathParallelSpecFinder._create_tree", source="ParallelSpecFinder._create_tree", props=["C13"], verify=False,
         trusted_reason="inherited static method (same summary as ParallelSpecFinder._create_tree)",
         params={"d": Dict(Int, Seq(Int)), "root_eq_label": Int}, returns=Node, ensures=["result.label == root_eq_label"])
_KEY = "cache[(id1, id2)][(pid1, pid2)]"
contract(F, "EqPathParallelSpecFinder._eq_path_matches", props=["C13"],
         params={"self": Obj("EqPathParallelSpecFinder"), "id1": Int, "id2": Int, "pid1": Int, "pid2": Int, "idx1": Int,
                 "idx2": Int, "sp1": SpecMap, "sp2": SpecMap, "cache": EqCache},
         returns=Bool, requires=["id1 in sp1", "id2 in sp2"],
         may_raise=["AssertionError", "KeyError"],
         ghost_stmts={"after:assign#4": [
             "assert implies(len(path1) != len(path2), not children_cache[children])",
             "assert implies(len(path1) == len(path2), children_cache[children] == forall(lambda i: implies(0 <= i and "
             "i < len(path1), rule_match(path1[i], path2[i]))))"]},
         ensures=["result == " + _KEY + "[(sp1[id1], sp2[id2])]"],
         modifies=["*cache", "all:DefaultDict(Tup(Int, Int), Dict(Tup(Seq(Int), Seq(Int)), Bool))",
                   "all:Dict(Tup(Seq(Int), Seq(Int)), Bool)", "all:Obj('EquivalenceRuleExtractor')"],
         notes="the cached verdict for a pair of paths is: same length AND pairwise matching steps")
