"""Contracts for comb_spec_searcher/bijection.py (property C13): the specification is built for the start label."""
from pyvc.dsl import *
from .common import CombClass
from . import searcher, rule_db, extractor  # noqa: F401
from .searcher import RuleIter

F = "comb_spec_searcher/bijection.py"
FX = "comb_spec_searcher/specification_extrator.py"
Node = Obj("Node")
klass("comb_spec_searcher/tree_searcher.py", "Node", fields={"label": Int})
klass(F, "ParallelInfo", fields={"searcher": Obj("CombinatorialSpecificationSearcher"), "ruledb": Obj("RuleDB"),
                                 "root_eq_label": Int, "root_class": CombClass})
REG.classes["CombinatorialSpecificationSearcher"].fields.update({"start_label": Int})

contract(FX, "SpecificationRuleExtractor.__init__", props=["C13", "C02"], verify=False,
         trusted_reason="constructor summary; its parts (_populate_*, _check) are covered under C02",
         params={"self": Obj("SpecificationRuleExtractor"), "root_label": Int, "root_node": Node, "ruledb": Obj("RuleDBBase"),
                 "classdb": Obj("ClassDB")}, may_raise=["AssertionError", "KeyError"], modifies=["*self"], self_invariant=False)
contract(FX, "SpecificationRuleExtractor.rules", props=["C13", "C02"], verify=False,
         trusted_reason="generator over the extracted rules; content covered under C02 and by the bounded stand-in",
         params={"self": Obj("SpecificationRuleExtractor")}, returns=RuleIter, self_invariant=False)
contract(F, "ParallelSpecFinder._create_tree", props=["C13"], verify=False,
         trusted_reason="tree construction from the label map (bounded stand-in); only the root label is used here",
         params={"d": Dict(Int, Seq(Int)), "root_eq_label": Int}, returns=Node, ensures=["result.label == root_eq_label"])

contract(F, "ParallelSpecFinder._create_spec", props=["C13"],
         params={"d": Dict(Int, Seq(Int)), "pi": Obj("ParallelInfo")}, returns=Obj("CombinatorialSpecification"),
         may_raise=["AssertionError", "KeyError"],
         call_requires={
             # the extractor is rooted at the START LABEL (whose class is pi.root_class), while the tree is rooted at the
             # representative of its equivalence class -- exactly as RuleDBBase.get_specification_rules does
             "SpecificationRuleExtractor.__init__": ["root_label == pi.searcher.start_label", "same(ruledb, pi.ruledb)",
                                                     "same(classdb, pi.searcher.classdb)",
                                                     'same(root_node, last_result("ParallelSpecFinder._create_tree"))'],
             "ParallelSpecFinder._create_tree": ["root_eq_label == pi.root_eq_label", "same(d, at_entry_d)"],
             "CombinatorialSpecification.__init__": ["root == pi.root_class",
                                                     'rules == last_result("SpecificationRuleExtractor.rules")']},
         ghost={"at_entry_d": Dict(Int, Seq(Int))}, requires=["same(at_entry_d, d)"],
         ensures=["result.root == pi.root_class"],
         modifies=["all:Obj('SpecificationRuleExtractor')", "all:Obj('CombinatorialSpecification')"],
         notes="start classes that are not their own representative get a specification rooted at the start class")
