"""Contracts for comb_spec_searcher/class_db.py (property C15; also used by C04/C14).

Abstract view of a ClassDB: L = comb_class_list (stored keys), E = empty_list, D = label_dict.
Keys are `compress(c)` for a class c: zlib.compress(c.to_bytes()) or c itself -- an uninterpreted function that is
injective up to class equality and inverted by `decompress` (assumptions A2/A3).  truth(c) is the class's own,
deterministic is_empty() answer (A2).
"""
import z3
from pyvc.dsl import *
from pyvc.core import Val
from .common import CombClass

F = "comb_spec_searcher/class_db.py"
ClassKey = Opaque("ClassKey")
Info = Tup(ClassKey, Int, Opt(Bool), names=["comb_class", "label", "empty"], nm="Info")
named_tuple("Info", Info)
AL = {"ClassKey": ClassKey, "CombClass": CombClass, "Info": Info}

_compress_f = None


def _fns():
    comp = z3.Function("compress", CombClass.sort(), ClassKey.sort())
    dec = z3.Function("decompress", ClassKey.sort(), CombClass.sort())
    return comp, dec


def _compress(ex, st, c):
    comp, dec = _fns()
    r = comp(c.z)
    # from_bytes(decompress(compress(to_bytes(c)))) == c   (A2/A3); implies injectivity.  Stated for every class (a closed
    # axiom), so that it is available under quantifiers too
    x = z3.Const("cx", c.z.sort())
    st.assume(z3.ForAll([x], dec(comp(x)) == x, patterns=[comp(x)]))
    st.assume(dec(r) == c.z) if not (getattr(ex, "_cur_bound_ids", None)) else None
    return Val(ClassKey, r)


def _decompress(ex, st, k):
    comp, dec = _fns()
    return Val(CombClass, dec(k.z))


def _truth(ex, st, c):
    return Val(Bool, z3.Function("meth_CombClass_is_empty", CombClass.sort(), z3.BoolSort())(c.z))


spec_fn("compress", _compress)
spec_fn("decompress", _decompress)
spec_fn("truth", _truth)

_fields3 = {"comb_class_list": List(ClassKey), "label_dict": Dict(ClassKey, Int), "empty_list": List(Opt(Bool))}

# representation invariant shared by the three classes (they hold the same three containers)
_WF = [
    "len(self.comb_class_list) == len(self.empty_list)",
    "forall(lambda i: implies(0 <= i and i < len(self.comb_class_list), self.comb_class_list[i] in self.label_dict "
    "and self.label_dict[self.comb_class_list[i]] == i))",
    "forall(lambda k=ClassKey: implies(k in self.label_dict, 0 <= self.label_dict[k] and "
    "self.label_dict[k] < len(self.comb_class_list) and self.comb_class_list[self.label_dict[k]] == k))",
    # every stored key is the compressed form of the class it decompresses to
    "forall(lambda i: implies(0 <= i and i < len(self.comb_class_list), "
    "compress(decompress(self.comb_class_list[i])) == self.comb_class_list[i]))",
    # cached emptiness is the class's own answer
    "forall(lambda i: implies(0 <= i and i < len(self.empty_list), is_none(self.empty_list[i]) or "
    "val(self.empty_list[i]) == truth(decompress(self.comb_class_list[i]))))",
]

klass(F, "LabelToInfo", fields=_fields3, invariant=_WF)
klass(F, "ClassToInfo", fields=_fields3, invariant=_WF)
klass(F, "ClassDB",
      fields=dict(_fields3, class_to_info=Obj("ClassToInfo"), label_to_info=Obj("LabelToInfo"),
                  _empty_time=Int, _empty_num_application=Int),
      invariant=_WF + [
          "same(self.class_to_info.comb_class_list, self.comb_class_list)",
          "same(self.class_to_info.label_dict, self.label_dict)",
          "same(self.class_to_info.empty_list, self.empty_list)",
          "same(self.label_to_info.comb_class_list, self.comb_class_list)",
          "same(self.label_to_info.label_dict, self.label_dict)",
          "same(self.label_to_info.empty_list, self.empty_list)"])

_INFO_AT = ("not is_none(result) and val(result).comb_class == self.comb_class_list[{l}] and val(result).label == {l} "
            "and val(result).empty == self.empty_list[{l}]")

contract(F, "LabelToInfo.__getitem__", props=["C15"], aliases=AL,
         params={"self": Obj("LabelToInfo"), "label": Int}, returns=Opt(Info),
         ensures=["implies(0 <= label and label < len(self.comb_class_list), " + _INFO_AT.format(l="label") + ")",
                  "implies(label < 0 or label >= len(self.comb_class_list), is_none(result))"],
         notes="total: a label outside 0..len-1 is unknown (None), never an exception, never another class")

contract(F, "LabelToInfo.__len__", props=["C15"], aliases=AL,
         params={"self": Obj("LabelToInfo")}, returns=Int, ensures=["result == len(self.empty_list)"])

contract(F, "LabelToInfo.__iter__", props=["C15"], aliases=AL,
         params={"self": Obj("LabelToInfo")}, returns=Seq(Int),
         yields=["0 <= it and it < len(self.comb_class_list)"],
         notes="yields stored labels only (that every label is yielded exactly once is bounded, not proved)")

contract(F, "ClassToInfo.__getitem__", props=["C15"], aliases=AL,
         params={"self": Obj("ClassToInfo"), "class_key": ClassKey}, returns=Opt(Info),
         ensures=["implies(class_key in self.label_dict, " + _INFO_AT.format(l="self.label_dict[class_key]") + ")",
                  "implies(not (class_key in self.label_dict), is_none(result))"])

contract(F, "ClassToInfo.__len__", props=["C15"], aliases=AL,
         params={"self": Obj("ClassToInfo")}, returns=Int, ensures=["result == len(self.empty_list)"])

contract(F, "ClassToInfo.__contains__", props=["C15"], aliases=AL,
         params={"self": Obj("ClassToInfo"), "class_key": ClassKey}, returns=Bool,
         ensures=["result == (class_key in self.label_dict)"])

# ---- trusted: compression (zlib + user to_bytes/from_bytes) and the class's own emptiness test
contract(F, "ClassDB._compress", props=["C15"], verify=False, aliases=AL,
         trusted_reason="zlib.compress(key.to_bytes()) or the class itself: deterministic and inverted by _decompress (A2, A3)",
         params={"self": Obj("ClassDB"), "key": CombClass}, returns=ClassKey, ensures=["result == compress(key)"])
contract(F, "ClassDB._decompress", props=["C15"], verify=False, aliases=AL,
         trusted_reason="from_bytes(zlib.decompress(key)) or the class itself (A2, A3)",
         params={"self": Obj("ClassDB"), "key": ClassKey}, returns=CombClass, ensures=["result == decompress(key)"])

_VIEW_UNCHANGED = ["len(self.comb_class_list) == old(len(self.comb_class_list))",
                   "forall(lambda i: implies(0 <= i and i < len(self.comb_class_list), "
                   "self.comb_class_list[i] == old(self.comb_class_list[i])))"]
_E_UNCHANGED = ["forall(lambda i: implies(0 <= i and i < old(len(self.empty_list)), "
                "self.empty_list[i] == old(self.empty_list[i])))"]
_MODS = ["*self.comb_class_list", "*self.label_dict", "*self.empty_list"]
_IS = {"self.combinatorial_class": "CombClass"}

_ADD_POST = [
    # a known key changes nothing; a new one is appended with the next dense label and unknown emptiness
    "implies(old({k} in self.label_dict), len(self.comb_class_list) == old(len(self.comb_class_list)))",
    "implies(not old({k} in self.label_dict), len(self.comb_class_list) == old(len(self.comb_class_list)) + 1 and "
    "self.comb_class_list[old(len(self.comb_class_list))] == {k} and "
    "is_none(self.empty_list[old(len(self.empty_list))]))",
    "forall(lambda i: implies(0 <= i and i < old(len(self.comb_class_list)), "
    "self.comb_class_list[i] == old(self.comb_class_list[i])))",          # existing labels never change
    "{k} in self.label_dict",
] + _E_UNCHANGED

contract(F, "ClassDB.add", props=["C15"], aliases=AL, isinstance_map=_IS,
         params={"self": Obj("ClassDB"), "compressed": Bool}, modifies=_MODS,
         variants=[
             {"name": "class", "params": {"comb_class": CombClass}, "requires": ["not compressed"],
              "ensures": [p.format(k="compress(comb_class)") for p in _ADD_POST]},
             {"name": "key", "params": {"comb_class": ClassKey},
              "requires": ["compressed", "compress(decompress(comb_class)) == comb_class"],
              "ensures": [p.format(k="comb_class") for p in _ADD_POST]},
             {"name": "key-uncompressed-flag", "params": {"comb_class": ClassKey}, "requires": ["not compressed"],
              "raises": [("TypeError", "True")]},
         ])

_INFO_KEY = ("result.comb_class == self.comb_class_list[result.label] and 0 <= result.label and "
             "result.label < len(self.comb_class_list) and result.empty == self.empty_list[result.label]")

contract(F, "ClassDB._get_info", props=["C15"], aliases=AL, isinstance_map=_IS, returns=Info,
         params={"self": Obj("ClassDB")}, modifies=_MODS,
         variants=[
             {"name": "class", "params": {"key": CombClass},
              "ensures": [_INFO_KEY, "result.comb_class == compress(key)"]
              + [p.format(k="compress(key)") for p in _ADD_POST]},
             {"name": "label", "params": {"key": Int},
              "raises": [("KeyError", "key < 0 or key >= len(self.comb_class_list)")],
              "ensures": [_INFO_KEY, "result.label == key"] + _VIEW_UNCHANGED + _E_UNCHANGED},
             {"name": "other", "params": {"key": Opaque("OtherKey")}, "raises": [("TypeError", "True")]},
         ])

contract(F, "ClassDB.get_label", props=["C15"], aliases=AL, isinstance_map=_IS, returns=Int,
         params={"self": Obj("ClassDB")}, modifies=_MODS,
         variants=[
             {"name": "class", "params": {"key": CombClass},
              "ensures": ["0 <= result and result < len(self.comb_class_list)",
                          "self.comb_class_list[result] == compress(key)",
                          # idempotent & stable: a known class keeps its label and nothing changes
                          "implies(old(compress(key) in self.label_dict), result == old(self.label_dict[compress(key)]))",
                          # dense, in order of first appearance
                          "implies(not old(compress(key) in self.label_dict), result == old(len(self.comb_class_list)))"]
              + [p.format(k="compress(key)") for p in _ADD_POST]},
             {"name": "label", "params": {"key": Int},
              "raises": [("KeyError", "key < 0 or key >= len(self.comb_class_list)")],
              "ensures": ["result == key"] + _VIEW_UNCHANGED + _E_UNCHANGED},
             {"name": "other", "params": {"key": Opaque("OtherKey")}, "raises": [("TypeError", "True")]},
         ])

contract(F, "ClassDB.get_class", props=["C15"], aliases=AL, isinstance_map=_IS, returns=CombClass,
         params={"self": Obj("ClassDB")}, modifies=_MODS,
         variants=[
             {"name": "class", "params": {"key": CombClass},
              "ensures": ["result == key"] + [p.format(k="compress(key)") for p in _ADD_POST]},
             {"name": "label", "params": {"key": Int},
              "raises": [("KeyError", "key < 0 or key >= len(self.comb_class_list)")],
              "ensures": ["result == decompress(old(self.comb_class_list[key]))"] + _VIEW_UNCHANGED + _E_UNCHANGED},
             {"name": "other", "params": {"key": Opaque("OtherKey")}, "raises": [("TypeError", "True")]},
         ])

contract(F, "ClassDB.__contains__", props=["C15"], aliases=AL, isinstance_map=_IS, returns=Bool,
         params={"self": Obj("ClassDB")}, modifies=[],
         variants=[
             {"name": "class", "params": {"key": CombClass},
              "ensures": ["result == (compress(key) in self.label_dict)"]},
             {"name": "label", "params": {"key": Int},
              "ensures": ["result == (0 <= key and key < len(self.comb_class_list))"]},
             {"name": "other", "params": {"key": Opaque("OtherKey")}, "raises": [("ValueError", "True")]},
         ],
         notes="membership is total: True for stored classes and labels 0..len-1, False otherwise, no other exception")

contract(F, "ClassDB._is_empty", props=["C15"], aliases=AL, isinstance_map=_IS, lenient=True, returns=Bool,
         may_raise=["UserCodeError"],
         params={"self": Obj("ClassDB"), "comb_class": CombClass},
         ensures=["result == truth(comb_class)"] + _VIEW_UNCHANGED + _E_UNCHANGED,
         modifies=["self._empty_time", "self._empty_num_application"])

contract(F, "ClassDB.set_empty", props=["C15"], aliases=AL, isinstance_map=_IS,
         params={"self": Obj("ClassDB"), "empty": Bool}, modifies=_MODS,
         variants=[
             {"name": "label", "params": {"key": Int},
              "requires": ["implies(0 <= key and key < len(self.comb_class_list), "
                           "empty == truth(decompress(self.comb_class_list[key])))"],
              "raises": [("KeyError", "key < 0 or key >= len(self.comb_class_list)")],
              "ensures": _VIEW_UNCHANGED + [
                  "self.empty_list[key] == empty",
                  "forall(lambda i: implies(0 <= i and i < len(self.empty_list) and i != key, "
                  "self.empty_list[i] == old(self.empty_list[i])))"]},
         ],
         notes="requires the caller to pass the class's true emptiness (call-site obligation), so the cache invariant holds")

contract(F, "ClassDB.is_empty", props=["C15"], aliases=AL, isinstance_map=_IS, returns=Bool,
         may_raise=["UserCodeError"],
         params={"self": Obj("ClassDB"), "comb_class": CombClass, "label": Opt(Int)},
         requires=["implies(not is_none(label), 0 <= val(label) and val(label) < len(self.comb_class_list) and "
                   "self.comb_class_list[val(label)] == compress(comb_class))"],
         raises=[("KeyError", "is_none(label) and not (compress(comb_class) in self.label_dict)")],
         ensures=["result == truth(comb_class)"] + _VIEW_UNCHANGED + [
             # afterwards the answer is cached under the class's label; other entries are untouched
             "not is_none(self.empty_list[self.label_dict[compress(comb_class)]])",
             "forall(lambda i: implies(0 <= i and i < len(self.empty_list) and i != self.label_dict[compress(comb_class)], "
             "self.empty_list[i] == old(self.empty_list[i])))"],
         modifies=_MODS + ["self._empty_time", "self._empty_num_application"],
         notes="label=None requires the class to be labelled already (KeyError otherwise): the precondition C14's caller violated")

contract(F, "ClassDB.__iter__", props=["C15"], aliases=AL,
         params={"self": Obj("ClassDB")}, returns=Seq(Int),
         yields=["0 <= it and it < len(self.comb_class_list)"])
