"""C06 bounded stand-in: equivalence classes of EquivalenceDB are exactly the strongly connected components.

Real code under contract (never re-implemented): ``comb_spec_searcher.equiv_db.EquivalenceDB`` (``add_two_way_edge``,
``add_one_way_edge``, ``set_verified``, ``connect_cycles``, ``equivalent``, ``is_verified``, ``find_path``,
``__getitem__``).

Contracts (deal) on sidecar wrappers; the model (recorded directed edges, marked labels) is kept by the driver on the
database object and never read from the database's own fields:

* ``connect_cycles()``  -- afterwards, for ALL labels x, y of the universe:
    equivalent(x, y)  ==  x and y are mutually reachable along recorded edges (Floyd-Warshall; a two-way edge counts in
                          both directions, a one-way edge only forward);
    is_verified(x)    ==  some label of x's strongly connected component was marked verified (before or after merges);
    db[x] is a member of x's component, db[db[x]] == db[x], db[x] == db[y] iff same component.
* ``find_path(x, y)``   -- when x, y are mutually reachable: the result starts at x, ends at y and every step is a
                          recorded edge; otherwise KeyError.  (Queried for all pairs after every cycle detection.)

Histories: sequences of operations from {add_two_way_edge(a,b), add_one_way_edge(a,b), set_verified(a),
connect_cycles()}; the query block runs after every connect_cycles() of the history and once more after a final
connect_cycles() appended to every history.
"""
import contextlib
import itertools
import multiprocessing
import random
from collections import Counter

import deal

import comb_spec_searcher.equiv_db as equiv_db

NPROC = 16
COUNTS = Counter()
_LAST = {}


def _note(check, what):
    _LAST.setdefault("check", check)
    _LAST.setdefault("what", what)
    return False


# --------------------------------------------------------------------------------------------------------------
# Oracle
# --------------------------------------------------------------------------------------------------------------


class Model:
    def __init__(self, universe):
        self.universe = list(universe)
        self.edges = set()
        self.marked = set()
        self._cache = None

    def apply(self, op):
        if op[0] == "tw":
            if op[1] != op[2]:
                self.edges.add((op[1], op[2]))
                self.edges.add((op[2], op[1]))
        elif op[0] == "ow":
            if op[1] != op[2]:
                self.edges.add((op[1], op[2]))
        elif op[0] == "ver":
            self.marked.add(op[1])

    def reach(self):
        if self._cache is not None and self._cache[0] == len(self.edges):  # edges only grow
            return self._cache[1]
        r = self._reach()
        self._cache = (len(self.edges), r)
        return r

    def _reach(self):
        u = self.universe
        r = {a: {b: a == b for b in u} for a in u}
        for a, b in self.edges:
            r[a][b] = True
        for k in u:
            rk = r[k]
            for a in u:
                ra = r[a]
                if ra[k]:
                    for b in u:
                        if rk[b]:
                            ra[b] = True
        return r


def _post_cc(db):
    model = getattr(db, "_h_model", None)
    if model is None:
        return True
    COUNTS["connect_cycles"] += 1
    u = model.universe
    r = model.reach()
    comp = {x: frozenset(y for y in u if r[x][y] and r[y][x]) for x in u}
    for x in u:
        for y in u:
            exp = y in comp[x]
            got = db.equivalent(x, y)
            if got != exp:
                return _note("equivalent-vs-scc", f"equivalent({x},{y}) = {got}, mutual reachability {exp}; edges {sorted(model.edges)}")
    for x in u:
        exp = bool(comp[x] & model.marked)
        got = db.is_verified(x)
        if got != exp:
            return _note("verified-vs-scc", f"is_verified({x}) = {got}, component {sorted(comp[x])}, marked {sorted(model.marked)}")
    for x in u:
        rep = db[x]
        if rep not in comp[x]:
            return _note("representative-in-component", f"db[{x}] = {rep} not in component {sorted(comp[x])}")
        if db[rep] != rep:
            return _note("representative-idempotent", f"db[{x}] = {rep} but db[{rep}] = {db[rep]}")
        for y in u:
            if (db[y] == rep) != (y in comp[x]):
                return _note("representative-vs-scc", f"db[{x}] = {rep}, db[{y}] = {db[y]}, same component: {y in comp[x]}")
    return True


def _query_paths(db):
    """Driver side of the query block: find_path for all pairs (its own contract judges result or KeyError)."""
    u = db._h_model.universe
    for x in u:
        for y in u:
            try:
                db.find_path(x, y)
            except KeyError:
                pass


def _post_find_path(db, x, y, result, raised):
    model = getattr(db, "_h_model", None)
    if model is None:
        return True
    COUNTS["find_path"] += 1
    r = model.reach()
    eq = r[x][y] and r[y][x]
    if raised is not None:
        if eq or not isinstance(raised, KeyError):
            return _note("find_path-raises", f"find_path({x},{y}) raised {type(raised).__name__}, mutually reachable: {eq}")
        return True
    if not eq:
        return _note("find_path-not-equivalent", f"find_path({x},{y}) = {result} although not mutually reachable")
    path = tuple(result)
    if not path or path[0] != x or path[-1] != y:
        return _note("find_path-endpoints", f"find_path({x},{y}) = {path}; edges {sorted(model.edges)}")
    for a, b in zip(path, path[1:]):
        if (a, b) not in model.edges:
            return _note("find_path-follows-edges", f"find_path({x},{y}) = {path} uses ({a},{b}); edges {sorted(model.edges)}")
    return True


_real = {}


@contextlib.contextmanager
def installed():
    E = equiv_db.EquivalenceDB
    _real["connect_cycles"], _real["find_path"] = E.connect_cycles, E.find_path

    @deal.ensure(lambda self, result: _post_cc(self))
    def connect_cycles(self):
        return _real["connect_cycles"](self)

    @deal.ensure(lambda self, comb_class, other_comb_class, result: _post_find_path(self, comb_class, other_comb_class, result[0], result[1]))
    def _find_path(self, comb_class, other_comb_class):
        try:
            return _real["find_path"](self, comb_class, other_comb_class), None
        except Exception as e:  # judged by the contract
            return None, e

    def find_path(self, comb_class, other_comb_class):
        res, exc = _find_path(self, comb_class, other_comb_class)
        if exc is not None:
            raise exc
        return res

    E.connect_cycles, E.find_path = connect_cycles, find_path
    try:
        yield
    finally:
        E.connect_cycles, E.find_path = _real["connect_cycles"], _real["find_path"]


# --------------------------------------------------------------------------------------------------------------
# Histories
# --------------------------------------------------------------------------------------------------------------


def run_history(ops, nlabels):
    """Returns (violation or None, nontrivial)."""
    _LAST.clear()
    db = equiv_db.EquivalenceDB()
    model = Model(range(nlabels))
    db._h_model = model
    step = -1
    try:
        for step, op in enumerate(ops):
            model.apply(op)
            if op[0] == "tw":
                db.add_two_way_edge(op[1], op[2])
            elif op[0] == "ow":
                db.add_one_way_edge(op[1], op[2])
            elif op[0] == "ver":
                db.set_verified(op[1])
            else:
                db.connect_cycles()
                _query_paths(db)
        step = len(ops)
        db.connect_cycles()
        _query_paths(db)
    except deal.ContractError:
        return {"check": _LAST.get("check", "contract"), "what": _LAST.get("what", "contract failed"),
                "witness": {"ops": [list(o) for o in ops], "labels": nlabels, "step": step}}, True
    except Exception as e:
        return {"check": "exception", "what": f"{type(e).__name__}: {e}",
                "witness": {"ops": [list(o) for o in ops], "labels": nlabels, "step": step}}, True
    return None, _nontrivial(ops, model)


def _nontrivial(ops, model):
    """A component of size >= 2 that two-way edges alone do not explain, or a marked label in a merged component."""
    two = Model(model.universe)
    for op in ops:
        if op[0] == "tw":
            two.apply(op)
    r, r2 = model.reach(), two.reach()
    for x in model.universe:
        for y in model.universe:
            if x < y and r[x][y] and r[y][x]:
                if not r2[x][y] or x in model.marked or y in model.marked:
                    return True
    return False


def all_ops(nlabels, self_loops):
    ops = []
    for a in range(nlabels):
        for b in range(nlabels):
            if self_loops == "one-orientation":
                if a != b:
                    ops.append(("ow", a, b))
                    if a < b:
                        ops.append(("tw", a, b))
            elif a != b or self_loops:
                ops.append(("tw", a, b))
                ops.append(("ow", a, b))
    ops += [("ver", a) for a in range(nlabels)]
    ops.append(("cc",))
    return ops


def _worker(task):
    kind = task[0]
    COUNTS.clear()
    viols, evals, nontriv, samples = [], 0, 0, []
    with installed():
        if kind == "exh":
            _, nlabels, self_loops, length, shard, nshards = task
            ops = all_ops(nlabels, self_loops)
            # the first two operations select the shard; the rest is enumerated in full
            heads = list(itertools.product(ops, repeat=min(2, length)))
            for hi, head in enumerate(heads):
                if hi % nshards != shard:
                    continue
                for tail in itertools.product(ops, repeat=length - len(head)):
                    h = head + tail
                    v, nt = run_history(h, nlabels)
                    evals += 1
                    nontriv += nt
                    if v is not None and len(viols) < 8:
                        viols.append(v)
                    if nt and not samples and evals % 5 == 0:
                        samples.append({"labels": nlabels, "ops": [list(o) for o in h]})
        else:
            _, nlabels, maxlen, n, seed = task
            rng = random.Random(seed)
            ops = all_ops(nlabels, True)
            weights = [1.0 if o[0] == "tw" else 3.0 if o[0] == "ow" else 1.5 if o[0] == "ver" else 8.0 for o in ops]
            seen = set()
            for _ in range(n):
                h = tuple(rng.choices(ops, weights, k=rng.randint(3, maxlen)))
                if h in seen:
                    continue
                seen.add(h)
                v, nt = run_history(h, nlabels)
                evals += 1
                nontriv += nt
                if v is not None and len(viols) < 8:
                    viols.append(v)
                if nt and not samples:
                    samples.append({"labels": nlabels, "ops": [list(o) for o in h]})
    return {"viols": viols, "evals": evals, "nontriv": nontriv, "counts": dict(COUNTS), "samples": samples}


def run(tier, seed):
    tasks = []
    if tier == "quick":
        tasks += [("exh", 3, False, 5, s, 64) for s in range(64)]
        tasks += [("exh", 4, False, 4, s, 64) for s in range(64)]
        tasks += [("exh", 3, True, 4, s, 16) for s in range(16)]
        for L in (1, 2, 3, 4):
            tasks.append(("exh", 3, False, L, 0, 1))
        for L in (1, 2, 3):
            tasks.append(("exh", 4, False, L, 0, 1))
            tasks.append(("exh", 3, True, L, 0, 1))
        tasks += [("rnd", 5, 10, 1500, seed * 1000 + i) for i in range(32)]
        bound = ("EXHAUSTIVE: every history of <=5 operations over 3 labels and of <=4 operations over 4 labels from "
                 "{add_two_way_edge(a,b), add_one_way_edge(a,b) for ordered a!=b, set_verified(a), connect_cycles()}; every "
                 "history of <=4 operations over 3 labels including the self-loop edges (a,a); SEEDED: 48000 histories of "
                 "3..10 operations over 5 labels (self loops included, cycle detections and one-way edges favoured). Full "
                 "query block (all pairs) after every connect_cycles() and after a final one")
    else:
        tasks += [("exh", 3, False, 6, s, 256) for s in range(256)]
        tasks += [("exh", 4, "one-orientation", 5, s, 529) for s in range(529)]
        tasks += [("exh", 4, False, 4, s, 64) for s in range(64)]
        tasks += [("exh", 3, True, 4, s, 16) for s in range(16)]
        tasks += [("exh", 3, False, 5, s, 64) for s in range(64)]
        tasks += [("exh", 3, False, 4, s, 8) for s in range(8)]
        for L in (1, 2, 3):
            tasks.append(("exh", 3, False, L, 0, 1))
            tasks.append(("exh", 4, False, L, 0, 1))
            tasks.append(("exh", 3, True, L, 0, 1))
        tasks += [("rnd", 5, 10, 5000, seed * 1000 + i) for i in range(64)]
        tasks += [("rnd", 6, 14, 1500, seed * 1000 + 500 + i) for i in range(64)]
        bound = ("EXHAUSTIVE: every history of <=6 operations over 3 labels and of <=4 operations over 4 labels from "
                 "{add_two_way_edge(a,b), add_one_way_edge(a,b) for ordered a!=b, set_verified(a), connect_cycles()}; every "
                 "history of exactly 5 operations over 4 labels with two-way edges given in one orientation (a<b) only; every "
                 "history of <=4 operations over 3 labels including the self-loop edges (a,a); SEEDED: 320000 histories of "
                 "3..10 operations over 5 labels and 96000 of 3..14 operations over 6 labels. Full query block (all pairs) "
                 "after every connect_cycles() and after a final one")
    ctx = multiprocessing.get_context("fork")
    with ctx.Pool(NPROC) as pool:
        results = pool.map(_worker, tasks, chunksize=1)
    counts = Counter()
    viols, evals, nontriv, samples = [], 0, 0, []
    for r in results:
        counts.update(r["counts"])
        viols.extend(r["viols"])
        evals += r["evals"]
        nontriv += r["nontriv"]
        samples.extend(r["samples"])
    viols.sort(key=lambda v: (v["check"], len(v["witness"]["ops"]), v["witness"]["labels"], str(v["witness"])))
    out, per = [], Counter()
    for v in viols:
        if per[v["check"]] < 3:
            per[v["check"]] += 1
            out.append(v)
    return {
        "bound": bound,
        "evaluations": evals,
        "distinct_nontrivial": nontriv,
        "rule": ("evaluation = one history (ordered operation sequence) replayed on a fresh EquivalenceDB; histories are "
                 "enumerated without repetition (seeded ones deduplicated per worker); non-trivial = the final graph has a "
                 "component of >=2 labels that needs a one-way edge, or a marked label inside a merged component"),
        "exhaustive": False,
        "contracts_evaluated": dict(counts),
        "samples": samples[:2] + samples[len(samples) // 2: len(samples) // 2 + 2] + samples[-2:],
        "violations": out[:20],
    }


def replay(violation):
    w = violation["witness"]
    COUNTS.clear()
    with installed():
        v, _ = run_history([tuple(o) for o in w["ops"]], w["labels"])
    return v is not None
