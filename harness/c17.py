"""C17 bounded stand-in: a search pickled or interrupted at any point resumes faithfully.

Real code under contract (never re-implemented): ``CombinatorialSpecificationSearcher`` (``_expand_classes_for``,
``auto_search``, ``__eq__``), ``DefaultQueue``, ``ClassDB``, the three rule databases, and ``pickle`` on all of them.
The clock read by ``comb_spec_searcher.comb_spec_searcher`` is replaced (harness process only) by a scripted one, so
that a time slice ends after exactly the wanted work packet and ``ExceededMaxtimeError`` is raised at exactly the
wanted reading; the random choices of ``tree_searcher`` come from a seeded generator.

(i) crash point = pickle.  For every rule-database flavour, pack, start class and EVERY prefix length k <= K of the
work-packet sequence (K = the whole drain of the queue when it has <= KMAX packets, KMAX otherwise): a fresh
searcher expands exactly k packets (``_expand_classes_for`` under a clock whose (k+1)-th reading ends the slice);
contract (deal ``ensure``) on the sidecar ``roundtrip(searcher) = pickle.loads(pickle.dumps(searcher))``:

  restored-state             independent structural comparison: classes per label, emptiness, queue content, the
                             three 'already done' sets, rule keys (both stores / forest table and its function),
                             verified labels, ``has_specification()``;
  restored-equals-original   ``restored == searcher`` (the library's own ``__eq__``), asked on an identically built
                             twin searcher and its copy;
  equality-is-pure           evaluating ``==`` leaves both class databases (classes per label, emptiness) unchanged;
  equality-is-stable         asking again gives the same answer (the comparison must not make the two differ);
  slicing-independent        a third searcher that handles the same k packets in k calls of ``_expand_classes_for`` (one
                             packet per call, nothing else in between) has handed out the same packets and is in the
                             same structural state: stopping between two packets and calling again "continues from
                             where it stopped" (whether a packet is expanded may depend on the state of the search at
                             that moment only, not on where the calls were cut);
then BOTH are driven by the same further calls (slices of 1, 2, 3, 5, 8, ... packets until the queue is drained or
CONT packets were expanded) and after each slice
  same-work                  the streams of work packets handed out by the two queues are equal;
  same-universe              the structural state is equal again;
and finally ``auto_search()`` is called on both:
  same-answer                both return a specification or both raise SpecificationNotFound;
  final-specification        each returned specification has brute-force counts / terms for n <= 6 and is closed.

(ii) crash point = time limit.  ``auto_search(max_expansion_time=1)`` under a clock that jumps past the limit at its
k-th reading, for every k <= K+6 (so the search is interrupted before its first packet, after each packet, and not at
all), then called again according to three split plans (same k again and again / one packet per call / no limit)
until something other than ExceededMaxtimeError comes back.  Contract (deal) on the sidecar ``resume``:

  only-documented-exceptions the calls raise nothing but ExceededMaxtimeError / SpecificationNotFound;
  no-packet-twice            over the whole series no work packet (label, strategies, inferral) is handed out twice;
  interrupted-outcome        a specification comes back iff an uninterrupted reference search finds one;
  final-specification        as above.

Packs: those of the universe and two local ones with SEVERAL packets per label in a row whose first can change the
status of the label: "stale-verified" (inferral strategy RemoveRedundantPatterns with ignore_parent=False, then the
initial strategy; a verification strategy that refuses classes with a redundant pattern, so that the inferral packet
makes the class equivalent to a verified class) and "two-initial" (two different initial strategies with ignore_parent=False,
the first can complete a specification of the class -- "pumping" for the forest database).
"""
import contextlib
import multiprocessing
import pickle
import random
import sys
import zlib
from collections import Counter

import deal

import comb_spec_searcher.class_queue as class_queue
import comb_spec_searcher.tree_searcher as tree_searcher
from comb_spec_searcher import CombinatorialSpecificationSearcher, StrategyPack
from comb_spec_searcher.exception import ExceededMaxtimeError, SpecificationNotFound
from comb_spec_searcher.rule_db import RuleDBForest
from comb_spec_searcher.rule_db.base import RuleDBBase
from comb_spec_searcher.strategies.rule import EquivalencePathRule
from harness.universe import PACKS as UNIVERSE_PACKS
from harness.universe import (
    RULEDBS,
    Av,
    AvBytes,
    ExpansionDropStat,
    ExpansionStrategy,
    LongPrefixVerified,
    RemoveFrontOfPrefix,
    RemoveRedundantPatterns,
    StatAtomStrategy,
    brute_objects,
    class_from_repr,
    pack_applicable,
    silence,
    spec_check,
)

NPROC = 16
NMAX = 6
COUNTS = Counter()
_LAST = {}
_real = {}
_PACKETS = {}  # id(queue) -> (queue, [packets handed out])
SEED = [0]
CSS_MODULE = sys.modules[CombinatorialSpecificationSearcher.__module__]
BIG = 2.0  # the clock jumps from 0 to BIG seconds; max_expansion_time is 1
SLICES = (1, 2, 3, 5, 8, 13, 21, 34)


def _note(check, what):
    _LAST.setdefault("notes", []).append((check, what))
    return False


# --------------------------------------------------------------------------------------------------------------
# local packs: several work packets per label in a row, the first of which can change the status of the label
# --------------------------------------------------------------------------------------------------------------


class MinimalLongPrefixVerified(LongPrefixVerified):
    """LongPrefixVerified that refuses classes with a redundant pattern (a pattern containing another one)."""

    def verified(self, comb_class):
        minimal = not any(q != p and q in p for p in comb_class.patterns for q in comb_class.patterns)
        return super().verified(comb_class) and minimal

    def formal_step(self):
        return f"prefix of length at least {self.k}, no redundant pattern"

    def __repr__(self):
        return f"MinimalLongPrefixVerified(k={self.k})"


PACKS = dict(UNIVERSE_PACKS)
PACKS["stale-verified"] = lambda: StrategyPack(
    initial_strats=[RemoveFrontOfPrefix()], inferral_strats=[RemoveRedundantPatterns(ignore_parent=False)],
    expansion_strats=[[ExpansionStrategy()]], ver_strats=[StatAtomStrategy(), MinimalLongPrefixVerified(k=1)],
    name="stale-verified")
PACKS["two-initial"] = lambda: StrategyPack(
    initial_strats=[RemoveFrontOfPrefix(ignore_parent=False), ExpansionDropStat()], inferral_strats=[],
    expansion_strats=[[ExpansionStrategy()]], ver_strats=[StatAtomStrategy(), LongPrefixVerified(k=3)],
    name="two-initial")


def truly_empty(cls: Av) -> bool:
    return not brute_objects(cls, len(cls.prefix))


# --------------------------------------------------------------------------------------------------------------
# scripted clocks
# --------------------------------------------------------------------------------------------------------------


class JumpClock:
    """0.0 for the first `zero_reads` readings, BIG afterwards."""

    def __init__(self, zero_reads):
        self.zero_reads = zero_reads
        self.reads = 0

    def time(self):
        self.reads += 1
        return 0.0 if self.reads <= self.zero_reads else BIG


class EagerClock:
    """One millisecond per reading made in `_expand_classes_for`, none elsewhere: every slice is one packet, the
    time limit is never reached."""

    def __init__(self):
        self.ticks = 0

    def time(self):
        if sys._getframe(1).f_code.co_name == "_expand_classes_for":
            self.ticks += 1
        return self.ticks * 0.001


class TickClock:
    def __init__(self):
        self.ticks = 0

    def time(self):
        self.ticks += 1
        return self.ticks * 0.001


@contextlib.contextmanager
def clock(clk, seed=0):
    real = CSS_MODULE.time
    rng = random.Random(seed)
    saved = tree_searcher.choice, tree_searcher.shuffle, tree_searcher.time
    CSS_MODULE.time = clk
    tree_searcher.choice, tree_searcher.shuffle, tree_searcher.time = rng.choice, rng.shuffle, TickClock()
    try:
        yield clk
    finally:
        CSS_MODULE.time = real
        tree_searcher.choice, tree_searcher.shuffle, tree_searcher.time = saved


def expand_packets(css, k):
    """Expand exactly k work packets (fewer if the queue runs dry).  Returns False iff the queue ran dry."""
    if k <= 0:
        return True
    with clock(JumpClock(k)):
        expanding, _ = css._expand_classes_for(1.0, None, 0.0, 0.0)  # pylint: disable=protected-access
    return expanding


def packets_of(css):
    return _PACKETS.setdefault(id(css.classqueue), (css.classqueue, []))[1]


# --------------------------------------------------------------------------------------------------------------
# structural state (independent of the library's __eq__)
# --------------------------------------------------------------------------------------------------------------


def snapshot(css):
    classdb, queue, ruledb = css.classdb, css.classqueue, css.ruledb
    n = len(classdb.label_to_info)
    state = {
        "classes": [classdb.get_class(l).key() for l in range(n)],
        "empty": list(classdb.empty_list),
        "start": css.start_label,
        "tried_to_verify": sorted(css.tried_to_verify),
        "symmetry_expanded": sorted(css.symmetry_expanded),
        "inferral_expanded": sorted(css.inferral_expanded),
        "queue": {
            "working": list(queue.working),
            "next_level": list(queue.next_level.items()),
            "curr_level": [list(d) for d in queue.curr_level],
            "ignore": sorted(queue.ignore),
            "inferral_done": sorted(queue._inferral_expanded),  # pylint: disable=protected-access
            "initial_done": sorted(queue._initial_expanded),  # pylint: disable=protected-access
            "staging": [(w.label, tuple(map(repr, w.strategies)), w.inferral) for w in queue.staging],
            "sizes": list(queue.queue_sizes),
        },
    }
    if isinstance(ruledb, RuleDBBase):
        state["rules"] = sorted(ruledb.rule_to_strategy)
        state["eqv"] = sorted(ruledb.eqv_rule_to_strategy)
    else:
        state["rules"] = [tuple(k[:3]) + (k.bucket.name,) for k in ruledb.table_method._rules]  # pylint: disable=protected-access
        state["function"] = sorted(ruledb.table_method.function.items())
        state["already_empty"] = sorted(ruledb._already_empty)  # pylint: disable=protected-access
    state["verified"] = [l for l in range(n) if ruledb.is_verified(l)]
    state["has_specification"] = css.has_specification()
    return state


def _diff(a, b):
    for k in a:
        if a[k] != b.get(k):
            if isinstance(a[k], dict):
                return k + "." + _diff(a[k], b[k])
            return f"{k}: {str(a[k])[:150]} vs {str(b.get(k))[:150]}"
    return "?"


def _closed(spec, start):
    lhs = set()
    for rule in spec.rules_dict.values():
        lhs.add(rule.comb_class.key())
        if isinstance(rule, EquivalencePathRule):
            lhs.update(r.comb_class.key() for r in rule.rules)
    if start.key() not in lhs:
        return f"the start class {start!r} owns no rule"
    for rule in spec.rules_dict.values():
        for child in rule.children:
            if child.key() not in lhs and not truly_empty(child):
                return f"{child!r} is a child of the rule of {rule.comb_class!r}, owns no rule and is not empty"
    return None


def check_spec(spec, start, who):
    COUNTS["final-specification"] += 1
    if spec.root.key() != start.key():
        return _note("final-specification", f"{who}: rooted at {spec.root!r} instead of {start!r}")
    msg = _closed(spec, start)
    if msg:
        return _note("final-specification", f"{who}: {msg}")
    try:
        problems = spec_check(spec, start, NMAX)
    except Exception as e:  # pylint: disable=broad-except
        return _note("final-specification", f"{who}: counting raised {type(e).__name__}: {str(e)[:200]}")
    if problems:
        return _note("final-specification", f"{who}: {problems[0]}")
    return True


def finish(css, seed):
    """auto_search to the end (one packet per slice, seeded tree choice).  Returns ('spec', spec) / ('none', None)."""
    with clock(EagerClock(), seed):
        try:
            return "spec", css.auto_search(max_expansion_time=10**4)
        except SpecificationNotFound:
            return "none", None


# --------------------------------------------------------------------------------------------------------------
# (i) pickle crash points
# --------------------------------------------------------------------------------------------------------------


def _post_roundtrip(searcher, result):
    """Fidelity of the copy, judged by the harness (nothing of the library's __eq__ is involved)."""
    COUNTS["roundtrip"] += 1
    a, b = snapshot(searcher), snapshot(result)
    if a != b:
        return _note("restored-state", f"state differs after the round trip: {_diff(a, b)}")
    return True


@deal.ensure(lambda searcher, result: _post_roundtrip(searcher, result))
def roundtrip(searcher):
    return pickle.loads(pickle.dumps(searcher))


def _post_roundtrip_eq(searcher, result):
    """The library's own equality: the copy equals the original, and asking does not change the answer."""
    COUNTS["roundtrip-eq"] += 1
    name = type(searcher.ruledb).__name__

    def classes(css):
        db = css.classdb
        return [db.get_class(l).key() for l in range(len(db.label_to_info))], list(db.empty_list)

    before = classes(searcher), classes(result)
    try:
        equal = result == searcher
    except Exception as e:  # pylint: disable=broad-except
        return _note("restored-equals-original", f"`restored == searcher` raised {type(e).__name__} with {name}: "
                     f"{str(e)[:160]}")
    if not equal:
        differing = []
        for k in searcher.__dict__:
            try:
                if not searcher.__dict__[k] == result.__dict__.get(k):
                    differing.append(k)
            except Exception:  # pylint: disable=broad-except
                differing.append(k + " (raises)")
        return _note("restored-equals-original", f"pickle.loads(pickle.dumps(searcher)) != searcher with {name}; "
                     f"attributes comparing unequal: {differing}")
    after = classes(searcher), classes(result)
    if after != before:
        grown = (len(after[0][0]) - len(before[0][0]), len(after[1][0]) - len(before[1][0]))
        return _note("equality-is-pure", f"evaluating `restored == searcher` changed the class databases ({name}): "
                     f"{grown[0]} / {grown[1]} classes labelled in the original / the copy")
    again = result == searcher
    if not again:
        differing = [k for k in searcher.__dict__ if not searcher.__dict__[k] == result.__dict__.get(k)]
        a, b = snapshot(searcher), snapshot(result)
        return _note("equality-is-stable", f"`restored == searcher` is True, then False when asked again ({name}); "
                     f"attributes now unequal: {differing}; state: {_diff(a, b) if a != b else 'same'}")
    return True


@deal.ensure(lambda searcher, result: _post_roundtrip_eq(searcher, result))
def roundtrip_eq(searcher):
    return pickle.loads(pickle.dumps(searcher))


def run_pickle_case(case):
    """case = ('pickle', db, pack, repr(start), k, cont).  Returns (violations, info)."""
    _, db, pack, start_repr, k, cont = case
    start = class_from_repr(start_repr)
    seed = zlib.crc32(repr(case).encode()) ^ SEED[0]
    _LAST.clear()
    css = CombinatorialSpecificationSearcher(start, PACKS[pack](), ruledb=RULEDBS[db]())
    silence()
    more = expand_packets(css, k)
    done = len(packets_of(css))
    info = {"packets_before": done, "ran_dry": not more}
    if k >= 2:
        # the same k packets, one call of _expand_classes_for per packet
        COUNTS["slicing-independent"] += 1
        stepped = CombinatorialSpecificationSearcher(start, PACKS[pack](), ruledb=RULEDBS[db]())
        for _ in range(k):
            if not expand_packets(stepped, 1):
                break
        p1, p2 = packets_of(css), packets_of(stepped)
        if p1 != p2:
            pos = next((i for i, (x, y) in enumerate(zip(p1, p2)) if x != y), min(len(p1), len(p2)))
            _note("slicing-independent", f"{k} packets in one call hand out {len(p1)} packets, one call per packet "
                  f"{len(p2)}; first difference at position {pos}: {p1[pos:pos + 1]} vs {p2[pos:pos + 1]}")
        else:
            a, b = snapshot(css), snapshot(stepped)
            if a != b:
                _note("slicing-independent", f"{k} packets in one call of _expand_classes_for vs one call per packet: "
                      f"{_diff(a, b)}")
        _PACKETS.pop(id(stepped.classqueue), None)
    try:
        restored = roundtrip(css)
    except deal.ContractError:
        restored = pickle.loads(pickle.dumps(css))
    # the library's == is asked on a second, identically built searcher: with RuleDBForgetStrategy the comparison
    # itself labels classes, so the pair that is continued below is never compared with ==
    twin = CombinatorialSpecificationSearcher(start, PACKS[pack](), ruledb=RULEDBS[db]())
    expand_packets(twin, k)
    try:
        roundtrip_eq(twin)
    except deal.ContractError:
        pass
    n0 = len(packets_of(css))
    total = 0
    for size in SLICES:
        if total >= cont:
            break
        m1 = expand_packets(css, size)
        m2 = expand_packets(restored, size)
        total += size
        COUNTS["continuation-slice"] += 1
        p1, p2 = packets_of(css)[n0:], packets_of(restored)
        if p1 != p2 or m1 != m2:
            _note("same-work", f"after {k} packets + continuation of {total}: original handed out {p1[-3:]} "
                  f"(more={m1}), restored {p2[-3:]} (more={m2})")
            break
        a, b = snapshot(css), snapshot(restored)
        if a != b:
            _note("same-universe", f"after {k} packets + continuation of {total}: {_diff(a, b)}")
            break
        if not m1:
            break
    info["packets_after"] = len(packets_of(restored))
    if all(c in ("restored-equals-original", "equality-is-stable", "equality-is-pure") for c, _ in _LAST.get("notes", [])):
        o1, s1 = finish(css, seed)
        o2, s2 = finish(restored, seed)
        COUNTS["same-answer"] += 1
        if o1 != o2:
            _note("same-answer", f"after {k} packets: original ends with {o1}, restored with {o2}")
        else:
            if s1 is not None:
                check_spec(s1, start, "original") and check_spec(s2, start, "restored")
            p1, p2 = packets_of(css)[n0:], packets_of(restored)
            if p1 != p2:
                _note("same-work", f"after {k} packets, during the final auto_search: streams differ at position "
                      f"{next((i for i, (x, y) in enumerate(zip(p1, p2)) if x != y), min(len(p1), len(p2)))}")
        info["outcome"] = o1
    return _LAST.get("notes", []), info


# --------------------------------------------------------------------------------------------------------------
# (ii) time-limit crash points
# --------------------------------------------------------------------------------------------------------------

MAX_CALLS = 400
PLANS = ("same", "one-packet", "rest")


def _post_resume(css, start, plan, k, reference, result):
    outcome, spec, calls, error = result
    COUNTS["resume"] += 1
    ok = True
    if error is not None:
        return _note("only-documented-exceptions", f"call {calls} raised {error}")
    stream = packets_of(css)
    if len(set(stream)) != len(stream):
        dup = [p for p, c in Counter(stream).items() if c > 1][:2]
        ok = _note("no-packet-twice", f"work packets handed out twice over {calls} calls: {dup}")
    if outcome != reference:
        ok = _note("interrupted-outcome", f"uninterrupted search ends with {reference}; interrupted at reading {k} and "
                   f"resumed ({plan}, {calls} calls) ends with {outcome}")
    if spec is not None and not check_spec(spec, start, f"interrupted at reading {k}, plan {plan}"):
        ok = False
    return ok


@deal.ensure(lambda css, start, plan, k, reference, result: _post_resume(css, start, plan, k, reference, result))
def resume(css, start, plan, k, reference):
    """auto_search(max_expansion_time=1) interrupted at reading k, then called again following `plan`.
    Returns (outcome, spec, number of calls, unexpected exception or None)."""
    seed = zlib.crc32(repr((repr(start), plan, k)).encode()) ^ SEED[0]
    calls = 0
    interruptions = 0
    idle = 0
    while calls < MAX_CALLS:
        if calls == 0 or plan == "same":
            clk = JumpClock(k)
        elif plan == "one-packet":
            clk = JumpClock(4)
        else:
            clk = EagerClock()
        calls += 1
        before = len(packets_of(css))
        try:
            with clock(clk, seed):
                spec = css.auto_search(max_expansion_time=1.0)
            COUNTS["interruptions"] += interruptions
            return "spec", spec, calls, None
        except ExceededMaxtimeError:
            interruptions += 1
            # once the queue is dry an expired clock makes every further call raise ExceededMaxtimeError before the
            # search can say "not found": after two calls without a single packet, go on without a time limit
            idle = idle + 1 if len(packets_of(css)) == before else 0
            if idle >= 2:
                plan = "rest"
            continue
        except SpecificationNotFound:
            COUNTS["interruptions"] += interruptions
            return "none", None, calls, None
        except Exception as e:  # pylint: disable=broad-except
            return "error", None, calls, f"{type(e).__name__}: {str(e)[:200]}"
    return "error", None, calls, f"no answer after {MAX_CALLS} calls"


def run_limit_case(case):
    """case = ('limit', db, pack, repr(start), k, plan, reference outcome)."""
    _, db, pack, start_repr, k, plan, reference = case
    start = class_from_repr(start_repr)
    _LAST.clear()
    css = CombinatorialSpecificationSearcher(start, PACKS[pack](), ruledb=RULEDBS[db]())
    silence()
    try:
        outcome, _, calls, _ = resume(css, start, plan, k, reference)
    except deal.ContractError:
        outcome, calls = "violation", 0
    return _LAST.get("notes", []), {"outcome": outcome, "calls": calls}


# --------------------------------------------------------------------------------------------------------------
# Driver
# --------------------------------------------------------------------------------------------------------------


@contextlib.contextmanager
def installed():
    Q = class_queue.DefaultQueue
    _real["next"] = Q.__next__

    def __next__(self):
        wp = _real["next"](self)
        _PACKETS.setdefault(id(self), (self, []))[1].append((wp.label, tuple(map(repr, wp.strategies)), wp.inferral))
        return wp

    Q.__next__ = __next__
    try:
        yield
    finally:
        Q.__next__ = _real["next"]


def probe(db, pack, start_repr, kmax):
    """Length of the whole work-packet sequence (capped) and the outcome of the uninterrupted search."""
    start = class_from_repr(start_repr)
    css = CombinatorialSpecificationSearcher(start, PACKS[pack](), ruledb=RULEDBS[db]())
    silence()
    more = expand_packets(css, kmax + 1)
    npackets = len(packets_of(css))
    ref = CombinatorialSpecificationSearcher(start, PACKS[pack](), ruledb=RULEDBS[db]())
    outcome, _ = finish(ref, 0)
    return min(npackets, kmax), (not more and npackets <= kmax), outcome


def _worker(args):
    groups, SEED[0], kmax, cont, all_plans = args
    silence()
    COUNTS.clear()
    viols, infos = [], []
    with installed():
        for db, pack, start_repr in groups:
            _PACKETS.clear()
            try:
                K, whole, reference = probe(db, pack, start_repr, kmax)
            except Exception as e:  # pylint: disable=broad-except
                viols.append({"check": "exception", "what": f"probe: {type(e).__name__}: {str(e)[:300]}",
                              "witness": {"kind": "probe", "ruledb": db, "pack": pack, "start": start_repr}})
                continue
            cases = [("pickle", db, pack, start_repr, k, cont) for k in range(K + 1)]
            cases += [("limit", db, pack, start_repr, k, plan, reference) for k in range(1, K + 7)
                      for plan in PLANS if plan == "same" or all_plans or (k % 2 == 0) == (plan == "one-packet")]
            for case in cases:
                _PACKETS.clear()
                try:
                    notes, info = run_pickle_case(case) if case[0] == "pickle" else run_limit_case(case)
                except Exception as e:  # pylint: disable=broad-except
                    notes, info = [("exception", f"{type(e).__name__}: {str(e)[:300]}")], {}
                for check, what in notes:
                    viols.append({"check": check, "what": what[:600], "witness": _witness(case)})
                if not notes:
                    infos.append((case[0], info.get("outcome"), case[4], whole))
            COUNTS["groups"] += 1
            COUNTS["groups-whole-search-covered"] += bool(whole)
    return viols, infos, dict(COUNTS)


def _witness(case):
    if case[0] == "pickle":
        return {"kind": "pickle", "ruledb": case[1], "pack": case[2], "start": case[3], "k": case[4], "cont": case[5]}
    return {"kind": "limit", "ruledb": case[1], "pack": case[2], "start": case[3], "k": case[4], "plan": case[5],
            "reference": case[6]}


_STARTS = [
    Av("", ["aa"], "ab"),
    Av("", ["aba", "bab"], "ab", False, ("na", "nb")),
    Av("", ["b", "bbb"], "b"),
    Av("a", ["bb"], "ab", False, ("nb",)),
    Av("", ["aa", "aab"], "ab", False, ("na",)),
    AvBytes("", ["ab"], "ab"),
    Av("", ["aaa", "bbb"], "ab"),
    Av("ab", ["aba"], "ab"),
    Av("", [], "ab", False, ("na", "nb")),
    Av("", ["a"], "a"),
    Av("", ["abb", "ba"], "ab", False, ("nb",)),
    Av("", ["aab", "abb"], "ab", False, ("na", "na2")),
]
# redundant patterns with prefixes (the inferral packet and the initial packet of one label both apply)
_STARTS_QUICK_EXTRA = [Av("", ["bb", "abb"], "ab"), Av("ab", ["bb", "bba"], "ab", False, ("nb",))]
_PACKS_QUICK = ["stat", "sym", "inferral", "factory", "lookback", "longverif", "all", "quotient", "stale-verified",
                "two-initial"]


def _groups(tier):
    if tier == "quick":
        packs, starts = [p for p in _PACKS_QUICK if p in PACKS], _STARTS[:6] + _STARTS_QUICK_EXTRA
    else:
        packs, starts = list(PACKS), _STARTS + _STARTS_QUICK_EXTRA
    return [(db, pack, repr(s)) for db in RULEDBS for pack in packs for s in starts if pack_applicable(pack, s)]


def run(tier, seed):
    groups = _groups(tier)
    kmax, cont = (40, 40) if tier == "quick" else (40, 80)
    # quick: plan "same" at every k, "one-packet" at even k, "rest" at odd k; thorough: all three at every k
    all_plans = tier != "quick"
    rng = random.Random(seed)
    rng.shuffle(groups)
    nchunks = min(len(groups), NPROC * 6)
    chunks = [(groups[i::nchunks], seed, kmax, cont, all_plans) for i in range(nchunks)]
    ctx = multiprocessing.get_context("fork")
    with ctx.Pool(NPROC) as pool:
        results = pool.map(_worker, chunks, chunksize=1)
    counts = Counter()
    viols, infos = [], []
    for v, i, c in results:
        viols.extend(v)
        infos.extend(i)
        counts.update(c)
    npickle = sum(1 for i in infos if i[0] == "pickle")
    nlimit = sum(1 for i in infos if i[0] == "limit")
    nviolated = len({str(v["witness"]) for v in viols})
    nontrivial = sum(1 for i in infos if i[2] >= 1)
    return {
        "bound": (f"{len(groups)} (rule database, pack, start class) groups = 3 rule databases x "
                  f"{len({g[1] for g in groups})} packs x {len({g[2] for g in groups})} start classes; for each, EVERY "
                  f"crash point k = 0..K with K = min(length of the whole work-packet sequence, {kmax}) "
                  f"({counts['groups-whole-search-covered']} groups covered to the end of their search; packs: the "
                  f"universe's plus stale-verified and two-initial, which give one label several packets in a row): (i) "
                  f"the k packets handled in one call of _expand_classes_for compared with one call per packet (k >= 2), "
                  f"pickle after k packets, continuation in slices {SLICES} up to {cont} packets, then auto_search; (ii) "
                  f"time limit at clock reading k = 1..K+6, resumed under the split plans {PLANS} "
                  f"({'all of them at every k' if all_plans else 'same at every k, the two others alternating'}); "
                  f"specifications checked against brute force for n <= {NMAX}"),
        "evaluations": npickle + nlimit + nviolated,
        "pickle_cases": npickle,
        "limit_cases": nlimit,
        "distinct_nontrivial": nontrivial,
        "rule": ("one evaluation = one crash point of one group under one mode (pickle / time limit + split plan), "
                 "enumerated without repetition; non-trivial when at least one work packet was expanded before the "
                 "crash (k >= 1)"),
        "exhaustive": False,
        "contracts_evaluated": dict(counts),
        "samples": [_witness(c) for c in (
            ("pickle", "base", "sym", repr(_STARTS[0]), 7, cont),
            ("limit", "forest", "all", repr(_STARTS[1]), 12, "same", "spec"),
            ("limit", "forget", "longverif", repr(_STARTS[3]), 3, "one-packet", "spec"))],
        "violations": _dedupe(viols),
    }


def _dedupe(viols):
    viols = sorted(viols, key=lambda v: (v["check"], v["witness"].get("k", 0), len(str(v["witness"])), str(v["witness"])))
    out, per = [], Counter()
    for v in viols:
        key = (v["check"], v["witness"].get("ruledb"))
        if per[key] >= 2 or per[v["check"]] >= 4:
            continue
        per[key] += 1
        per[v["check"]] += 1
        out.append(v)
    return out[:20]


def replay(violation):
    w = violation["witness"]
    silence()
    COUNTS.clear()
    _PACKETS.clear()
    with installed():
        if w["kind"] == "pickle":
            notes, _ = run_pickle_case(("pickle", w["ruledb"], w["pack"], w["start"], w["k"], w.get("cont", 40)))
        elif w["kind"] == "limit":
            notes, _ = run_limit_case(("limit", w["ruledb"], w["pack"], w["start"], w["k"], w["plan"], w["reference"]))
        else:
            try:
                probe(w["ruledb"], w["pack"], w["start"], 40)
                notes = []
            except Exception:  # pylint: disable=broad-except
                notes = [("exception", "")]
    return any(c == violation["check"] for c, _ in notes)
