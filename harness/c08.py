"""C08 bounded stand-in: random sampling from a specification is exactly uniform.

Real code under contract (never re-implemented): ``CombinatorialSpecification.random_sample_object_of_size``,
``Rule.random_sample_object_of_size``, ``DisjointUnion.random_sample_sub_objects``,
``CartesianProduct.random_sample_sub_objects`` (with ``_valid_compositions`` / ``get_extra_parameters``),
``VerificationRule.random_sample_object_of_size`` and the verification strategies' samplers.

The random source is replaced, in this process only, by an ENUMERATING source: ``random`` in
``comb_spec_searcher.strategies.constructor.cartesian`` and ``comb_spec_searcher.strategies.rule`` (both do ``import
random``), the name ``randint`` in ``...constructor.disjoint`` (``from random import randint``) and ``_random`` in the toy
universe (its ``FiniteVerified`` sampler) are rebound to a proxy whose ``randint(a, b)`` / ``choice(seq)`` take their
answer from a replayed decision prefix.  The decision tree of one call of ``random_sample_object_of_size`` is explored
completely (depth first; the next prefix increments the last decision that still has an untried value); a leaf has
probability ``prod 1/arity`` (``fractions.Fraction``).

Contracts (deal, on sidecar wrappers):

* ``distribution(spec, start, n, params)``: the exact distribution returned by the enumeration is the uniform
  distribution on the brute-force list of the objects of that size and parameters (every object has probability
  ``1/count``, nothing else has positive probability, probabilities sum to 1);
* ``refusal(spec, start, n, params)``: when there is no object, ``InvalidOperationError`` and nothing else;
* ``sub_objects(rule, n, params)`` for every ``Rule`` of a specification whose constructor is a ``DisjointUnion`` or a
  ``CartesianProduct``: with ``randint`` forced to each ``r in [1, parent_count]`` and recording sub-samplers, the number
  of ``r`` leading into each child / each composition ``((n_1, params_1), ..., (n_k, params_k))`` equals the number of
  objects of the parent (brute force) whose image under the strategy's forward map has that shape;
  ``parent_count`` itself equals the brute-force count.

Oracle: ``harness.universe.brute_objects`` and the toy strategies' forward maps (validated against brute force in C07).

Family: the searches of C07 (universe packs + C07's local packs) plus the packs defined here (``LOCAL_PACKS``), whose
rules have parameter maps that are not the identity: unions in which a child drops a statistic that a sibling has
non-zero on words of the same size (``ExpansionDropVanishing``: the skip test of the threshold walk decides), products
whose factors track only their non-vanishing statistics, atoms under duplicate names (``SplitPrefix(local_names)``),
and products with the non-atom factor first / between two atoms (compositions with a free first part).
"""
import contextlib
import json
import multiprocessing
import random as _real_random
import time
from collections import Counter
from fractions import Fraction

import deal

import comb_spec_searcher.strategies.constructor.cartesian as _cartesian
import comb_spec_searcher.strategies.constructor.disjoint as _disjoint
import comb_spec_searcher.strategies.rule as _rule
import harness.universe as _universe
from comb_spec_searcher import CombinatorialSpecification, StrategyPack
from comb_spec_searcher.exception import InvalidOperationError
from comb_spec_searcher.strategies.constructor import CartesianProduct, DisjointUnion
from comb_spec_searcher.strategies.rule import EquivalencePathRule, Rule, VerificationRule
from harness.c07 import ALL_PACKS, build_spec, family_jobs, family_starts, spec_key, supports_generation
from harness.universe import *  # noqa: F401,F403
from harness.universe import class_from_repr

NPROC = 16
COUNTS = Counter()
_LAST = {}
NO_SAMPLING_PACKS = ("addstat",)  # AddStat: the child tracks a statistic the parent cannot supply (documented)
LEAF_LIMIT = 200000  # hard stop for one decision tree (the per-size budget below normally prevents reaching it)


def _note(check, what):
    _LAST["check"] = check
    _LAST["what"] = what
    return False


# --------------------------------------------------------------------------------------------------------------
# packs added to the family of C07 (non-identity parameter maps, non-atom factors in non-last position)
# --------------------------------------------------------------------------------------------------------------


def _pack(name, initial, expansion):
    return StrategyPack(initial_strats=initial, inferral_strats=[], expansion_strats=expansion,
                        ver_strats=[StatAtomStrategy()], name=name)


LOCAL_PACKS = {
    # a child drops a statistic that vanishes on it while a sibling has it non-zero at the same size
    "dropvanishing": lambda: _pack("dropvanishing", [RemoveFrontOfPrefix()], [[ExpansionDropVanishing()]]),
    # ... and the factors of products track only their own statistics, atoms under duplicate names, non-atom first
    "localnames": lambda: _pack("localnames", [SplitPrefix(pieces=1, rest_at=0, local_names=True)],
                                [[ExpansionDropVanishing()]]),
    # non-atom factor between two atoms / first (when the redundant front has one letter only)
    "restmiddle": lambda: _pack("restmiddle", [SplitPrefix(pieces=2, rest_at=1), SplitPrefix(pieces=1, rest_at=0)],
                                [[ExpansionStrategy()]]),
}
C08_PACKS = dict(ALL_PACKS)
C08_PACKS.update(LOCAL_PACKS)
# start classes added for the local packs (prefix of length 3: two atoms and a factor with a non-empty prefix)
LOCAL_STARTS = [("aab", ["bb"], "ab", ("na",)), ("bab", ["bb", "aa"], "ab", ()), ("bba", ["ab"], "ab", ("nb", "na"))]


def local_jobs(tier, seed):
    starts = list(family_starts(tier, seed))
    starts += [c for c in (Av(p, patts, al, False, st) for p, patts, al, st in LOCAL_STARTS) if c not in set(starts)]
    return [{"start": repr(start), "pack": pack, "db": db} for start in starts for pack in LOCAL_PACKS
            for db in RULEDBS]


def build_spec(job):  # noqa: F811  (the C07 function, over the enlarged table of packs)
    start = class_from_repr(job["start"])
    spec = find_spec(start, C08_PACKS[job["pack"]](), RULEDBS[job["db"]](), max_expansion_time=20)
    return start, spec


# --------------------------------------------------------------------------------------------------------------
# the enumerating random source
# --------------------------------------------------------------------------------------------------------------


class Enumerator:
    """Stand-in for the ``random`` module: decisions come from ``prefix``, then the first value; all are traced."""

    def __init__(self):
        self.prefix = []
        self.trace = []  # [(index chosen, arity)]
        self.forced = None  # rule-level mode: randint returns this value

    def start(self, prefix):
        self.prefix = list(prefix)
        self.trace = []

    def _next(self, arity):
        if arity <= 0:
            raise ValueError("empty range for randint / empty sequence for choice")
        pos = len(self.trace)
        idx = self.prefix[pos] if pos < len(self.prefix) else 0
        if idx >= arity:
            raise RuntimeError("replayed prefix does not fit: the sampler is not a function of the decisions")
        self.trace.append((idx, arity))
        return idx

    def randint(self, a, b):
        if self.forced is not None:
            COUNTS["randint-forced"] += 1
            if not a <= self.forced <= b:
                raise RuntimeError(f"forced value {self.forced} outside randint({a}, {b})")
            return self.forced
        COUNTS["randint"] += 1
        return a + self._next(b - a + 1)

    def choice(self, seq):
        COUNTS["choice"] += 1
        return seq[self._next(len(seq))]

    def __getattr__(self, name):  # everything else (Random, ...) is the real module's
        return getattr(_real_random, name)

    def denominator(self):
        """The leaf just explored has probability 1 / denominator()."""
        den = 1
        for _, arity in self.trace:
            den *= arity
        return den

    def next_prefix(self):
        t = self.trace
        i = len(t) - 1
        while i >= 0 and t[i][0] + 1 >= t[i][1]:
            i -= 1
        if i < 0:
            return None
        return [x for x, _ in t[:i]] + [t[i][0] + 1]


ENUM = Enumerator()


@contextlib.contextmanager
def installed():
    saved = (_cartesian.random, _rule.random, _disjoint.randint, _universe._random)
    _cartesian.random = ENUM
    _rule.random = ENUM
    _disjoint.randint = ENUM.randint
    _universe._random = ENUM
    try:
        yield
    finally:
        _cartesian.random, _rule.random, _disjoint.randint, _universe._random = saved


class TooManyLeaves(Exception):
    pass


def enumerate_distribution(call, limit=LEAF_LIMIT):
    """Exact distribution {result: probability} of call() over all outcomes of the random source."""
    dens = {}
    prefix = []
    leaves = 0
    while prefix is not None:
        ENUM.start(prefix)
        res = str(call())
        dens.setdefault(res, Counter())[ENUM.denominator()] += 1
        leaves += 1
        if leaves > limit:
            raise TooManyLeaves
        prefix = ENUM.next_prefix()
    dist = {res: sum(Fraction(k, den) for den, k in cnt.items()) for res, cnt in dens.items()}
    return dist, leaves


# --------------------------------------------------------------------------------------------------------------
# contracts
# --------------------------------------------------------------------------------------------------------------


def _brute_with(cls, n, params):
    return [w for w in brute_objects(cls, n) if all(w.count(STAT_LETTER[k]) == v for k, v in params.items())]


def _post_distribution(spec, start, n, params, result):
    COUNTS["distribution"] += 1
    dist, _ = result
    truth = _brute_with(start, n, params)
    total = sum(dist.values())
    if total != 1:
        return _note("distribution-total", f"n={n} {params}: probabilities sum to {total}")
    expected = Fraction(1, len(truth))
    bad = {w: str(p) for w, p in dist.items() if w not in truth and p}
    if bad:
        return _note("sample-not-in-class", f"n={n} {params}: sampled {bad}")
    off = {w: str(dist.get(w, 0)) for w in truth if dist.get(w, 0) != expected}
    if off:
        return _note("not-uniform", f"n={n} {params}: expected {expected} each, got {dict(list(off.items())[:6])}")
    return True


@deal.pre(lambda spec, start, n, params: len(_brute_with(start, n, params)) > 0)
@deal.ensure(lambda spec, start, n, params, result: _post_distribution(spec, start, n, params, result))
def distribution(spec, start, n, params):
    return enumerate_distribution(
        lambda: CombinatorialSpecification.random_sample_object_of_size(spec, n, **params))


def _post_refusal(result):
    COUNTS["refusal"] += 1
    if result != "InvalidOperationError":
        return _note("refusal", f"expected InvalidOperationError, got {result}")
    return True


@deal.pre(lambda spec, start, n, params: len(_brute_with(start, n, params)) == 0)
@deal.ensure(lambda spec, start, n, params, result: _post_refusal(result))
def refusal(spec, start, n, params):
    ENUM.start([])
    try:
        res = CombinatorialSpecification.random_sample_object_of_size(spec, n, **params)
    except InvalidOperationError:
        return "InvalidOperationError"
    except Exception as e:  # pylint: disable=broad-except
        return f"{type(e).__name__}: {e}"
    return f"object {res!r}"


def _shape_of(rule, parts):
    """What the sub-samplers must be asked for, given the image of an object under the forward map."""
    shape = []
    for child, part in zip(rule.children, parts):
        if part is None:
            shape.append(None)
        else:
            shape.append((len(part), tuple(sorted(zip(child.extra_parameters, child.get_parameters(part))))))
    return tuple(shape)


def _post_sub_objects(rule, n, params, result):
    COUNTS["random_sample_sub_objects"] += 1
    parent_count, observed = result
    objs = _brute_with(rule.comb_class, n, params)
    if parent_count != len(objs):
        return _note("parent-count", f"n={n} {params}: count {parent_count}, brute force {len(objs)}")
    expected = Counter(_shape_of(rule, rule.forward_map(Word(w))) for w in objs)
    if observed != expected:
        diff = {str(k): (observed.get(k, 0), expected.get(k, 0)) for k in set(observed) | set(expected)
                if observed.get(k, 0) != expected.get(k, 0)}
        return _note("threshold-weights", f"n={n} {params}: (number of r, number of objects) per shape: {diff}")
    return True


@deal.ensure(lambda rule, n, params, result: _post_sub_objects(rule, n, params, result))
def sub_objects(rule, n, params):
    """Walk r over [1, parent_count]; the sub-samplers only record what they are asked for."""
    parent_count = rule.count_objects_of_size(n, **params)

    def recorder(idx):
        def sampler(n, **kwargs):  # pylint: disable=redefined-outer-name
            return ("asked", idx, n, tuple(sorted(kwargs.items())))

        return sampler

    samplers = tuple(recorder(i) for i in range(len(rule.children)))
    observed = Counter()
    for r in range(1, parent_count + 1):
        ENUM.forced = r
        try:
            res = rule.constructor.random_sample_sub_objects(parent_count, samplers, rule.subrecs, n, **params)
        finally:
            ENUM.forced = None
        observed[tuple(None if x is None else (x[2], x[3]) for x in res)] += 1
    return parent_count, observed


# --------------------------------------------------------------------------------------------------------------
# one job
# --------------------------------------------------------------------------------------------------------------


def _viol(job, extra):
    return {"check": _LAST.get("check", "contract"), "what": _LAST.get("what", "contract failed")[:400],
            "witness": dict(job, **extra)}


def all_rules(spec):
    for rule in list(spec):
        if isinstance(rule, VerificationRule):
            continue
        yield rule
        if isinstance(rule, EquivalencePathRule):
            continue


def check_spec(job, start, spec, nmax, budget, out):
    """Sizes in increasing order.  The decision trees of size n have about (number of objects)^2 times as many leaves
    as those of size n-1 (one threshold walk in a union and one in a product per letter); a size whose predicted
    number of leaves exceeds `budget` is not explored (counted in out["sizes_skipped"]), sizes <= 3 always are."""
    previous = 1
    for n in range(nmax + 1):
        predicted = max(1, previous) * max(1, len(brute_objects(start, n))) ** 2
        explore = n <= 3 or predicted <= budget
        if not explore:
            out["sizes_skipped"] += 1
        here = 0
        for params in start.possible_parameters(n):
            _LAST.clear()
            extra = {"n": n, "params": params}
            try:
                if _brute_with(start, n, params):
                    if not explore:
                        continue
                    out["evals"] += 1
                    _, leaves = distribution(spec, start, n, params)
                    here += leaves
                    out["leaves"] += leaves
                    out["nontrivial"] += leaves > 1
                    if leaves > 3 and len(out["samples"]) < 1:
                        out["samples"].append(dict(job, n=n, params=params, leaves=leaves,
                                                   objects=len(_brute_with(start, n, params))))
                else:
                    out["evals"] += 1
                    refusal(spec, start, n, params)
            except TooManyLeaves:
                out["truncated"] += 1
                here += LEAF_LIMIT
            except deal.PreContractError:
                raise
            except deal.ContractError:
                out["viols"].append(_viol(job, extra))
                return
            except Exception as e:  # pylint: disable=broad-except
                _note("sampling-exception", f"n={n} {params}: {type(e).__name__}: {e}")
                out["viols"].append(_viol(job, extra))
                return
        if explore:
            previous = here
        else:
            previous = predicted
        out["max_n"] = n if explore else out["max_n"]


def check_rules(job, spec, nmax, out):
    for rule in all_rules(spec):
        if not isinstance(rule, Rule) or not isinstance(rule.constructor, (DisjointUnion, CartesianProduct)):
            continue
        parent = rule.comb_class
        for n in range(nmax + 1):
            for param in sorted(brute_terms(parent, n)):
                params = dict(zip(parent.extra_parameters, param))
                _LAST.clear()
                out["rule_cases"] += 1
                extra = {"rule_parent": repr(parent), "n": n, "params": params}
                try:
                    sub_objects(rule, n, params)
                except deal.ContractError:
                    out["viols"].append(_viol(job, extra))
                    return
                except Exception as e:  # pylint: disable=broad-except
                    _note("sub-objects-exception", f"n={n} {params}: {type(e).__name__}: {e}")
                    out["viols"].append(_viol(job, extra))
                    return


def run_job(job, nmax, nrule, budget):
    silence()
    out = {"viols": [], "evals": 0, "leaves": 0, "nontrivial": 0, "rule_cases": 0, "truncated": 0, "samples": [],
           "key": None, "found": False, "sampling": False, "sizes_skipped": 0, "max_n": -1}
    try:
        start, spec = build_spec(job)
    except Exception as e:  # pylint: disable=broad-except
        out["search_exception"] = f"{type(e).__name__}: {e}"[:200]
        return out
    if spec is None:
        return out
    out["found"] = True
    out["key"] = spec_key(spec)
    if not supports_generation(spec):
        return out  # Complement / Quotient refuse sampling with the documented NotImplementedError
    out["sampling"] = True
    with installed():
        check_spec(job, start, spec, nmax, budget, out)
        check_rules(job, spec, nrule, out)
    return out


def _key_worker(job):
    silence()
    try:
        _, spec = build_spec(job)
    except Exception:  # pylint: disable=broad-except
        return None
    if spec is None or not supports_generation(spec):
        return None
    return spec_key(spec)


def _worker(arg):
    job, nmax, nrule, budget = arg
    COUNTS.clear()
    t0 = time.time()
    out = run_job(job, nmax, nrule, budget)
    out["counts"] = dict(COUNTS)
    out["secs"] = time.time() - t0
    return out


def _dedupe(viols):
    viols = sorted(viols, key=lambda v: (v["check"], len(json.dumps(v["witness"])), json.dumps(v["witness"], sort_keys=True)))
    out, per = [], Counter()
    for v in viols:
        if per[v["check"]] >= 3:
            continue
        per[v["check"]] += 1
        out.append(v)
    return out[:20]


def run(tier, seed):
    nmax = 4 if tier == "quick" else 5
    nrule = 5 if tier == "quick" else 6
    budget = 3000 if tier == "quick" else 12000
    jobs = [j for j in family_jobs(tier, seed) if j["pack"] not in NO_SAMPLING_PACKS] + local_jobs(tier, seed)
    ctx = multiprocessing.get_context("fork")
    with ctx.Pool(NPROC) as pool:
        # phase 1: search; the same specification is found under several packs / rule databases -> keep one job each
        keys = pool.map(_key_worker, jobs, chunksize=8)
        chosen, seen = [], set()
        for job, key in zip(jobs, keys):
            if key is not None and key not in seen:
                seen.add(key)
                chosen.append(job)
        results = pool.map(_worker, [(j, nmax, nrule, budget) for j in chosen], chunksize=1)
    counts = Counter()
    viols, samples = [], []
    evals = leaves = truncated = skipped = nontrivial = 0
    reached = Counter()
    for r in results:
        counts.update(r["counts"])
        viols.extend(r["viols"])
        evals += r["evals"] + r["rule_cases"]
        leaves += r["leaves"]
        truncated += r["truncated"]
        skipped += r["sizes_skipped"]
        nontrivial += r["nontrivial"] + r["rule_cases"]
        reached[r["max_n"]] += 1
        samples.extend(r["samples"])
    step = max(1, len(samples) // 6)
    nstarts = len(family_starts(tier, seed))
    return {
        "bound": (f"{nstarts} start classes x {len(ALL_PACKS) - len(NO_SAMPLING_PACKS)} packs x {len(RULEDBS)} rule "
                  f"databases, plus ({nstarts} + {len(LOCAL_STARTS)} start classes with a prefix of length 3) x the "
                  f"{len(LOCAL_PACKS)} local packs {sorted(LOCAL_PACKS)} (children dropping statistics that siblings "
                  f"have non-zero at the same size; factors with local statistic names; non-atom factor first or "
                  f"between two atoms) x {len(RULEDBS)} rule databases = {len(jobs)} searches, {sum(k is not None for k in keys)} specifications supporting "
                  f"sampling, {len(chosen)} distinct ones checked; exact distribution (complete decision tree) for ALL "
                  f"parameter vectors of possible_parameters(n), all n <= 3 and n <= {nmax} while the predicted number "
                  f"of leaves of a size stays <= {budget} (largest size reached per specification: "
                  f"{dict(sorted(reached.items()))}; {leaves} leaves in total, {skipped} sizes not explored, "
                  f"{truncated} trees cut at {LEAF_LIMIT} leaves); rule-level threshold walk for all n <= {nrule}, all "
                  f"occurring parameters, all r in [1, parent_count]"),
        "evaluations": evals,
        "distinct_nontrivial": nontrivial,
        "rule": ("one evaluation = one (specification, n, parameters) exact distribution or refusal, or one (rule, n, "
                 "parameters) threshold walk over all r; specifications are deduplicated by the sha1 of their JSON "
                 "before checking; non-trivial = a decision tree with more than one leaf, every rule-level walk"),
        "exhaustive": False,
        "contracts_evaluated": dict(counts),
        "samples": samples[::step][:6],
        "violations": _dedupe(viols),
    }


def replay(violation):
    w = violation["witness"]
    job = {k: w[k] for k in ("start", "pack", "db")}
    for _ in range(3):
        COUNTS.clear()
        out = run_job(job, 5, 6, 12000)
        if any(v["check"] == violation["check"] for v in out["viols"]):
            return True
    return False
