"""C12 bounded stand-in: a constructed bijection is a size-preserving bijection with a true inverse; the isomorphism
test is symmetric, and reflexive on specifications whose verified classes are all atoms.

Real code under contract (never re-implemented): ``comb_spec_searcher.isomorphism.Bijection.construct / map /
inverse_map`` (``ParseTreeMap.map_rec``, ``Bijection._perm_inv``), ``Isomorphism.check`` (``_are_isomorphic``,
``_base_cases``, ``Constructor.equiv``), and -- as a source of specifications -- ``comb_spec_searcher.bijection``'s
``ParallelSpecFinder`` / ``EqPathParallelSpecFinder``.

Pool of specifications (every ORDERED pair, including (s, s), is checked):

* plain searches (``auto_search``) of word classes with equal counting sequences (Av('', ['aa'], 'ab') vs
  Av('', ['bb'], 'ab'), letter-swapped patterns, one-letter alphabets, classes equivalent to an atom and the atom
  itself, redundant patterns, prefixes, 0-2 statistics) under packs that give equivalence paths on one side only
  (symmetries, inferral, first-letter renaming), empty children, reversed child order, rule factories, non-atom
  verification, and under the three rule databases (the forest database yields reverse rules);
* products with permuted and repeated children: the local ``SplitLetters(order)`` strategy
  ({p0} x {p1} x rest in any of the six orders; 'aa...' has two equal atom children);
* the output pairs of the two parallel finders;
* JSON reloads of a seeded subset.

Contracts (deal, on sidecar wrappers):

* ``check_both(a, b)``: ``Isomorphism.check(a, b) == Isomorphism.check(b, a)``; when ``a is b`` and every
  verification rule of ``a`` is on an atom (or the empty class) the answer is ``True``;
* ``construct(a, b)``: returns an object iff ``Isomorphism.check(a, b)``; every recorded child order is a permutation;
* ``transport(bij, A, B, n)`` for all ``n <= N``: ``map`` is injective on the brute-force objects of the domain's root,
  lands in the brute-force object set of the codomain's root of the same size, both sets have the same number of
  elements (onto), ``inverse_map(map(o)) == o`` and ``map(inverse_map(p)) == p``.

If ``construct`` returns ``None`` nothing is claimed.  When one of the two specifications contains a non-equivalence
reverse rule (``Complement`` / ``Quotient`` constructor, forest database) the rule has no object maps and ``map`` answers
with the documented ``NotImplementedError``; such pairs are counted (``map-refused``) and nothing is claimed either; the
same refusal between two specifications whose rules all implement maps is a violation.  Oracle: ``harness.universe.brute_objects``.
"""
import itertools
import json
import multiprocessing
import random
import time
from collections import Counter

import deal

from comb_spec_searcher import (
    CartesianProductStrategy,
    CombinatorialSpecification,
    CombinatorialSpecificationSearcher,
    StrategyPack,
)
from comb_spec_searcher.bijection import EqPathParallelSpecFinder, ParallelSpecFinder
from comb_spec_searcher.isomorphism import Bijection, Isomorphism
from comb_spec_searcher.strategies.rule import VerificationRule
from harness.c07 import ALL_PACKS, spec_key, supports_generation
from harness.universe import *  # noqa: F401,F403
from harness.universe import class_from_repr

NPROC = 16
COUNTS = Counter()
_LAST = {}


def _note(check, what):
    _LAST["check"] = check
    _LAST["what"] = what
    return False


# --------------------------------------------------------------------------------------------------------------
# a product strategy with permuted / repeated children (harness code)
# --------------------------------------------------------------------------------------------------------------


class SplitLetters(CartesianProductStrategy[Av, Word]):
    """prefix = p0 p1 rest where no occurrence of a pattern can use p0 or p1:  class = {p0} x {p1} x class(rest), the
    three children listed in the order `order` (a permutation of (0, 1, 2)); p0 == p1 gives two equal children."""

    def __init__(self, ignore_parent=True, inferrable=False, possibly_empty=False, workable=True, order=(0, 1, 2)):
        super().__init__(ignore_parent=ignore_parent, inferrable=inferrable, possibly_empty=possibly_empty,
                         workable=workable)
        self.order = tuple(order)
        assert sorted(self.order) == [0, 1, 2]

    def _canonical(self, c):
        return (c.derive(prefix=c.prefix[0], just_prefix=True), c.derive(prefix=c.prefix[1], just_prefix=True),
                c.derive(prefix=c.prefix[2:]))

    def decomposition_function(self, comb_class):
        if comb_class.just_prefix or comb_class.is_empty():
            return None
        if RemoveFrontOfPrefix.index_safe_to_remove_up_to(comb_class) < 2:
            return None
        canon = self._canonical(comb_class)
        return tuple(canon[i] for i in self.order)

    def extra_parameters(self, comb_class, children=None):
        return tuple({s: s for s in comb_class.stats} for _ in range(3))

    def formal_step(self):
        return f"split off the first two letters, children in order {self.order}"

    def forward_map(self, comb_class, obj, children=None):
        canon = (Word(obj[0]), Word(obj[1]), Word(obj[2:]))
        return tuple(canon[i] for i in self.order)

    def backward_map(self, comb_class, objs, children=None):
        assert len(objs) == 3 and all(o is not None for o in objs)
        canon = [None, None, None]
        for k, i in enumerate(self.order):
            canon[i] = objs[k]
        yield Word("".join(canon))

    def to_jsonable(self):
        d = super().to_jsonable()
        d["order"] = list(self.order)
        return d

    @classmethod
    def from_dict(cls, d):
        return cls(**d)

    def __repr__(self):
        return f"SplitLetters(order={self.order})"


def _split_pack(order):
    name = "split-" + "".join(map(str, order))
    return lambda: StrategyPack(initial_strats=[SplitLetters(order=order)], inferral_strats=[],
                                expansion_strats=[[ExpansionStrategy()]], ver_strats=[StatAtomStrategy()], name=name)


C12_PACKS = dict(ALL_PACKS)
for _order in itertools.permutations(range(3)):
    C12_PACKS["split-" + "".join(map(str, _order))] = _split_pack(_order)


# --------------------------------------------------------------------------------------------------------------
# the pool
# --------------------------------------------------------------------------------------------------------------

_CLASSES = [
    # (prefix, patterns, alphabet, just_prefix, stats)
    ("", ["aa"], "ab", False, ()), ("", ["bb"], "ab", False, ()),
    ("", ["ab"], "ab", False, ()), ("", ["ba"], "ab", False, ()),
    ("", [], "a", False, ()), ("", [], "b", False, ()), ("", ["b"], "ab", False, ()), ("", ["a"], "ab", False, ()),
    ("", ["a"], "a", False, ()), ("", ["b"], "b", False, ()), ("", ["a", "b"], "ab", False, ()),
    ("", [], "a", True, ()), ("", ["b"], "ab", True, ()), ("a", [], "a", True, ()), ("b", [], "ab", True, ()),
    ("a", ["aa"], "a", False, ()), ("b", ["bb", "ba"], "ab", False, ()),
    ("", [], "ab", False, ()),
    ("", ["aa", "bb"], "ab", False, ()),
    ("", ["aab"], "ab", False, ()), ("", ["abb"], "ab", False, ()), ("", ["bba"], "ab", False, ()),
    ("", ["aa", "aab"], "ab", False, ()), ("", ["bb", "abb"], "ab", False, ()),
    ("", ["aa", "b"], "ab", False, ()), ("", ["aaa"], "a", False, ()),
    ("a", ["bb"], "ab", False, ()), ("b", ["aa"], "ab", False, ()), ("b", ["bb"], "ab", False, ()),
    ("ab", ["aa"], "ab", False, ()), ("ba", ["bb"], "ab", False, ()), ("aa", ["bb"], "ab", False, ()),
    ("bb", ["aa"], "ab", False, ()), ("bb", ["ab"], "ab", False, ()), ("aa", ["ba"], "ab", False, ()),
    ("aa", [], "a", False, ()), ("bb", [], "b", False, ()),
    ("", ["aa"], "ab", False, ("na",)), ("", ["bb"], "ab", False, ("nb",)), ("", ["bb"], "ab", False, ("na",)),
    ("", ["aa"], "ab", False, ("na", "nb")), ("", ["bb"], "ab", False, ("nb", "na")),
    ("ab", ["aa"], "ab", False, ("na",)), ("ba", ["bb"], "ab", False, ("nb",)), ("ba", ["bb"], "ab", False, ("na",)),
    ("", ["aa"], "ab", False, ("na", "na2")),
]
_QUICK_PACKS = ["stat", "noinitial", "sym", "inferral", "rulefactory", "lookback", "finite", "reversed", "firstletter",
                "firstletter-empty", "dropfront", "merge", "split-012", "split-201", "split-120", "split-102"]
_PARALLEL = [
    (("", ["aa"], "ab", False, ()), "stat", ("", ["bb"], "ab", False, ()), "stat"),
    (("", ["aa"], "ab", False, ()), "noinitial", ("", ["bb"], "ab", False, ()), "stat"),
    (("", ["ab"], "ab", False, ()), "stat", ("", ["ba"], "ab", False, ()), "reversed"),
    (("", ["a"], "a", False, ()), "stat", ("", ["b"], "b", False, ()), "stat"),
    (("", [], "a", False, ()), "stat", ("", ["b"], "ab", False, ()), "stat"),
    (("", ["aab"], "ab", False, ()), "stat", ("", ["abb"], "ab", False, ()), "stat"),
    (("aa", ["bb"], "ab", False, ()), "split-012", ("bb", ["aa"], "ab", False, ()), "split-201"),
    (("", ["aa"], "ab", False, ("na",)), "stat", ("", ["bb"], "ab", False, ("nb",)), "stat"),
    (("", ["aa"], "ab", False, ()), "stat", ("", ["aa", "bb"], "ab", False, ()), "stat"),
]


def _cls(t):
    return Av(t[0], t[1], t[2], t[3], t[4])


def materialize(desc):
    """Build the specification a pool descriptor stands for (None when there is none)."""
    silence()
    if desc["src"] == "search":
        start = class_from_repr(desc["start"])
        return find_spec(start, C12_PACKS[desc["pack"]](), RULEDBS[desc["db"]](), max_expansion_time=20)
    if desc["src"] == "json":
        spec = materialize(desc["of"])
        if spec is None:
            return None
        return CombinatorialSpecification.from_dict(json.loads(json.dumps(spec.to_jsonable())))
    if desc["src"] == "parallel":
        finder = {"ParallelSpecFinder": ParallelSpecFinder, "EqPathParallelSpecFinder": EqPathParallelSpecFinder}[
            desc["finder"]]
        s1 = CombinatorialSpecificationSearcher(class_from_repr(desc["a"]), C12_PACKS[desc["pack_a"]]())
        s2 = CombinatorialSpecificationSearcher(class_from_repr(desc["b"]), C12_PACKS[desc["pack_b"]]())
        try:
            found = finder(s1, s2).find()
        except ValueError:  # "No specifications were found" / "Only atoms can be verified." (documented refusals)
            return None
        if found is None:
            return None
        return found[desc["side"]]
    raise ValueError(desc)


def pool_descriptors(tier, seed):
    rng = random.Random(seed)
    descs = []
    packs = _QUICK_PACKS if tier == "quick" else sorted(C12_PACKS)
    for t in _CLASSES:
        start = _cls(t)
        for pack in packs:
            if pack in PACKS and not pack_applicable(pack, start):
                continue
            if pack in ("addstat",):
                continue
            dbs = list(RULEDBS) if tier != "quick" else ["base"] + (["forest"] if rng.random() < 0.4 else []) + (
                ["forget"] if rng.random() < 0.15 else [])
            for db in dbs:
                descs.append({"src": "search", "start": repr(start), "pack": pack, "db": db})
    for a, pa, b, pb in _PARALLEL:
        for finder in ("ParallelSpecFinder", "EqPathParallelSpecFinder"):
            for side in (0, 1):
                descs.append({"src": "parallel", "finder": finder, "a": repr(_cls(a)), "pack_a": pa,
                              "b": repr(_cls(b)), "pack_b": pb, "side": side})
    return descs


def _key_worker(desc):
    try:
        spec = materialize(desc)
    except Exception as e:  # pylint: disable=broad-except
        return "build-exception:" + type(e).__name__  # searching / finding is the business of C01 / C13
    return None if spec is None else spec_key(spec)


def _category(desc):
    """parallel finders' output, tiny classes (atoms, classes equivalent to an atom, one-letter alphabets) and classes
    whose root rule is a permuted product are always kept; the rest is sampled."""
    if desc["src"] != "search":
        return "parallel"
    start = class_from_repr(desc["start"])
    if len(brute_objects(start, 3)) <= 1:
        return "tiny"
    if desc["pack"].startswith("split"):
        return "split-root" if len(start.prefix) >= 2 else "split"
    return "rest"


def build_pool(tier, seed):
    """[(descriptor, specification)], deduplicated by the specification's JSON; then JSON reloads of a subset."""
    rng = random.Random(seed + 1)
    descs = pool_descriptors(tier, seed)
    ctx = multiprocessing.get_context("fork")
    with ctx.Pool(NPROC) as workers:
        keys = workers.map(_key_worker, descs, chunksize=4)
    stats = Counter()
    chosen, seen = [], set()
    # the parallel finders' output first, so that it is not dropped as a duplicate of a plain search
    order = sorted(range(len(descs)), key=lambda i: (descs[i]["src"] != "parallel", i))
    for i in order:
        desc, key = descs[i], keys[i]
        if key is None:
            stats["none"] += 1
        elif key.startswith("build-exception"):
            stats[key] += 1
        elif key in seen:
            stats["duplicate"] += 1
        else:
            seen.add(key)
            chosen.append(desc)
    cap = 150 if tier == "quick" else 520
    cats = {"parallel": [], "tiny": [], "split-root": [], "split": [], "rest": []}
    for d in chosen:
        cats[_category(d)].append(d)
    rng.shuffle(cats["split"])
    rng.shuffle(cats["rest"])
    chosen = cats["parallel"] + cats["tiny"] + cats["split-root"] + cats["split"][: cap // 5]
    chosen += cats["rest"][: max(0, cap - len(chosen))]
    pool = []
    for desc in chosen:
        try:
            spec = materialize(desc)
        except Exception as e:  # pylint: disable=broad-except
            stats["build-exception:" + type(e).__name__] += 1
            continue
        if spec is not None:
            pool.append((desc, spec))
            stats[desc["src"]] += 1
    for desc, spec in rng.sample(pool, min(len(pool), 12 if tier == "quick" else 40)):
        try:
            pool.append(({"src": "json", "of": desc},
                         CombinatorialSpecification.from_dict(json.loads(json.dumps(spec.to_jsonable())))))
            stats["json"] += 1
        except Exception as e:  # pylint: disable=broad-except
            stats["json-exception:" + type(e).__name__] += 1  # C18's business
    return pool, stats


# --------------------------------------------------------------------------------------------------------------
# contracts
# --------------------------------------------------------------------------------------------------------------


def atoms_only(spec):
    return all(r.comb_class.is_atom() or r.comb_class.is_empty() for r in spec if isinstance(r, VerificationRule))


def _post_check_both(a, b, same, result):
    COUNTS["Isomorphism.check"] += 1
    ab, ba = result
    if ab != ba:
        return _note("isomorphism-symmetry", f"check(a, b) = {ab} but check(b, a) = {ba}")
    if same and atoms_only(a) and not ab:
        return _note("isomorphism-reflexivity", "check(a, a) is False for a specification whose verified classes are atoms")
    return True


@deal.ensure(lambda a, b, same, result: _post_check_both(a, b, same, result))
def check_both(a, b, same):
    return Isomorphism.check(a, b), Isomorphism.check(b, a)


def _post_construct(a, b, expected, result):
    COUNTS["Bijection.construct"] += 1
    if (result is not None) != expected:
        return _note("construct-vs-check", f"Isomorphism.check is {expected} but construct returned {result!r}")
    if result is not None:
        for key, order in result._get_order.items():  # pylint: disable=protected-access
            if sorted(order) != list(range(len(order))):
                return _note("child-order-permutation", f"order {order} recorded for {key[0]!r} / {key[1]!r}")
    return True


@deal.ensure(lambda a, b, expected, result: _post_construct(a, b, expected, result))
def construct(a, b, expected):
    return Bijection.construct(a, b)


def _post_transport(bij, root_a, root_b, n, result):
    COUNTS["Bijection.map"] += 1
    dom, cod = brute_objects(root_a, n), brute_objects(root_b, n)
    images, back, forth_back = result
    for o, img in zip(dom, images):
        if str(img) not in cod:
            return _note("map-lands-in-codomain", f"n={n}: map({o!r}) = {img!r} is not an object of size {n} of {root_b!r}")
    if len(set(map(str, images))) != len(images):
        dup = [w for w, c in Counter(map(str, images)).items() if c > 1][:3]
        return _note("map-injective", f"n={n}: images {dup} are hit more than once")
    if len(dom) != len(cod):
        return _note("map-onto", f"n={n}: {len(dom)} objects in the domain, {len(cod)} in the codomain")
    for o, b in zip(dom, back):
        if str(b) != o:
            return _note("inverse-of-map", f"n={n}: inverse_map(map({o!r})) = {b!r}")
    for p, fb in zip(cod, forth_back):
        if str(fb) != p:
            return _note("map-of-inverse", f"n={n}: map(inverse_map({p!r})) = {fb!r}")
    return True


@deal.ensure(lambda bij, root_a, root_b, n, result: _post_transport(bij, root_a, root_b, n, result))
def transport(bij, root_a, root_b, n):
    dom, cod = brute_objects(root_a, n), brute_objects(root_b, n)
    images = [bij.map(Word(o)) for o in dom]
    back = [bij.inverse_map(img) for img in images]
    forth_back = [bij.map(bij.inverse_map(Word(p))) for p in cod] if len(dom) == len(cod) else []
    return images, back, forth_back


# --------------------------------------------------------------------------------------------------------------
# one ordered pair
# --------------------------------------------------------------------------------------------------------------


def check_pair(da, a, db, b, nmax, same):
    """Returns (violation or None, bijection constructed?)."""
    _LAST.clear()
    witness = {"a": da, "b": db}
    try:
        ab, _ = check_both(a, b, same)
        bij = construct(a, b, ab)
    except deal.ContractError:
        return {"check": _LAST.get("check", "contract"), "what": _LAST.get("what", "")[:400], "witness": witness}, False
    except Exception as e:  # pylint: disable=broad-except
        return {"check": "isomorphism-exception", "what": f"{type(e).__name__}: {e}"[:400], "witness": witness}, False
    if bij is None:
        return None, False
    for n in range(nmax + 1):
        _LAST.clear()
        try:
            transport(bij, a.root, b.root, n)
        except deal.ContractError:
            return {"check": _LAST.get("check", "contract"), "what": _LAST.get("what", "")[:400],
                    "witness": dict(witness, n=n)}, True
        except NotImplementedError as e:
            # non-equivalence reverse rules (Complement / Quotient, forest database) have no object maps: the
            # documented refusal "Cannot map forward for non equivalence rule" is not a claim about the bijection
            if supports_generation(a) and supports_generation(b):
                return {"check": "map-refused-without-reverse-rule", "what": f"n={n}: NotImplementedError: {e}"[:400],
                        "witness": dict(witness, n=n)}, True
            COUNTS["map-refused (reverse rule without object maps)"] += 1
            return None, False
        except Exception as e:  # pylint: disable=broad-except
            check = "map-exception"
            if isinstance(e, AssertionError) and (_atom_vs_equivalent(a, b) or _atom_vs_equivalent(b, a)):
                check = "map-exception-atom-vs-class-equivalent-to-atom"
            return {"check": check, "what": f"n={n}: {type(e).__name__}: {e}"[:400],
                    "witness": dict(witness, n=n)}, True
    return None, True


def _atom_vs_equivalent(a, b):
    """a's root is verified as an atom while b's root is only equivalent to an atom (names the check, nothing else)."""
    ra, rb = a.root_rule, b.root_rule
    return (isinstance(ra, VerificationRule) and a.root.is_atom() and not isinstance(rb, VerificationRule)
            and rb.is_equivalence() and rb.children[0].is_atom())


_POOL = []


def _worker(arg):
    lo, hi, nmax = arg
    silence()
    COUNTS.clear()
    viols, evals, matched, samples = [], 0, 0, []
    n = len(_POOL)
    for idx in range(lo, hi):
        i, j = divmod(idx, n)
        (da, a), (db, b) = _POOL[i], _POOL[j]
        v, built = check_pair(da, a, db, b, nmax, i == j)
        evals += 1
        if built and i != j:
            matched += 1
            if len(samples) < 1 and da["src"] == "search" and db["src"] == "search" and da["start"] != db["start"]:
                samples.append({"a": da, "b": db, "bijection": True})
        if v is not None and len(viols) < 10:
            viols.append(v)
    return {"viols": viols, "evals": evals, "matched": matched, "samples": samples, "counts": dict(COUNTS)}


def _size(v):
    return len(json.dumps(v["witness"]))


def _dedupe(viols):
    viols = sorted(viols, key=lambda v: (v["check"], _size(v), json.dumps(v["witness"], sort_keys=True)))
    out, per = [], Counter()
    for v in viols:
        if per[v["check"]] >= 3:
            continue
        per[v["check"]] += 1
        out.append(v)
    return out[:20]


def run(tier, seed):
    global _POOL  # pylint: disable=global-statement
    nmax = 6
    t0 = time.time()
    _POOL, stats = build_pool(tier, seed)
    build_s = time.time() - t0
    n = len(_POOL)
    total = n * n
    pieces = NPROC * 12
    bounds = [round(total * k / pieces) for k in range(pieces + 1)]
    tasks = [(a, b, nmax) for a, b in zip(bounds, bounds[1:]) if a < b]
    ctx = multiprocessing.get_context("fork")
    with ctx.Pool(NPROC) as pool:
        results = pool.map(_worker, tasks, chunksize=1)
    counts = Counter()
    viols, samples = [], []
    evals = matched = 0
    for r in results:
        counts.update(r["counts"])
        viols.extend(r["viols"])
        evals += r["evals"]
        matched += r["matched"]
        samples.extend(r["samples"])
    step = max(1, len(samples) // 6)
    return {
        "bound": (f"pool of {n} distinct specifications ({dict(stats)}; built in {build_s:.1f} s), every ordered pair "
                  f"including (s, s): {total} pairs; for every constructed bijection all objects of both root classes "
                  f"of size <= {nmax}"),
        "evaluations": evals,
        "distinct_nontrivial": matched,
        "rule": ("one evaluation = one ordered pair of distinct pool entries (symmetry, reflexivity, construction, and "
                 "if a bijection is built its map / inverse on all objects); non-trivial = a bijection was constructed "
                 "between two different pool entries"),
        "exhaustive": False,
        "contracts_evaluated": dict(counts),
        "samples": samples[::step][:6],
        "violations": _dedupe(viols),
    }


def replay(violation):
    w = violation["witness"]
    for _ in range(3):
        a, b = materialize(w["a"]), materialize(w["b"])
        if a is None or b is None:
            continue
        same = w["a"] == w["b"]
        if same:
            b = a
        v, _ = check_pair(w["a"], a, w["b"], b, 6, same)
        if v is not None and v["check"] == violation["check"]:
            return True
    return False
