"""C13 bounded stand-in: the parallel specification finder is total and its output is a matched pair.

Real code under contract (never re-implemented): ``comb_spec_searcher.bijection.ParallelSpecFinder`` and
``EqPathParallelSpecFinder`` (construction, which expands both searchers, and ``find``).

Contract (deal ``ensure`` on a sidecar wrapper installed on ``ParallelSpecFinder.find`` -- inherited by the
equivalence-path variant -- evaluated at every call; the driver adds the totality clause):

  result-shape       the result is ``None`` or a pair of ``CombinatorialSpecification``;
  root               ``spec_i.root`` is the start class of searcher i and owns a rule;
  closed             every class on a right hand side (also inside equivalence paths) owns a rule or is truly empty
                     (brute force), and every class owning a rule is reachable from the root;
  counts             ``spec_check(spec_i, start_i, 6)``: terms and counts for n <= 6 equal brute force enumeration
                     (with the tracked statistics);
  isomorphic         ``Isomorphism.check(spec_1, spec_2)`` is true (the check ``Bijection.construct`` relies on);
  equinumerous       independent consequence: the two start classes have the same brute-force counts for n <= 6;
  totality           (driver) no exception escapes, except the documented ``ValueError("No specifications were
                     found")`` raised when a searcher's queue runs dry without a specification.

Family: ALL ordered pairs of a pool of (start class, pack) entries x both finders.  The pool has single-letter
alphabets, classes whose only word is the empty word, an atom as start class, classes made equivalent to another
class of their universe by the letter-swap symmetry or by an inferral strategy (so the start label differs from its
equivalence representative -- the situation of the fixed defect D5), classes with a prefix, classes tracking a
statistic, classes stored compressed, pairs that are not equinumerous, and two entries whose pack cannot specify them
with the default rule database (documented ValueError).  Packs: only atoms are verified (the finder documents that).

The local pack "step" (inferral strategy StepRemoveRedundantPatterns: a two-way single-child rule whose strategy
declares can_be_equivalent() False, so parent and child share an equivalence label without being joined by an
equivalence rule) is paired with every entry under the EqPathParallelSpecFinder only -- the variant written for that
situation; the base finder documents that it assumes classes sharing a label to be equivalent.  Its entries have 0, 1
or 2 redundant patterns, so the two sides of a pair traverse different numbers of such steps.
"""
import contextlib
import multiprocessing
from collections import Counter

import deal

import comb_spec_searcher.bijection as bijection
from comb_spec_searcher import CombinatorialSpecificationSearcher, StrategyPack
from comb_spec_searcher.isomorphism import Isomorphism
from comb_spec_searcher.specification import CombinatorialSpecification
from comb_spec_searcher.strategies.rule import EquivalencePathRule, VerificationRule
from harness.universe import (
    PACKS,
    Av,
    AvBytes,
    brute_count,
    ExpansionStrategy,
    RemoveFrontOfPrefix,
    StatAtomStrategy,
    StepRemoveRedundantPatterns,
    brute_objects,
    class_from_repr,
    silence,
    spec_check,
)

NPROC = 16
NMAX = 6
COUNTS = Counter()
_LAST = {}
_real = {}
FINDERS = {"ParallelSpecFinder": bijection.ParallelSpecFinder, "EqPathParallelSpecFinder": bijection.EqPathParallelSpecFinder}
NO_SPEC = "No specifications were found"


def _note(check, what):
    if "check" not in _LAST:
        _LAST["check"] = check
        _LAST["what"] = what
    return False


def truly_empty(cls: Av) -> bool:
    return not brute_objects(cls, len(cls.prefix))


# --------------------------------------------------------------------------------------------------------------
# The pool
# --------------------------------------------------------------------------------------------------------------

_CLASSES = [
    Av("", ["a"], "a"),  # only the empty word; equivalent to the atom in its universe (witness of D5)
    Av("", ["b"], "b"),
    Av("", [], "a"),
    Av("", [], "b"),
    Av("", ["aa"], "a"),
    Av("", ["aaa"], "a"),
    Av("", ["bb"], "b"),
    Av("", [], "ab"),
    Av("", ["aa"], "ab"),
    Av("", ["bb"], "ab"),
    Av("", ["ab"], "ab"),
    Av("", ["ba"], "ab"),
    Av("", ["aa", "bb"], "ab"),
    Av("", ["ab", "ba"], "ab"),
    Av("", ["b"], "ab"),
    Av("", ["aa", "aab"], "ab"),  # redundant pattern: an inferral strategy makes the start class equivalent
    Av("", ["b", "bbb"], "b"),
    Av("a", ["bb"], "ab"),
    Av("b", ["aa"], "ab"),
    Av("ab", ["bb"], "ab"),
    # {a, ab} = union(atom of size 1, class equivalent to an atom of size 2) against {bab} = product(atom of size 1,
    # class equivalent to an atom of size 2): same shape, different constructors -- must NOT be matched
    Av("a", ["aa", "aba", "abb"], "ab"),
    Av("bab", ["aba", "abb"], "ab"),
    Av("a", [], "a", True),  # an atom as start class
    Av("b", [], "ab", True),
    Av("", ["aba"], "ab"),
    Av("", ["bab"], "ab"),
    Av("", ["aab"], "ab"),
    Av("", ["aa"], "ab", False, ("na",)),
    Av("", ["bb"], "ab", False, ("nb",)),
    Av("", ["bb"], "ab", False, ("na",)),
    AvBytes("", ["aa"], "ab"),
    AvBytes("", ["ab"], "ab", False, ("nb",)),
]
_PACKS_ALL = ["stat", "sym", "inferral", "noinitial", "factory", "rulefactory", "lookback"]
_PACKS_QUICK = ["stat", "sym", "inferral", "factory"]
# entries the default rule database cannot specify: the documented ValueError must come back
_NO_SPEC = [(Av("a", ["bb"], "ab"), "quotient"), (Av("a", ["aba"], "ab"), "reverse")]


# packs of the universe plus the local ones
C13_PACKS = dict(PACKS)
C13_PACKS["step"] = lambda: StrategyPack(
    initial_strats=[RemoveFrontOfPrefix()],
    inferral_strats=[StepRemoveRedundantPatterns()],
    expansion_strats=[[ExpansionStrategy()]],
    ver_strats=[StatAtomStrategy()],
    name="step",
)
EQPATH_ONLY_PACKS = ("step",)
# classes for the pack "step": no / one / two redundant patterns, and letter-swapped partners
_STEP_CLASSES = [
    Av("", ["aa"], "ab"),
    Av("", ["aa", "aab"], "ab"),
    Av("", ["bb", "abb"], "ab"),
    Av("", ["bb", "bba", "abb"], "ab"),
    Av("", ["bb"], "ab"),
    Av("", ["b", "bbb"], "b"),
    Av("", ["a"], "a"),
    Av("", ["ab", "aba"], "ab"),
    Av("", ["ba"], "ab"),
    Av("", ["aa", "aab"], "ab", False, ("na",)),
    Av("", ["bb"], "ab", False, ("nb",)),
]


def pool(tier):
    packs = _PACKS_QUICK if tier == "quick" else _PACKS_ALL
    classes = _CLASSES if tier != "quick" else _CLASSES[:26] + _CLASSES[27:29] + _CLASSES[30:31]
    entries = [(repr(c), p) for c in classes for p in packs if p in PACKS]
    entries += [(repr(c), p) for c, p in _NO_SPEC if p in PACKS]
    entries += [(repr(c), "step") for c in _STEP_CLASSES]
    return entries


def finders_for(p1, p2):
    if p1 in EQPATH_ONLY_PACKS or p2 in EQPATH_ONLY_PACKS:
        return ["EqPathParallelSpecFinder"]
    return list(FINDERS)


# --------------------------------------------------------------------------------------------------------------
# Contract
# --------------------------------------------------------------------------------------------------------------


def _all_rules(spec):
    for rule in spec.rules_dict.values():
        yield rule
        if isinstance(rule, EquivalencePathRule):
            yield from rule.rules


def _closed(spec, start, which):
    lhs = {r.comb_class.key() for r in _all_rules(spec)}
    if start.key() not in {c.key() for c in spec.rules_dict}:
        return _note("root", f"specification {which}: the start class {start!r} owns no rule")
    for rule in _all_rules(spec):
        for child in rule.children:
            if child.key() not in lhs and not truly_empty(child):
                return _note("closed", f"specification {which}: {child!r} is a child of the rule of "
                             f"{rule.comb_class!r} but owns no rule and is not empty")
    # reachability from the root
    by_parent = {c.key(): r for c, r in spec.rules_dict.items()}
    seen, todo = set(), [start.key()]
    children_of = {r.comb_class.key(): [c.key() for c in r.children] for r in spec.rules_dict.values()}
    while todo:
        k = todo.pop()
        if k in seen or k not in children_of:
            continue
        seen.add(k)
        todo.extend(children_of[k])
    extra = [k for k in by_parent if k not in seen]
    if extra:
        return _note("closed", f"specification {which}: rules for classes not reachable from the root: {extra[:3]}")
    return True


def _unary_chain_to_verified(spec) -> bool:
    cls, seen = spec.root, set()
    while cls in spec.rules_dict and cls not in seen:
        seen.add(cls)
        rule = spec.rules_dict[cls]
        if isinstance(rule, VerificationRule):
            return True
        if len(rule.children) != 1:
            return False
        cls = rule.children[0]
    return False


def _post_find(self, result):
    COUNTS["find"] += 1
    info = self.__dict__.setdefault("_h_info", {})
    if result is None:
        COUNTS["find:none"] += 1
        info["outcome"] = "none"
        return True
    if not (isinstance(result, tuple) and len(result) == 2
            and all(isinstance(s, CombinatorialSpecification) for s in result)):
        return _note("result-shape", f"find() returned {type(result).__name__}: {str(result)[:100]}")
    COUNTS["find:pair"] += 1
    info["outcome"] = "pair"
    pis = (self._pi1, self._pi2)  # pylint: disable=protected-access
    # classification of a witness (not of the verdict): a start class is joined to a verified class by single-child
    # rules only, i.e. the second search matches the two roots through its atom base case
    if any(_unary_chain_to_verified(spec) for spec in result):
        _LAST["marker"] = "start-label-verified"
    starts = []
    for which, (spec, pi) in enumerate(zip(result, pis), 1):
        css = pi.searcher
        start = css.classdb.get_class(css.start_label)
        starts.append(start)
        if spec.root.key() != start.key():
            return _note("root", f"specification {which} is rooted at {spec.root!r}, searcher {which} started from {start!r}")
        if not _closed(spec, start, which):
            return False
        try:
            problems = spec_check(spec, start, NMAX)
        except Exception as e:  # pylint: disable=broad-except
            return _note("counts", f"specification {which} for {start!r}: counting raised {type(e).__name__}: {str(e)[:200]}")
        if problems:
            return _note("counts", f"specification {which} for {start!r}: {problems[0]}")
        if len(css.ruledb.equivdb.equivalent_set(css.start_label)) > 1:
            COUNTS["pair:root-in-nontrivial-equivalence-class"] += 1
            info["eqroot"] = True
        if css.ruledb.equivdb[css.start_label] != css.start_label:
            COUNTS["pair:root-label-is-not-representative"] += 1
    try:
        iso = Isomorphism.check(*result)
    except Exception as e:  # pylint: disable=broad-except
        return _note("isomorphic", f"Isomorphism.check raised {type(e).__name__}: {str(e)[:200]}")
    if not iso:
        return _note("isomorphic", f"Isomorphism.check is False for the specifications of {starts[0]!r} and {starts[1]!r}")
    for n in range(NMAX + 1):
        if brute_count(starts[0], n) != brute_count(starts[1], n):
            return _note("equinumerous", f"a pair was returned for {starts[0]!r} and {starts[1]!r}, which have "
                         f"{brute_count(starts[0], n)} and {brute_count(starts[1], n)} words of size {n}")
    if starts[0].key() != starts[1].key():
        info["different"] = True
    return True


@contextlib.contextmanager
def installed():
    P = bijection.ParallelSpecFinder
    _real["find"] = P.find

    @deal.ensure(lambda self, result: _post_find(self, result))
    def find(self):
        return _real["find"](self)

    P.find = find
    try:
        yield
    finally:
        P.find = _real["find"]


# --------------------------------------------------------------------------------------------------------------
# Driver
# --------------------------------------------------------------------------------------------------------------


def run_case(case):
    """case = (repr(class 1), pack 1, repr(class 2), pack 2, finder name)."""
    c1, p1, c2, p2, finder = case
    witness = {"class1": c1, "pack1": p1, "class2": c2, "pack2": p2, "finder": finder}
    _LAST.clear()

    def viol(check, what):
        if "marker" in _LAST:
            witness["marker"] = _LAST["marker"]
        return {"check": check, "witness": witness, "what": what[:600]}

    s1 = CombinatorialSpecificationSearcher(class_from_repr(c1), C13_PACKS[p1]())
    s2 = CombinatorialSpecificationSearcher(class_from_repr(c2), C13_PACKS[p2]())
    silence()
    try:
        f = FINDERS[finder](s1, s2)
        f.find()
        info = f.__dict__.get("_h_info", {})
        return None, info
    except deal.ContractError:
        return viol(_LAST.get("check", "contract"), _LAST.get("what", "contract failed")), {}
    except ValueError as e:
        if str(e) == NO_SPEC:
            COUNTS["documented-ValueError"] += 1
            return None, {"outcome": "no-spec"}
        return viol("totality", f"ValueError: {str(e)[:300]}"), {}
    except Exception as e:  # pylint: disable=broad-except
        return viol("totality", f"{type(e).__name__}: {str(e)[:300]}"), {}


def _worker(cases):
    silence()
    COUNTS.clear()
    viols, infos = [], []
    with installed():
        for case in cases:
            v, info = run_case(case)
            if v is not None:
                viols.append(v)
            else:
                infos.append((case, info))
    return viols, infos, dict(COUNTS)


def run(tier, seed):
    entries = pool(tier)
    cases = [(c1, p1, c2, p2, f) for (c1, p1) in entries for (c2, p2) in entries for f in finders_for(p1, p2)]
    nchunks = NPROC * 8
    chunks = [cases[i::nchunks] for i in range(nchunks)]
    ctx = multiprocessing.get_context("fork")
    with ctx.Pool(NPROC) as pool_:
        results = pool_.map(_worker, chunks, chunksize=1)
    counts = Counter()
    viols, infos = [], []
    for v, i, c in results:
        viols.extend(v)
        infos.extend(i)
        counts.update(c)
    infos.sort(key=lambda x: x[0])
    pairs = [(c, i) for c, i in infos if i.get("outcome") == "pair"]
    nontrivial = [c for c, i in pairs if i.get("different") or i.get("eqroot")]
    samples = [{"class1": c[0], "pack1": c[1], "class2": c[2], "pack2": c[3], "finder": c[4], "outcome": i.get("outcome")}
               for c, i in (pairs[:: max(1, len(pairs) // 4)][:4] + infos[:: max(1, len(infos) // 3)][:3])]
    return {
        "bound": (f"ALL {len(entries)}^2 ordered pairs of a pool of {len(entries)} (start class, pack) entries x 2 finders "
                  f"(pairs involving the local pack 'step' -- {len(_STEP_CLASSES)} entries with 0-2 redundant patterns, "
                  f"a two-way single-child rule that is not an equivalence rule -- under EqPathParallelSpecFinder only) "
                  f"= {len(cases)} calls; pool = {len({e[0] for e in entries})} classes (alphabets a, b, ab; <= 2 patterns "
                  "of length <= 3; prefix length <= 2; 0-1 statistics; an atom; two stored compressed) x packs "
                  f"{sorted({e[1] for e in entries})}; returned specifications compared with brute force for n <= {NMAX}"),
        "evaluations": len(cases),
        "distinct_nontrivial": len(nontrivial),
        "pairs_returned": len(pairs),
        "rule": ("one evaluation = one finder call on an ordered pair of pool entries (enumerated without repetition); "
                 "non-trivial when a pair of specifications came back AND (the two start classes differ OR a start "
                 "class shares its equivalence class with another class of its universe)"),
        "exhaustive": True,
        "contracts_evaluated": dict(counts),
        "samples": samples,
        "violations": _dedupe(viols),
    }


def _dedupe(viols):
    """At most 4 witnesses per (check, marker), the smallest first."""
    viols = sorted(viols, key=lambda v: (v["check"], len(str(v["witness"])), str(v["witness"])))
    out, per = [], Counter()
    for v in viols:
        key = (v["check"], v["witness"].get("marker"))
        if per[key] >= 4:
            continue
        per[key] += 1
        out.append(v)
    return out[:20]


def replay(violation):
    w = violation["witness"]
    silence()
    COUNTS.clear()
    with installed():
        v, _ = run_case((w["class1"], w["pack1"], w["class2"], w["pack2"], w["finder"]))
    return v is not None
