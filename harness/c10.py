"""Bounded stand-in of C10: declared shifts bound what a rule actually reads when counting.

Provider trace monitor.  Sidecar wrappers of the real
    CartesianProduct.get_terms, Quotient.get_terms, DisjointUnion.get_terms, Complement.get_terms
hand the constructor *traced* providers (every request (child index i, size m) and every request for the rule's own
earlier terms is recorded, then forwarded to the real provider).  For the rule under test (all rule forms of c09: the
rule, reverse per child [Complement / Quotient], equivalence, reverse of equivalence, equivalence of reverse,
equivalence paths), with providers bound to brute force, computing level n must satisfy

    deal post "request-exceeds-shift"      : every (i, m) has  m <= n - rule.shifts()[i]
    deal post "self-request-not-smaller"   : every request for the rule's own terms has size  < n
    deal post "negative-size-request"      : no provider is asked for a negative size (a real rule would answer a
                                             negative size from the wrong end of its cache)

The same conditions are also enforced eagerly inside the traced providers (a violating request raises before it is
forwarded), so that a circular read is reported instead of recursing for ever.
"""
from __future__ import annotations

import contextlib
import traceback
import zlib
from collections import Counter
from typing import Dict, List

import deal

from comb_spec_searcher.strategies.constructor import (
    CartesianProduct,
    Complement,
    DisjointUnion,
    Quotient,
)
from comb_spec_searcher.utils import TermsCache

from harness import c01, c09
from harness.universe import START_CLASSES, class_from_repr, silence

NMAX = {"quick": 8, "thorough": 8}
MAX_PREFIX = {"quick": 2, "thorough": 3}
MAX_CLASSES_PER_START = {"quick": 110, "thorough": 400}
MAX_CHAINS_PER_CLASS = {"quick": 4, "thorough": 20}

FIRED: Counter = Counter()
CUR: Dict[str, object] = {"constructor": None, "shifts": None, "events": None}


class ShiftViolation(Exception):
    def __init__(self, check: str, what: str):
        super().__init__(what)
        self.check = check
        self.what = what


def _violations_in(events, n, shifts) -> List[tuple]:
    bad = []
    for who, m in events:
        if m < 0:
            bad.append(("negative-size-request", who, m))
        if who == "self":
            if not m < n:
                bad.append(("self-request-not-smaller", who, m))
        elif not m <= n - shifts[who]:
            bad.append(("request-exceeds-shift", who, m))
    return bad


def _clause(check: str):
    def post(self, parent_terms, subterms, n, result) -> bool:
        if self is not CUR["constructor"]:
            return True
        FIRED[f"{check} (per get_terms call of the constructor under test)"] += 1
        events = CUR["events"][-1][1] if CUR["events"] else []
        return not any(b[0] == check for b in _violations_in(events, n, CUR["shifts"]))

    return post


def _sidecar(real):
    @deal.ensure(_clause("negative-size-request"), message="negative-size-request")
    @deal.ensure(_clause("self-request-not-smaller"), message="self-request-not-smaller")
    @deal.ensure(_clause("request-exceeds-shift"), message="request-exceeds-shift")
    def contracted(self, parent_terms, subterms, n):
        return real(self, parent_terms, subterms, n)

    def get_terms(self, parent_terms, subterms, n):
        if self is not CUR["constructor"]:
            return real(self, parent_terms, subterms, n)
        shifts = CUR["shifts"]
        events: List[tuple] = []
        CUR["events"].append((n, events))

        def eager(who, m):
            events.append((who, m))
            FIRED["provider requests traced"] += 1
            bad = _violations_in([(who, m)], n, shifts)
            if bad:
                check = bad[0][0]
                bound = (n - 1) if who == "self" else n - shifts[who]
                raise ShiftViolation(
                    check,
                    f"computing level {n} with shifts {tuple(shifts)}: provider {who} asked for size {m} "
                    f"(allowed: <= {bound})",
                )

        def traced(i, provider):
            def request(m):
                eager(i, m)
                return provider(m)

            return request

        def own(m):
            eager("self", m)
            return parent_terms(m)

        return contracted(
            self, own, tuple(traced(i, f) for i, f in enumerate(subterms)), n
        )

    return get_terms


_REAL = {
    cls: cls.get_terms for cls in (CartesianProduct, Quotient, DisjointUnion, Complement)
}


@contextlib.contextmanager
def contracts_installed():
    for cls, real in _REAL.items():
        cls.get_terms = _sidecar(real)
    try:
        yield
    finally:
        for cls, real in _REAL.items():
            cls.get_terms = real


def check_form(desc: dict, nmax: int) -> dict:
    res = {"status": "ok", "violation": None, "requests": 0, "cons": None}
    rule = None
    n = None
    try:
        rule = c09.bind(c09.build(desc))
        CUR["constructor"] = rule.constructor
        CUR["shifts"] = tuple(rule.shifts())
        CUR["events"] = []
        res["cons"] = type(rule.constructor).__name__
        for n in range(nmax + 1):
            rule.get_terms(n)
            levels = [lvl for lvl, _ in CUR["events"]]
            if levels != list(range(n + 1)):
                raise ShiftViolation(
                    "levels-out-of-order",
                    f"get_terms({n}) made the constructor compute levels {levels[-3:]} "
                    f"(expected each of 0..{n} exactly once, in order)",
                )
    except NotImplementedError:
        res["status"] = "not-implemented"
    except ShiftViolation as e:
        res["status"] = "violation"
        res["violation"] = {
            "check": e.check,
            "witness": dict(desc, n=n),
            "what": e.what[:300],
        }
    except deal.PostContractError as e:
        res["status"] = "violation"
        check = str(e).split(" ")[0]
        res["violation"] = {
            "check": check,
            "witness": dict(desc, n=n),
            "what": f"trace of level {n}: {CUR['events'][-1][1][:12]} shifts {CUR['shifts']}"[:300],
        }
    except Exception as e:  # pylint: disable=broad-except
        # wrong or failing counts are C09's business (e.g. complement-many-to-one); the trace so far was checked
        res["status"] = "crashed:" + type(e).__name__
    finally:
        res["requests"] = sum(len(ev) for _, ev in (CUR["events"] or []))
        CUR["constructor"] = CUR["shifts"] = CUR["events"] = None
        if rule is not None:
            c09.BOUND.pop(id(rule), None)
    return res


def worker(arg) -> dict:
    start_repr, tier = arg
    silence()
    FIRED.clear()
    start = class_from_repr(start_repr)
    classes = c09.family(start, MAX_PREFIX[tier], MAX_CLASSES_PER_START[tier])
    descs = c09.enumerate_forms(classes, MAX_CHAINS_PER_CLASS[tier])
    c09.NOT_BUILT.clear()
    out = {"results": [], "fired": None, "classes": len(classes)}
    with contracts_installed():
        for desc in descs:
            r = check_form(desc, NMAX[tier])
            out["results"].append(
                (
                    zlib.crc32(repr(desc).encode()),
                    c09.kind_of(desc),
                    r["status"],
                    r["cons"],
                    r["requests"],
                    r["violation"],
                )
            )
    out["fired"] = dict(FIRED)
    TermsCache.ALL_CACHES.clear()
    return out


def run(tier: str, seed: int) -> dict:
    starts = START_CLASSES(tier, seed)
    fired: Counter = Counter()
    seen = set()
    status: Counter = Counter()
    by_cons: Counter = Counter()
    violations = []
    evaluations = 0
    nontrivial = 0
    n_classes = 0
    for out in c01.map_cases(
        worker, [(repr(s), tier) for s in starts], chunksize=1
    ):
        fired.update(out["fired"])
        n_classes += out["classes"]
        for key, kind, st, cons, requests, violation in out["results"]:
            evaluations += 1
            if key in seen:
                continue
            seen.add(key)
            status[st] += 1
            by_cons[cons] += 1
            if requests:
                nontrivial += 1
            if violation is not None:
                violations.append(violation)
    return {
        "bound": (
            f"{len(starts)} start classes; per start the closure under {len(c09.strategies())} strategies with "
            f"prefix length <= {MAX_PREFIX[tier]}, <= 2 statistics, <= {MAX_CLASSES_PER_START[tier]} classes "
            f"({n_classes} classes visited, with repetition); all rule forms of c09 (<= "
            f"{MAX_CHAINS_PER_CLASS[tier]} path chains per class); levels n = 0..{NMAX[tier]} computed one by one"
        ),
        "evaluations": evaluations,
        "distinct_nontrivial": nontrivial,
        "rule": (
            "case = (class, strategy, derived form), providers = brute force wrapped by the trace monitor; distinct "
            "= distinct descriptors; non-trivial = at least one provider request was recorded; by constructor: "
            f"{dict(by_cons)}; outcomes: {dict(status)} (crashed = the count itself failed, which is C09's "
            "complement-many-to-one finding; the trace up to the failure was still checked)"
        ),
        "exhaustive": False,
        "contracts_evaluated": dict(fired),
        "samples": [
            {
                "class": "Av('ab', ['bb'], 'ab', False, ('na',))",
                "strategy": "RemoveFrontOfPrefix(merge=False)",
                "form": ["reverse", 1],
                "meaning": "Quotient rule: class(b) = class(ab) / {a}; shifts (-1, 0)",
            }
        ],
        "violations": c09.dedupe(violations),
    }


def replay(violation: dict) -> bool:
    silence()
    desc = {k: v for k, v in violation["witness"].items() if k != "n"}
    with contracts_installed():
        r = check_form(desc, max(NMAX.values()))
    return r["violation"] is not None and r["violation"]["check"] == violation["check"]
