"""C18 bounded stand-in: JSON round trips preserve specifications, rules, packs, strategies, bijections.

Real code under contract (never re-implemented): ``to_jsonable`` / ``from_dict`` of ``CombinatorialSpecification``,
``AbstractRule`` (``Rule``, ``VerificationRule``, ``EquivalenceRule``, ``EquivalencePathRule``, ``ReverseRule``),
``AbstractStrategy`` / ``StrategyFactory`` (``strategy_from_dict``), ``StrategyPack``, ``Bijection``; the equalities
``CombinatorialSpecification.__eq__``, ``AbstractRule.__eq__``, ``EquivalencePathRule.__eq__``,
``AbstractStrategy.__eq__``, ``StrategyPack.__eq__``.

Every dump goes through real JSON text: ``X.from_dict(json.loads(json.dumps(x.to_jsonable())))``.

Contracts (deal, on sidecar wrappers):

* ``reload_spec(spec)`` (after ``count_objects_of_size`` was called, so lazily added empty rules exist):
  ``reloaded == spec`` and ``spec == reloaded``; the same classes on the left and, class by class, the same rule form
  (type, types of the members of a path, of the original of an equivalence / reverse rule), equal rules and equal
  JSON; same counts (all parameter vectors, n <= 7), same objects (n <= 5, when generation is supported), same
  equations (``get_equations``; both sides must fail alike when a strategy refuses);
* ``reload_rule(rule)`` for every rule form (the specification's own rules, the members of its paths and every form
  ``harness.c07.derived_forms`` derives: equivalence, reverse-of-equivalence, reverse with every index, paths with
  reverse members): ``AbstractRule.from_dict(...) == rule``, same type, same parent and children, same JSON again;
* ``reload_pack(pack)`` for every pack of the universe (also ``make_iterative()``): equal both ways, same JSON again;
* ``reload_strategy(s)`` for every strategy / factory occurring in a pack, ``ALL_STRATEGIES()``, the local ones and
  ``AtomStrategy / EmptyStrategy``: equal both ways; instances created through other code paths (``copy``,
  ``pickle``, keyword defaults spelled out, subscripted generics such as ``EmptyStrategy[Av, Word]()``) are equal to
  the plain instance; and over the whole list ``s == t`` holds exactly when kind and settings (the JSON) coincide;
* ``reload_bijection(bij)``: the reloaded bijection's ``map`` / ``inverse_map`` agree with the original's on all
  objects of size <= 5.

Family: the searches of C07 / C12 plus the packs of ``LOCAL_PACKS``: ``dependent`` (``VerifiedThroughFactor``: a
verification rule WITH a child, the documented way of marking a dependency -- the children of such a rule are not stored
in its JSON and must come back through the strategy), ``quotient-stat`` (reverse product rules whose factors use local
statistic names), ``rename`` (equivalence paths through renamed statistics), ``localnames`` / ``restmiddle``
(``SplitPrefix`` products, ``ExpansionDropVanishing`` unions).  (When the start class itself is verified through a
dependency that nothing specifies, the forest database raises RuntimeError where the others answer "no specification";
searches that raise are skipped here -- reported separately, not a C18 matter.)
"""
import copy
import json
import multiprocessing
import pickle
import time
from collections import Counter

import deal

from comb_spec_searcher import AtomStrategy, CombinatorialSpecification, StrategyFactory, StrategyPack
from harness.universe import class_from_repr
from comb_spec_searcher.isomorphism import Bijection
from comb_spec_searcher.strategies.rule import (
    AbstractRule,
    EquivalencePathRule,
    EquivalenceRule,
    ReverseRule,
    VerificationRule,
)
from comb_spec_searcher.strategies.strategy import AbstractStrategy, EmptyStrategy
from harness.c07 import (
    ALL_PACKS,
    ExpansionReversed,
    FirstLetterToA,
    RemoveFrontDropStat,
    build_spec,
    derived_forms,
    family_jobs,
    family_starts,
    spec_key,
    supports_generation,
)
from harness.c12 import C12_PACKS, SplitLetters, materialize
from harness.universe import *  # noqa: F401,F403

NPROC = 16
COUNTS = Counter()
_LAST = {}


def _note(check, what):
    _LAST["check"] = check
    _LAST["what"] = what
    return False


def _local_pack(name, initial, inferral, expansion, ver):
    return StrategyPack(initial_strats=initial, inferral_strats=inferral, expansion_strats=expansion, ver_strats=ver,
                        name=name)


LOCAL_PACKS = {
    "dependent": lambda: _local_pack("dependent", [RemoveFrontOfPrefix()], [], [[ExpansionStrategy()]],
                                     [StatAtomStrategy(), VerifiedThroughFactor()]),
    "quotient-stat": lambda: _local_pack("quotient-stat", [], [], [[PrependStatFactory()]],
                                         [StatAtomStrategy(), LongPrefixVerified(k=2)]),
    "rename": lambda: _local_pack("rename", [RemoveFrontOfPrefix()],
                                  [RenameStats(), RemoveRedundantPatterns(), DropZeroStats()],
                                  [[ExpansionStrategy()]], [StatAtomStrategy()]),
    "localnames": lambda: _local_pack("localnames", [SplitPrefix(pieces=1, rest_at=0, local_names=True)], [],
                                      [[ExpansionDropVanishing()]], [StatAtomStrategy()]),
    "restmiddle": lambda: _local_pack("restmiddle", [SplitPrefix(pieces=2, rest_at=1), SplitPrefix(pieces=1, rest_at=0)],
                                      [], [[ExpansionStrategy()]], [StatAtomStrategy()]),
}
NO_FOREST_PACKS = ()
C18_PACKS = dict(C12_PACKS)
C18_PACKS.update(LOCAL_PACKS)
LOCAL_STARTS = [("b", ["bb"], "ab", ()), ("a", ["ab"], "ab", ()), ("b", ["ba"], "ab", ("nb",)),
                ("aab", ["bb"], "ab", ("na",)), ("a", ["aa", "ab"], "ab", ("na",))]


def local_jobs(tier, seed):
    starts = list(family_starts(tier, seed))
    starts += [c for c in (Av(p, patts, al, False, st) for p, patts, al, st in LOCAL_STARTS) if c not in set(starts)]
    return [{"start": repr(start), "pack": pack, "db": db} for start in starts for pack in LOCAL_PACKS
            for db in RULEDBS if not (db == "forest" and pack in NO_FOREST_PACKS)]


def build_spec(job):  # noqa: F811  (the C07 function, over the enlarged table of packs)
    start = class_from_repr(job["start"])
    spec = find_spec(start, C18_PACKS[job["pack"]](), RULEDBS[job["db"]](), max_expansion_time=20)
    return start, spec


def via_json(obj):
    return json.loads(json.dumps(obj.to_jsonable()))


def canon(obj):
    return json.dumps(obj.to_jsonable(), sort_keys=True)


# --------------------------------------------------------------------------------------------------------------
# rules
# --------------------------------------------------------------------------------------------------------------


def shape(rule):
    """The rule form, recursively (what "the same rule" means beyond the library's own equality)."""
    if isinstance(rule, EquivalencePathRule):
        return ("path",) + tuple(shape(r) for r in rule.rules)
    if isinstance(rule, ReverseRule):
        return ("reverse", rule.idx, shape(rule.original_rule))
    if isinstance(rule, EquivalenceRule):
        return ("equivalence", shape(rule.original_rule))
    return (type(rule).__name__, type(rule.strategy).__name__)


def _post_reload_rule(rule, result):
    COUNTS["AbstractRule.from_dict"] += 1
    if type(result) is not type(rule):
        return _note("rule-type", f"{type(rule).__name__} reloaded as {type(result).__name__}")
    if shape(result) != shape(rule):
        return _note("rule-form", f"{shape(rule)} reloaded as {shape(result)}")
    if result.comb_class != rule.comb_class or tuple(result.children) != tuple(rule.children):
        return _note("rule-classes", f"{rule.comb_class!r} -> {rule.children!r} reloaded as "
                                     f"{result.comb_class!r} -> {result.children!r}")
    if not result == rule or not rule == result:
        return _note("rule-equality", f"reloaded rule != original ({shape(rule)} on {rule.comb_class!r})")
    if canon(result) != canon(rule):
        return _note("rule-json-stable", f"second dump differs for {shape(rule)} on {rule.comb_class!r}")
    return True


@deal.ensure(lambda rule, result: _post_reload_rule(rule, result))
def reload_rule(rule):
    return AbstractRule.from_dict(via_json(rule))


# --------------------------------------------------------------------------------------------------------------
# specifications
# --------------------------------------------------------------------------------------------------------------


def _equations(spec):
    try:
        return [str(eq) for eq in spec.get_equations()]
    except Exception as e:  # pylint: disable=broad-except
        return f"{type(e).__name__}: {e}"


def _post_reload_spec(spec, start, nmax, omax, equations, result):
    COUNTS["CombinatorialSpecification.from_dict"] += 1
    if not result == spec or not spec == result:
        return _note("spec-equality", "reloaded specification != original")
    if result.root != spec.root:
        return _note("spec-root", f"{spec.root!r} reloaded as {result.root!r}")
    if set(result.rules_dict) != set(spec.rules_dict):
        diff = set(result.rules_dict) ^ set(spec.rules_dict)
        return _note("spec-classes", f"left-hand sides differ: {sorted(map(repr, diff))[:3]}")
    for cls, rule in spec.rules_dict.items():
        other = result.rules_dict[cls]
        if type(other) is not type(rule) or shape(other) != shape(rule):
            return _note("spec-rule-form", f"{cls!r}: {shape(rule)} reloaded as {shape(other)}")
        if not other == rule or canon(other) != canon(rule):
            return _note("spec-rule-equality", f"{cls!r}: rule differs after reload")
    for n in range(nmax + 1):
        for params in start.possible_parameters(n):
            a, b = spec.count_objects_of_size(n, **params), result.count_objects_of_size(n, **params)
            if a != b:
                return _note("spec-counts", f"n={n} {params}: {a} before, {b} after reload")
    if supports_generation(spec):
        for n in range(omax + 1):
            for params in start.possible_parameters(n):
                a = sorted(map(str, spec.generate_objects_of_size(n, **params)))
                b = sorted(map(str, result.generate_objects_of_size(n, **params)))
                if a != b:
                    return _note("spec-objects", f"n={n} {params}: {a[:5]} before, {b[:5]} after reload")
    if equations:
        a, b = _equations(spec), _equations(result)
        if a != b:
            return _note("spec-equations", f"{str(a)[:150]} before, {str(b)[:150]} after reload")
    return True


@deal.ensure(lambda spec, start, nmax, omax, equations, result:
             _post_reload_spec(spec, start, nmax, omax, equations, result))
def reload_spec(spec, start, nmax, omax, equations):
    return CombinatorialSpecification.from_dict(via_json(spec))


# --------------------------------------------------------------------------------------------------------------
# packs and strategies
# --------------------------------------------------------------------------------------------------------------


def _post_reload_pack(pack, result):
    COUNTS["StrategyPack.from_dict"] += 1
    if not result == pack or not pack == result:
        return _note("pack-equality", f"pack {pack.name!r} != its reload")
    if canon(result) != canon(pack):
        return _note("pack-json-stable", f"second dump of pack {pack.name!r} differs")
    return True


@deal.ensure(lambda pack, result: _post_reload_pack(pack, result))
def reload_pack(pack):
    return StrategyPack.from_dict(via_json(pack))


def _post_reload_strategy(strategy, result):
    COUNTS["AbstractStrategy.from_dict"] += 1
    if type(result) is not type(strategy):
        return _note("strategy-type", f"{strategy!r} reloaded as {result!r}")
    if not result == strategy or not strategy == result:
        return _note("strategy-equality", f"{strategy!r} != its reload {result!r}")
    if canon(result) != canon(strategy):
        return _note("strategy-json-stable", f"second dump of {strategy!r} differs")
    return True


@deal.ensure(lambda strategy, result: _post_reload_strategy(strategy, result))
def reload_strategy(strategy):
    if isinstance(strategy, StrategyFactory):
        return StrategyFactory.from_dict(via_json(strategy))
    return AbstractStrategy.from_dict(via_json(strategy))


def _post_same(a, b, how, result):
    COUNTS["strategy-equality-by-settings"] += 1
    same = canon(a) == canon(b) and type(a) is type(b)
    if result != (same, same):
        return _note("strategy-equality-by-settings",
                     f"{a!r} vs {b!r} ({how}): same kind and settings = {same}, == gives {result}")
    return True


@deal.ensure(lambda a, b, how, result: _post_same(a, b, how, result))
def equal_both_ways(a, b, how):
    return bool(a == b), bool(b == a)


def strategy_list():
    strats = []
    for make in C18_PACKS.values():
        strats.extend(make())
    strats.extend(ALL_STRATEGIES())
    strats += [
        ExpansionReversed(), ExpansionReversed(merge=True), FirstLetterToA(), FirstLetterToA(with_empty=True),
        RemoveFrontDropStat(), SplitLetters(order=(2, 0, 1)), AtomStrategy(), EmptyStrategy(), StatAtomStrategy(),
        LongPrefixVerified(k=3), LongPrefixVerified(ignore_parent=True, k=2), FiniteVerified(ignore_parent=True),
        ExpansionStrategy(ignore_parent=True), ExpansionStrategy(inferrable=False), ExpansionStrategy(possibly_empty=False),
        ExpansionStrategy(workable=False), RemoveFrontOfPrefix(ignore_parent=False), RemoveFrontOfPrefix(workable=False),
        SwapSymmetry(ignore_parent=True), AddStat(stat="nb"), AddStat(stat="na", only_root=False),
        CoreFactory(), LookAheadRuleFactory(), LookBackRuleFactory(),
        SplitPrefix(), SplitPrefix(pieces=2, rest_at=5, local_names=True), SplitPrefix(ignore_parent=False, rest_at=1),
        RenameStats(), OneWaySwap(), OneWaySwap(workable=True), StepRemoveRedundantPatterns(), ExpansionDropVanishing(),
        ExpansionDropVanishing(merge=True), VerifiedThroughFactor(), VerifiedThroughFactor(ignore_parent=True),
        PrependStatFactory(), PrependRuleFactory(),
    ]
    out, seen = [], set()
    for s in strats:
        key = (type(s).__name__, canon(s))
        if key not in seen:
            seen.add(key)
            out.append(s)
    return out


def other_code_paths(strategy):
    """Instances of the same kind and settings created differently."""
    res = [("copy", copy.copy(strategy)), ("deepcopy", copy.deepcopy(strategy)),
           ("pickle", pickle.loads(pickle.dumps(strategy)))]
    d = via_json(strategy)
    d.pop("class_module")
    d.pop("strategy_class")
    try:
        res.append(("cls.from_dict", type(strategy).from_dict(dict(d))))
    except Exception:  # pylint: disable=broad-except
        pass
    cls = type(strategy)
    try:
        alias = cls[Av, Word]
    except TypeError:
        alias = None
    if alias is not None:
        try:
            res.append(("subscripted generic from_dict", alias.from_dict(dict(d))))
        except Exception:  # pylint: disable=broad-except
            pass
        if not d or isinstance(strategy, (AtomStrategy, EmptyStrategy)):
            res.append(("subscripted generic()", alias()))
    return res


def check_strategies(out):
    strats = strategy_list()
    for s in strats:
        _LAST.clear()
        out["evals"] += 1
        try:
            reload_strategy(s)
            for how, t in other_code_paths(s):
                out["evals"] += 1
                equal_both_ways(s, t, how)
        except deal.ContractError:
            out["viols"].append(_viol({"strategy": repr(s)}))
        except Exception as e:  # pylint: disable=broad-except
            _note("strategy-exception", f"{s!r}: {type(e).__name__}: {e}")
            out["viols"].append(_viol({"strategy": repr(s)}))
    plain = [s for s in strats if not isinstance(s, StrategyFactory)]
    for a in plain:
        for b in plain:
            _LAST.clear()
            out["evals"] += 1
            try:
                equal_both_ways(a, b, "list")
            except deal.ContractError:
                out["viols"].append(_viol({"strategy": repr(a), "other": repr(b)}))
    out["strategies"] = len(strats)
    try:
        generic_a, generic_b = EmptyStrategy[Av, Word](), EmptyStrategy[AvBytes, Word]()
        equal_both_ways(generic_a, EmptyStrategy(), "EmptyStrategy[Av, Word]()")
        equal_both_ways(generic_a, generic_b, "two subscripted generics")
    except deal.ContractError:
        out["viols"].append(_viol({"strategy": "EmptyStrategy[X, Y]()"}))


def check_packs(out):
    for name, make in C18_PACKS.items():
        for variant in ("plain", "iterative"):
            pack = make()
            if variant == "iterative":
                pack = pack.make_iterative("_iter")
            _LAST.clear()
            out["evals"] += 1
            try:
                reload_pack(pack)
            except deal.ContractError:
                out["viols"].append(_viol({"pack": name, "variant": variant}))
            except Exception as e:  # pylint: disable=broad-except
                _note("pack-exception", f"{name}: {type(e).__name__}: {e}")
                out["viols"].append(_viol({"pack": name, "variant": variant}))
    out["packs"] = 2 * len(C18_PACKS)


# --------------------------------------------------------------------------------------------------------------
# bijections
# --------------------------------------------------------------------------------------------------------------

_BIJ_PAIRS = [
    (("", ["aa"], "ab", ()), "stat", "base", ("", ["bb"], "ab", ()), "stat", "base"),
    (("", ["aa"], "ab", ()), "sym", "base", ("", ["bb"], "ab", ()), "stat", "forget"),
    (("", ["aa"], "ab", ()), "inferral", "base", ("", ["bb", "abb"], "ab", ()), "inferral", "base"),
    (("", ["ab"], "ab", ()), "stat", "base", ("", ["ba"], "ab", ()), "reversed", "base"),
    (("", ["aab"], "ab", ()), "stat", "base", ("", ["bba"], "ab", ()), "stat", "base"),
    (("aa", ["bb"], "ab", ()), "split-012", "base", ("bb", ["aa"], "ab", ()), "split-201", "base"),
    (("ab", ["aa"], "ab", ("na",)), "split-120", "base", ("ab", ["aa"], "ab", ("na",)), "split-012", "base"),
    (("ab", ["aa"], "ab", ("na",)), "split-102", "base", ("ba", ["bb"], "ab", ("nb",)), "split-201", "base"),
    (("", ["aa"], "ab", ("na",)), "stat", "base", ("", ["bb"], "ab", ("nb",)), "stat", "base"),
    (("", [], "a", ()), "stat", "base", ("", ["b"], "ab", ()), "stat", "base"),
    (("", ["aa", "bb"], "ab", ()), "stat", "base", ("", ["aa", "bb"], "ab", ()), "sym", "base"),
    (("", ["aa"], "ab", ()), "stat", "forest", ("", ["bb"], "ab", ()), "lookback", "forest"),
    (("b", ["aa"], "ab", ()), "firstletter", "base", ("a", ["bb"], "ab", ()), "stat", "base"),
    (("", [], "ab", ()), "stat", "base", ("", [], "ab", ()), "reversed", "base"),
]


def _post_reload_bijection(bij, omax, result):
    COUNTS["Bijection.from_dict"] += 1
    for n in range(omax + 1):
        for w in brute_objects(bij.domain.root, n):
            a, b = bij.map(Word(w)), result.map(Word(w))
            if str(a) != str(b):
                return _note("bijection-map", f"map({w!r}) = {a!r} before, {b!r} after reload")
        for w in brute_objects(bij.codomain.root, n):
            a, b = bij.inverse_map(Word(w)), result.inverse_map(Word(w))
            if str(a) != str(b):
                return _note("bijection-inverse-map", f"inverse_map({w!r}) = {a!r} before, {b!r} after reload")
    if json.dumps(result.to_jsonable(), sort_keys=True) != json.dumps(bij.to_jsonable(), sort_keys=True):
        return _note("bijection-json-stable", "second dump of the bijection differs")
    return True


@deal.ensure(lambda bij, omax, result: _post_reload_bijection(bij, omax, result))
def reload_bijection(bij, omax):
    return Bijection.from_dict(via_json(bij))


def bijection_descs(idx):
    a, pa, da, b, pb, db = _BIJ_PAIRS[idx]
    return ({"src": "search", "start": repr(Av(a[0], a[1], a[2], False, a[3])), "pack": pa, "db": da},
            {"src": "search", "start": repr(Av(b[0], b[1], b[2], False, b[3])), "pack": pb, "db": db})


def check_bijection(idx, omax, out):
    da, db = bijection_descs(idx)
    for x, y in ((da, db), (db, da), (da, da)):
        _LAST.clear()
        sa, sb = materialize(x), materialize(y)
        if sa is None or sb is None:
            continue
        bij = Bijection.construct(sa, sb)
        if bij is None:
            out["bijection_none"] += 1
            continue
        out["evals"] += 1
        out["bijections"] += 1
        try:
            reload_bijection(bij, omax)
        except deal.ContractError:
            out["viols"].append(_viol({"bijection": idx, "a": x, "b": y}))
        except Exception as e:  # pylint: disable=broad-except
            _note("bijection-exception", f"{type(e).__name__}: {e}")
            out["viols"].append(_viol({"bijection": idx, "a": x, "b": y}))


# --------------------------------------------------------------------------------------------------------------
# jobs
# --------------------------------------------------------------------------------------------------------------


def _viol(witness):
    return {"check": _LAST.get("check", "contract"), "what": _LAST.get("what", "contract failed")[:400],
            "witness": witness}


def _all_forms(spec):
    """Every rule object to round trip: the specification's rules, path members, derived forms."""
    seen, out = set(), []

    def add(name, rule):
        key = (name, canon(rule))
        if key not in seen:
            seen.add(key)
            out.append((name, rule))

    for rule in list(spec):
        add("spec:" + type(rule).__name__, rule)
        if isinstance(rule, VerificationRule):
            continue
        for name, form, _ in derived_forms(rule):
            add(name, form)
    return out


def run_spec_job(job, nmax, omax, equations):
    silence()
    out = _fresh()
    try:
        start, spec = build_spec(job)
    except Exception as e:  # pylint: disable=broad-except
        out["search_exception"] = f"{type(e).__name__}: {e}"[:200]
        return out
    if spec is None:
        return out
    out["found"] = True
    before = len(spec.rules_dict)
    for n in range(nmax + 1):  # lazily added empty rules appear now
        for params in start.possible_parameters(n):
            spec.count_objects_of_size(n, **params)
    out["lazy_rules"] = len(spec.rules_dict) - before
    out["empty_rules"] = sum(isinstance(r.strategy, EmptyStrategy) for r in spec)
    _LAST.clear()
    out["evals"] += 1
    try:
        reload_spec(spec, start, nmax, omax, equations)
    except deal.ContractError:
        out["viols"].append(_viol(dict(job)))
    except Exception as e:  # pylint: disable=broad-except
        _note("spec-reload-exception", f"{type(e).__name__}: {e}")
        out["viols"].append(_viol(dict(job)))
    for name, rule in _all_forms(spec):
        _LAST.clear()
        out["evals"] += 1
        out["forms"][name] += 1
        try:
            reload_rule(rule)
        except deal.ContractError:
            out["viols"].append(_viol(dict(job, form=name, rule_parent=repr(rule.comb_class))))
            break
        except Exception as e:  # pylint: disable=broad-except
            _note("rule-reload-exception", f"{name}: {type(e).__name__}: {e}")
            out["viols"].append(_viol(dict(job, form=name, rule_parent=repr(rule.comb_class))))
            break
    if len(spec.rules_dict) > 4 and not out["samples"]:
        out["samples"].append(dict(job, rules=len(spec.rules_dict), forms=dict(out["forms"])))
    return out


def _fresh():
    return {"viols": [], "evals": 0, "forms": Counter(), "found": False, "samples": [], "bijections": 0,
            "bijection_none": 0, "lazy_rules": 0, "empty_rules": 0}


def run_job(job, nmax, omax, equations):
    if "start" in job:
        return run_spec_job(job, nmax, omax, equations)
    silence()
    out = _fresh()
    if job["kind"] == "strategies":
        check_strategies(out)
    elif job["kind"] == "packs":
        check_packs(out)
    elif job["kind"] == "bijection":
        check_bijection(job["idx"], omax, out)
    return out


# packs whose verification strategy computes its generating function by searching and solving (sympy.solve)
SLOW_EQUATION_PACKS = {name for name, make in C18_PACKS.items()
                       if any(isinstance(s, LongPrefixVerified) for s in make().ver_strats)}


def _key_worker(job):
    silence()
    try:
        _, spec = build_spec(job)
    except Exception:  # pylint: disable=broad-except
        return None
    return None if spec is None else spec_key(spec)


def _worker(arg):
    job, nmax, omax, equations = arg
    COUNTS.clear()
    t0 = time.time()
    out = run_job(job, nmax, omax, equations)
    out["counts"] = dict(COUNTS)
    out["secs"] = time.time() - t0
    return out


def _dedupe(viols):
    viols = sorted(viols, key=lambda v: (v["check"], len(json.dumps(v["witness"])), json.dumps(v["witness"], sort_keys=True)))
    out, per = [], Counter()
    for v in viols:
        if per[v["check"]] >= 3:
            continue
        per[v["check"]] += 1
        out.append(v)
    return out[:20]


def run(tier, seed):
    nmax, omax = 7, 5
    jobs = family_jobs(tier, seed)
    # permuted products as well
    for start in family_starts(tier, seed)[:: 3 if tier == "quick" else 1]:
        for pack in ("split-120", "split-201"):
            jobs.append({"start": repr(start), "pack": pack, "db": "base"})
    jobs += local_jobs(tier, seed)
    ctx = multiprocessing.get_context("fork")
    with ctx.Pool(NPROC) as pool:
        keys = pool.map(_key_worker, jobs, chunksize=8)
        chosen, seen = [], set()
        for job, key in zip(jobs, keys):
            if key is not None and key not in seen:
                seen.add(key)
                chosen.append(job)
        # equations of verification strategies that search for a specification themselves (sympy.solve) are slow:
        # every 10th of those specifications
        tasks = []
        for i, job in enumerate(chosen):
            slow = job["pack"] in SLOW_EQUATION_PACKS
            tasks.append((job, nmax, omax, (not slow) or i % 10 == 0))
        tasks += [({"kind": "strategies"}, nmax, omax, True), ({"kind": "packs"}, nmax, omax, True)]
        tasks += [({"kind": "bijection", "idx": i}, nmax, omax, True) for i in range(len(_BIJ_PAIRS))]
        results = pool.map(_worker, tasks, chunksize=1)
    counts, forms = Counter(), Counter()
    viols, samples = [], []
    evals = bijections = lazy = empty = 0
    for r in results:
        counts.update(r["counts"])
        forms.update(r["forms"])
        viols.extend(r["viols"])
        evals += r["evals"]
        bijections += r["bijections"]
        lazy += r["lazy_rules"]
        empty += r["empty_rules"]
        samples.extend(r["samples"])
    step = max(1, len(samples) // 6)
    nstrat = next((r["strategies"] for r in results if "strategies" in r), 0)
    npacks = next((r["packs"] for r in results if "packs" in r), 0)
    return {
        "bound": (f"{len(jobs)} searches (C07's family, permuted products, and the local packs {sorted(LOCAL_PACKS)} on "
                  f"the same start classes + {len(LOCAL_STARTS)}) -> {len(chosen)} distinct specifications (sha1 of "
                  f"JSON), each reloaded and "
                  f"compared: equality both ways, rule forms class by class, counts n <= {nmax} (all parameter "
                  f"vectors), objects n <= {omax}, equations; {sum(forms.values())} distinct rule objects reloaded "
                  f"(forms: {dict(forms)}); {empty} empty-class rules present ({lazy} added lazily after "
                  f"construction); {npacks} packs; {nstrat} strategies (each also via copy / deepcopy / pickle / "
                  f"cls.from_dict / subscripted generic, and all ordered pairs compared with kind+settings); "
                  f"{bijections} bijections reloaded, maps compared on all objects n <= {omax}"),
        "evaluations": evals,
        "distinct_nontrivial": len(chosen) + sum(forms.values()) + npacks + nstrat + bijections,
        "rule": ("one evaluation = one round trip (specification, rule object, pack, strategy, bijection) or one "
                 "strategy equality comparison; specifications are deduplicated by JSON, rule objects by (form, JSON) "
                 "within a specification; every round trip is non-trivial"),
        "exhaustive": False,
        "contracts_evaluated": dict(counts),
        "samples": samples[::step][:6],
        "violations": _dedupe(viols),
    }


def replay(violation):
    w = violation["witness"]
    if "start" in w:
        job = {k: w[k] for k in ("start", "pack", "db")}
        for _ in range(3):
            out = run_spec_job(job, 7, 5, True)
            if any(v["check"] == violation["check"] for v in out["viols"]):
                return True
        return False
    out = _fresh()
    if "bijection" in w:
        check_bijection(w["bijection"], 5, out)
    elif "pack" in w:
        check_packs(out)
    else:
        check_strategies(out)
    return any(v["check"] == violation["check"] for v in out["viols"])
