"""Bounded stand-in of C09: every rule form counts its parent correctly from its children, with parameters.

Contract (deal) on a sidecar wrapper of the real AbstractRule.get_terms:
    pre : n >= 0
    post: if the rule's sub-term providers are bound to the brute-force oracle (through the real
          AbstractRule.set_subrecs with stub "rules" answering from brute force), then
          get_terms(n) == brute_terms(rule.comb_class, n)   (zero entries ignored)
driven over: every class in the closure (prefix length bounded) of the start classes of harness.universe under the
strategies of the universe x every strategy that applies x every form the library derives from the rule: the rule,
to_reverse_rule(i) for every child, to_equivalence_rule() when one child is non-empty, the reverse of that, the
equivalence of a reverse, and EquivalencePathRule chains of 2 and 3 consecutive single-child equivalence rules (forward
and reverse members).  0, 1 and 2 statistics; children dropping a statistic (ExpansionDropStat, DropZeroStats); a child
with a statistic the parent does not track (AddStat); two parent statistics mapped onto one child statistic
(MergeDuplicateStats, merge=True variants, ExpansionZeroMerge).

Products beyond "atom x rest": SplitPrefix lists the non-atom factor (no maximum size, positive minimum size when its
prefix is non-empty) in ANY position among 1 or 2 atoms, with identity maps or with local statistic names (a factor
tracks only the statistics that do not vanish on it, atoms under duplicate names: maps that differ per child and drop
parent statistics).  Unions whose child drops a statistic that a sibling has non-zero at the same size
(ExpansionDropVanishing).  Single-child equivalences that rename statistics (RenameStats), so that equivalence paths
compose non-identity name maps.  Extra start classes with prefixes of length 3 (two-atom fronts with a non-empty rest).

The form enumeration (descriptors, build, bind, OracleRule) is shared with c10.
"""
from __future__ import annotations

import contextlib
import itertools
import random
import traceback
import zlib
from collections import Counter, defaultdict
from typing import Dict, Iterator, List, Optional, Tuple

import deal

from comb_spec_searcher.exception import StrategyDoesNotApply
from comb_spec_searcher.strategies.constructor import Complement, Quotient
from comb_spec_searcher.strategies.rule import (
    AbstractRule,
    EquivalencePathRule,
    Rule,
)
from comb_spec_searcher.utils import TermsCache

from harness import c01
from harness.universe import (
    ALL_STRATEGIES,
    START_CLASSES,
    Av,
    ExpansionDropVanishing,
    ExpansionNotSingle,
    RenameStats,
    SplitPrefix,
    brute_count,
    brute_objects,
    brute_terms,
    class_from_repr,
    silence,
)

NMAX = {"quick": 6, "thorough": 6}
MAX_PREFIX = {"quick": 2, "thorough": 3}
MAX_CLASSES_PER_START = {"quick": 160, "thorough": 500}
MAX_CHAINS_PER_CLASS = {"quick": 6, "thorough": 30}


def strategies() -> List:
    return ALL_STRATEGIES() + [
        ExpansionNotSingle(),
        ExpansionDropVanishing(),
        RenameStats(),
        SplitPrefix(pieces=1, rest_at=0),
        SplitPrefix(pieces=1, rest_at=0, local_names=True),
        SplitPrefix(pieces=1, rest_at=1, local_names=True),
        SplitPrefix(pieces=2, rest_at=0),
        SplitPrefix(pieces=2, rest_at=1),
        SplitPrefix(pieces=2, rest_at=2, local_names=True),
    ]


# start classes added to those of the universe: prefixes of length 3 whose redundant front has 2 letters and whose
# remaining class has a non-empty prefix (a product of two atoms and a factor of positive minimum size)
EXTRA_STARTS = [
    ("aab", ["bb"], "ab", ()),
    ("bab", ["bb", "aa"], "ab", ("na",)),
    ("bba", ["aa"], "ab", ("na", "nb")),
    ("aab", ["ba", "bbb"], "ab", ("nb",)),
    ("bab", ["bb"], "ab", ("nb", "nb2")),
]


def start_classes(tier: str, seed: int) -> List:
    starts = list(START_CLASSES(tier, seed))
    seen = set(starts)
    for prefix, patts, alphabet, stats in EXTRA_STARTS:
        c = Av(prefix, patts, alphabet, False, stats)
        if c not in seen:
            seen.add(c)
            starts.append(c)
    return starts


REGISTRY = {repr(s): s for s in strategies()}
assert len(REGISTRY) == len(strategies())

# --------------------------------------------------------------------------------------------------------------
# brute-force providers
# --------------------------------------------------------------------------------------------------------------


class OracleRule:
    """What AbstractRule.set_subrecs expects from `get_subrule(child)`, answered by brute force."""

    def __init__(self, comb_class):
        self.comb_class = comb_class

    def get_terms(self, n: int) -> Counter:
        return Counter(brute_terms(self.comb_class, n))

    def count_objects_of_size(self, n: int, **parameters: int) -> int:
        return brute_count(self.comb_class, n, **parameters)

    def get_objects(self, n: int):
        res = defaultdict(list)
        for word in brute_objects(self.comb_class, n):
            res[self.comb_class.get_parameters(type(self.comb_class.prefix)(word))].append(
                type(self.comb_class.prefix)(word)
            )
        return res

    def random_sample_object_of_size(self, n: int, **parameters: int):
        raise NotImplementedError("the oracle does not sample")


BOUND: Dict[int, AbstractRule] = {}


def bind(rule: AbstractRule) -> AbstractRule:
    """Wire the rule to brute-force providers through the real set_subrecs."""
    rule.set_subrecs(OracleRule)
    BOUND[id(rule)] = rule
    return rule


# --------------------------------------------------------------------------------------------------------------
# the contract
# --------------------------------------------------------------------------------------------------------------

FIRED: Counter = Counter()
_real_get_terms = AbstractRule.get_terms


def same_terms(a, b) -> bool:
    return all(a[k] == b[k] for k in set(a) | set(b))


def _post_get_terms(self, n, result) -> bool:
    if BOUND.get(id(self)) is not self:
        return True
    FIRED["AbstractRule.get_terms == brute force (providers = brute force)"] += 1
    return same_terms(result, brute_terms(self.comb_class, n))


@deal.pre(lambda self, n: n >= 0, message="size-nonnegative")
@deal.ensure(_post_get_terms, message="rule-terms-vs-bruteforce")
def get_terms(self, n):
    return _real_get_terms(self, n)


@contextlib.contextmanager
def contracts_installed():
    AbstractRule.get_terms = get_terms
    try:
        yield
    finally:
        AbstractRule.get_terms = _real_get_terms


# --------------------------------------------------------------------------------------------------------------
# classes and rule forms
# --------------------------------------------------------------------------------------------------------------


def family(start, max_prefix: int, limit: int) -> List:
    """Closure of {start} under the strategies, keeping classes with prefix length <= max_prefix and at most two
    statistics; breadth first, at most `limit` classes."""
    strats = strategies()
    seen = {start: None}
    queue = [start]
    i = 0
    while i < len(queue) and len(queue) < limit:
        c = queue[i]
        i += 1
        for strat in strats:
            children = strat.decomposition_function(c)
            for child in children or ():
                if (
                    child not in seen
                    and len(child.prefix) <= max_prefix
                    and len(child.stats) <= 2
                    and len(queue) < limit
                ):
                    seen[child] = None
                    queue.append(child)
    return queue


def describe(comb_class, strat, form) -> dict:
    return {"class": repr(comb_class), "strategy": repr(strat), "form": form}


def build(desc: dict) -> Rule:
    """A fresh rule object for a descriptor."""
    form = desc["form"]
    if form[0] == "path":
        return EquivalencePathRule([build(d) for d in desc["members"]])
    rule = REGISTRY[desc["strategy"]](class_from_repr(desc["class"]))
    if form[0] == "rule":
        return rule
    if form[0] == "reverse":
        return rule.to_reverse_rule(form[1])
    if form[0] == "equiv":
        return rule.to_equivalence_rule()
    if form[0] == "equiv-reverse":
        return rule.to_equivalence_rule().to_reverse_rule(0)
    if form[0] == "reverse-equiv":
        return rule.to_reverse_rule(form[1]).to_equivalence_rule()
    raise ValueError(form)


def forms_of(comb_class, strat) -> Iterator[Tuple[dict, Rule]]:
    """Every form derived from strat(comb_class) (descriptor, fresh rule)."""
    try:
        rule = strat(comb_class)
        children = rule.children
    except StrategyDoesNotApply:
        return
    if len(children) == 1 and children[0] == comb_class:
        return  # the searcher discards such rules
    yield describe(comb_class, strat, ["rule"]), rule
    if rule.is_equivalence() and len(children) > 1:
        yield describe(comb_class, strat, ["equiv"]), rule.to_equivalence_rule()
        if rule.is_reversible():
            try:
                yield describe(comb_class, strat, ["equiv-reverse"]), (
                    rule.to_equivalence_rule().to_reverse_rule(0)
                )
            except AssertionError as e:
                # the library declines to build this form (the reverse is not an equivalence: Complement with
                # duplicate parameters); recorded as "not-built"
                if "can only be created for equivalence rules" not in str(e):
                    raise
                NOT_BUILT.append(describe(comb_class, strat, ["equiv-reverse"]))
    if rule.is_reversible():
        for i in range(len(children)):
            rev = rule.to_reverse_rule(i)
            yield describe(comb_class, strat, ["reverse", i]), rev
            if rev.is_equivalence() and len(rev.children) > 1:
                yield describe(comb_class, strat, ["reverse-equiv", i]), (
                    rev.to_equivalence_rule()
                )


NOT_BUILT: List[dict] = []


def is_chain_member(rule) -> bool:
    try:
        return len(rule.children) == 1 and rule.is_equivalence()
    except Exception:  # pylint: disable=broad-except
        return False


def enumerate_forms(classes: List, max_chains: int) -> List[dict]:
    """Descriptors of all forms over the classes, followed by equivalence path chains (length 2 and 3)."""
    descs = []
    members = defaultdict(list)  # parent class -> [(desc, child class)]
    for c in classes:
        for strat in strategies():
            for desc, rule in forms_of(c, strat):
                descs.append(desc)
                if is_chain_member(rule):
                    members[rule.comb_class].append((desc, rule.children[0]))
    chains = []
    for c in classes:
        found = 0
        for d1, c1 in members.get(c, ()):
            for d2, c2 in members.get(c1, ()):
                if c2 == c:
                    continue
                if found >= max_chains:
                    break
                chains.append({"form": ["path"], "class": repr(c), "members": [d1, d2]})
                found += 1
                for d3, c3 in members.get(c2, ())[:2]:
                    if c3 in (c, c1):
                        continue
                    chains.append(
                        {"form": ["path"], "class": repr(c), "members": [d1, d2, d3]}
                    )
    return descs + chains


def kind_of(desc: dict) -> str:
    if desc["form"][0] == "path":
        return "path(" + ",".join(kind_of(d) for d in desc["members"]) + ")"
    return desc["strategy"].split("(")[0] + ":" + desc["form"][0]


def many_to_one_counted_child(rule) -> bool:
    cons = rule.constructor
    if not isinstance(cons, Complement):
        return False
    values = list(cons.extra_parameters[cons.idx].values())
    return len(values) != len(set(values))


def check_form(desc: dict, nmax: int) -> dict:
    """Build the rule, bind it to brute force, evaluate the contracted get_terms for n = 0..nmax."""
    res = {"desc": desc, "status": "ok", "violation": None, "stats": 0}
    rule = None
    try:
        rule = bind(build(desc))
        res["stats"] = len(rule.comb_class.stats)
        for n in range(nmax + 1):
            rule.get_terms(n)
    except NotImplementedError as e:
        res["status"] = "not-implemented"
        res["note"] = str(e)[:80]
    except deal.PostContractError:
        n = len(rule.terms_cache) - 1
        res["status"] = "violation"
        res["violation"] = {
            "check": "rule-terms-vs-bruteforce",
            "witness": dict(desc, n=n),
            "what": f"get_terms({n}) = {dict(rule.terms_cache[n])}, brute force "
            f"{dict(brute_terms(rule.comb_class, n))}"[:400],
        }
    except Exception as e:  # pylint: disable=broad-except
        res["status"] = "violation"
        n = len(rule.terms_cache) if rule is not None else None
        check = "rule-terms-crash"
        if isinstance(e, AssertionError) and rule is not None:
            try:
                if many_to_one_counted_child(rule):
                    check = "complement-many-to-one"
            except Exception:  # pylint: disable=broad-except
                pass
        res["violation"] = {
            "check": check,
            "witness": dict(desc, n=n),
            "what": (
                f"get_terms({n}) raised {type(e).__name__}: {str(e)[:120]} @ "
                + traceback.format_exc(limit=-1).replace("\n", " | ")[-220:]
            ),
        }
    finally:
        if rule is not None:
            BOUND.pop(id(rule), None)
    return res


def worker(arg) -> dict:
    start_repr, tier = arg
    silence()
    FIRED.clear()
    start = class_from_repr(start_repr)
    classes = family(start, MAX_PREFIX[tier], MAX_CLASSES_PER_START[tier])
    descs = enumerate_forms(classes, MAX_CHAINS_PER_CLASS[tier])
    out = {"results": [], "fired": None, "classes": len(classes)}
    for desc in NOT_BUILT:
        out["results"].append(
            (zlib.crc32(repr(desc).encode()), kind_of(desc), "not-built", 2, None, desc)
        )
    NOT_BUILT.clear()
    with contracts_installed():
        for desc in descs:
            r = check_form(desc, NMAX[tier])
            out["results"].append(
                (
                    zlib.crc32(repr(desc).encode()),
                    kind_of(desc),
                    r["status"],
                    r["stats"],
                    r["violation"],
                    desc if r["status"] != "ok" else None,
                )
            )
    out["fired"] = dict(FIRED)
    TermsCache.ALL_CACHES.clear()
    return out


def dedupe(violations: List[dict], limit: int = 20) -> List[dict]:
    best = {}
    for v in violations:
        w = v["witness"]
        key = (v["check"], kind_of(w))
        size = len(repr(w))
        if key not in best or size < best[key][0]:
            best[key] = (size, v)
    ordered = sorted(best.values(), key=lambda x: (x[1]["check"], x[0]))
    per_check: Counter = Counter()
    res = []
    for _, v in ordered:
        if per_check[v["check"]] < 6:
            per_check[v["check"]] += 1
            res.append(v)
    return res[:limit]


def run(tier: str, seed: int) -> dict:
    starts = start_classes(tier, seed)
    fired: Counter = Counter()
    seen = set()
    kinds: Counter = Counter()
    status: Counter = Counter()
    by_stats: Counter = Counter()
    violations = []
    evaluations = 0
    n_classes = 0
    samples = []
    for out in c01.map_cases(
        worker, [(repr(s), tier) for s in starts], chunksize=1
    ):
        fired.update(out["fired"])
        n_classes += out["classes"]
        for key, kind, st, nstats, violation, desc in out["results"]:
            evaluations += 1
            if key in seen:
                continue
            seen.add(key)
            kinds[kind.split("(")[0] if kind.startswith("path") else kind] += 1
            status[st] += 1
            by_stats[nstats] += 1
            if violation is not None:
                violations.append(violation)
            if desc is not None and st in ("not-implemented", "not-built"):
                if sum(1 for x in samples if st in x) < 2:
                    samples.append({st: desc})
    samples.append(
        {
            "class": "Av('a', ['aa', 'ab'], 'ab', False, ('na', 'nb'))",
            "strategy": "ExpansionAtomLast(merge=False)",
            "form": ["equiv-reverse"],
            "meaning": "only the atom child is non-empty: the atom (statistic na2) = the class (na, nb), "
            "Complement of the one-child union with map {na: na2}",
        }
    )
    samples.append({"kinds": dict(kinds)})
    return {
        "bound": (
            f"{len(starts)} start classes (those of the universe + {len(EXTRA_STARTS)} with a prefix of length 3); per "
            f"start the closure under {len(strategies())} strategies (the universe's, ExpansionNotSingle, "
            "ExpansionDropVanishing, RenameStats, SplitPrefix with pieces in {1, 2} x position of the non-atom factor "
            "x identity / local statistic names) with prefix "
            f"length <= {MAX_PREFIX[tier]}, <= 2 statistics, <= {MAX_CLASSES_PER_START[tier]} classes "
            f"({n_classes} classes visited, with repetition); every applicable strategy; forms: rule, reverse per "
            "child, equivalence, equivalence-reverse, reverse-equivalence, paths of 2 and 3 "
            f"(<= {MAX_CHAINS_PER_CLASS[tier]} chains per class); sizes n <= {NMAX[tier]}; all parameter tuples"
        ),
        "evaluations": evaluations,
        "distinct_nontrivial": len(seen),
        "rule": (
            "case = (class, strategy, derived form) with providers bound to brute force, get_terms(0..nmax); "
            "distinct = distinct descriptors (all are non-trivial: a rule object is built and counted); "
            f"by number of parent statistics: {dict(by_stats)}; outcomes: {dict(status)}"
        ),
        "exhaustive": False,
        "contracts_evaluated": dict(fired),
        "samples": samples,
        "violations": dedupe(violations),
    }


def replay(violation: dict) -> bool:
    silence()
    desc = {k: v for k, v in violation["witness"].items() if k != "n"}
    with contracts_installed():
        r = check_form(desc, max(NMAX.values()))
    return r["violation"] is not None and r["violation"]["check"] == violation["check"]
