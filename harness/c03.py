"""C03 bounded stand-in: forest productivity detection (TableMethod) equals the least fixed point, in any order.

Real code under contract (never re-implemented): ``comb_spec_searcher.rule_db.forest.TableMethod`` (``add_rule_key``,
``is_pumping``, ``function``) and ``Function`` (``preimage_gap``, ``increase_value``, ``set_infinite``).

Contracts (deal, on sidecar wrappers installed by ``installed()``):

* ``TableMethod.add_rule_key``  -- after EVERY insertion, for every label of the universe ``is_pumping(label)`` and
  ``table.function`` equal the oracle on the multiset of rules inserted so far; values never decrease and pumping
  never reverts with respect to the state before the insertion (monotone growth).
* ``Function.increase_value / set_infinite`` -- exactly the addressed entry changes (+1 / to infinity), and the
  histogram ``_preimage_count`` / ``_infinity_count`` equals a histogram recomputed from ``_value``.
* ``Function.preimage_gap(length)`` -- result is the smallest ``k >= 0`` such that no class has a value in
  ``[k, k+length-1]`` (brute force over the histogram recomputed from ``_value``).

The driver additionally checks order independence (same final status for every permutation of a multiset).

Oracle (independent of the incremental algorithm): Kleene iteration from the all-zero function of

    Phi(f)(p) = max(0, max over rules r with parent p of  min_i (f(child_i) + shift_i)),   arity 0  =>  infinity,

over N u {oo}, composed with the abstraction ``alpha`` that maps every value ``>= C`` to infinity, ``C = n*S`` with
``n`` = number of classes mentioned and ``S = max(1, max |shift|)``.  Soundness of the cap (proved here, not assumed
from the code):

  Gap lemma.  Let L = lfp(Phi).  If no class has an L-value in the window [k, k+S-1] (k >= 0) then no class has a
  finite L-value >= k+S.  Proof: let H be the classes with finite value >= k+S and L' = L lowered by one on H.  For
  p in H and a rule r of p, min_i(L(c_i)+s_i) <= L(p) is finite, so r has a finite child; if some child is "low"
  (value <= k-1) then L'(c)+s <= k-1+S <= L(p)-1; otherwise all finite children are in H and the minimum drops by
  one.  Also 0 <= L(p)-1.  So Phi(L') <= L' (other classes by monotonicity), contradicting leastness unless H is
  empty.  Consequence: the disjoint windows [0,S-1], [S,2S-1], ... below the largest finite value M each contain a
  distinct value, so floor(M/S)+1 <= n, i.e. every finite value of L is < n*S = C.
  Then alpha(L) = L, L is a fixed point of alpha.Phi, and lfp(alpha.Phi) is a pre-fixed point of Phi (alpha is
  extensive), hence lfp(alpha.Phi) = L.  The iteration below computes lfp(alpha.Phi) on a finite lattice.

As a guard against a slip in that argument, every oracle answer is recomputed with the much larger cap ``3*C+7``
and the two must agree (``oracle-self-consistency``, counted; a disagreement is reported as a violation).
The oracle is also validated on the hand-written universes of ``tests/test_forest.py`` at start-up.
"""
import contextlib
import itertools
import math
import multiprocessing
import random
import time
from collections import Counter

import deal

import comb_spec_searcher.rule_db.forest as forest
from comb_spec_searcher.typing import ForestRuleKey, RuleBucket

INF = math.inf
NPROC = 16
BUCKET = RuleBucket.NORMAL

# --------------------------------------------------------------------------------------------------------------
# Oracle
# --------------------------------------------------------------------------------------------------------------


def _kleene(rules, cap):
    """lfp of alpha_cap . Phi by chaotic (Gauss-Seidel) iteration from zero; rules = [(parent, children, shifts)]."""
    labels = set()
    for p, ch, _ in rules:
        labels.add(p)
        labels.update(ch)
    f = dict.fromkeys(labels, 0)
    changed = True
    rounds = 0
    while changed:
        changed = False
        rounds += 1
        for p, ch, sh in rules:
            if f[p] == INF:
                continue
            if not ch:
                val = INF
            else:
                val = min(f[c] + s for c, s in zip(ch, sh))
                if val >= cap:
                    val = INF
            if val > f[p]:
                f[p] = val
                changed = True
        assert rounds <= (len(labels) + 1) * (cap + 2) + 2, "oracle does not terminate"
    return f


def lfp_oracle(rules, counts=None):
    """Return {label: value or None(=infinite)} for the labels with a non-zero value (same shape as
    ``TableMethod.function``).  ``rules``: iterable of (parent, children, shifts)."""
    rules = [(r[0], tuple(r[1]), tuple(r[2])) for r in rules]
    labels = set()
    big_s = 1
    for p, ch, sh in rules:
        labels.add(p)
        labels.update(ch)
        for s in sh:
            big_s = max(big_s, abs(s))
    cap = max(1, len(labels)) * big_s
    f = _kleene(rules, cap)
    g = _kleene(rules, 3 * cap + 7)
    if counts is not None:
        counts["oracle-self-consistency"] += 1
    if f != g:
        raise OracleError(f"cap {cap} gives {f}, cap {3 * cap + 7} gives {g}")
    return {k: (None if v == INF else v) for k, v in f.items() if v != 0}


class OracleError(Exception):
    pass


def _validate_oracle():
    """Hand examples: the universes of /repo/tests/test_forest.py with the expected values typed there."""
    U = RuleBucket.UNDEFINED
    prog = [
        ((0, (1, 2), (0, 0)), {}),
        ((1, (), ()), {1: None}),
        ((2, (3,), (0,)), {1: None}),
        ((3, (4,), (0,)), {1: None}),
        ((5, (), ()), {1: None, 5: None}),
        ((2, (6,), (-2,)), {1: None, 5: None}),
        ((2, (7,), (2,)), {0: 2, 1: None, 2: 2, 5: None}),
        ((4, (5, 0, 0), (0, 1, 1)), {i: None for i in range(6)}),
    ]
    rules = []
    for r, expected in prog:
        rules.append(r)
        assert lfp_oracle(rules) == expected, (rules, lfp_oracle(rules), expected)
    # test_universe_not_pumping
    rules = [(0, (1, 2), (0, 0)), (5, (), ()), (2, (3,), (0,)), (3, (4,), (0,)), (4, (5, 0, 0), (0, 1, 1))]
    assert lfp_oracle(rules) == {2: 1, 3: 1, 4: 1, 5: None}
    # test_segmented (checkpoints typed in that test)
    seg = [
        ((0, (1, 2), (0, 0)), None), ((1, (4, 14), (0, 0)), None), ((2, (), ()), {2: None}),
        ((3, (16, 5), (1, 0)), None), ((4, (), ()), None), ((5, (), ()), {2: None, 3: 1, 4: None, 5: None}),
        ((6, (7, 5, 17), (2, 1, 1)), {2: None, 3: 1, 4: None, 5: None, 6: 1}),
        ((16, (6,), (0,)), {2: None, 3: 2, 4: None, 5: None, 6: 1, 16: 1}),
        ((7, (), ()), None),
        ((8, (9, 5), (1, 0)), {2: None, 3: 2, 4: None, 5: None, 6: 1, 7: None, 8: 1, 16: 1}),
        ((12, (20, 5), (-1, 0)), None), ((20, (13,), (0,)), None), ((13, (15, 2, 5), (-1, 1, 0)), None),
        ((15, (1,), (0,)), None),
        ((14, (3,), (0,)), {0: 2, 1: 2, 2: None, 3: 2, 4: None, 5: None, 6: 1, 7: None, 8: 1, 13: 1, 14: 2, 15: 2,
                            16: 1, 20: 1}),
        ((18, (8,), (0,)), None),
        ((11, (12, 18), (0, 0)), {0: 2, 1: 2, 2: None, 3: 2, 4: None, 5: None, 6: 1, 7: None, 8: 1, 13: 1, 14: 2,
                                  15: 2, 16: 1, 18: 1, 20: 1}),
        ((17, (8,), (0,)), {0: 3, 1: 3, 2: None, 3: 3, 4: None, 5: None, 6: 2, 7: None, 8: 1, 11: 1, 12: 1, 13: 2,
                            14: 3, 15: 3, 16: 2, 17: 1, 18: 1, 20: 2}),
        ((9, (0, 19), (0, 0)), None),
        ((10, (5, 11), (0, 1)), {0: 3, 1: 3, 2: None, 3: 3, 4: None, 5: None, 6: 2, 7: None, 8: 1, 10: 2, 11: 1,
                                 12: 1, 13: 2, 14: 3, 15: 3, 16: 2, 17: 1, 18: 1, 20: 2}),
        ((19, (10,), (0,)), {i: None for i in range(21)}),
    ]
    rules = []
    for r, expected in seg:
        rules.append(r)
        if expected is not None:
            assert lfp_oracle(rules) == expected, (rules, lfp_oracle(rules), expected)
    # simple hand cases
    assert lfp_oracle([(0, (0,), (1,))]) == {0: None}  # x = 1 + x  unbounded
    assert lfp_oracle([(0, (0,), (0,))]) == {}
    assert lfp_oracle([(0, (1,), (2,))]) == {0: 2}
    assert lfp_oracle([(0, (1,), (2,)), (1, (0,), (-1,))]) == {0: None, 1: None}
    assert lfp_oracle([(0, (1,), (2,)), (1, (0,), (-2,))]) == {0: 2}
    assert lfp_oracle([(0, (1, 1), (2, -1)), (1, (), ())]) == {0: None, 1: None}
    assert lfp_oracle([(0, (1, 2), (2, 1)), (1, (), ())]) == {0: 1, 1: None}
    del U


# --------------------------------------------------------------------------------------------------------------
# Contracts on sidecar wrappers of the real functions
# --------------------------------------------------------------------------------------------------------------

COUNTS = Counter()
_LAST = {}  # details of the last failed clause (read by the driver after a deal contract error)
_UNIVERSE = [0, 1, 2]  # labels queried after every insertion (set by the driver)


def _note(check, what):
    _LAST["check"] = check
    _LAST["what"] = what
    return False


def _hist_ok(fn, name):
    cnt = Counter(v for v in fn._value if v is not None)
    pc = list(fn._preimage_count)
    for i, c in enumerate(pc):
        if c != cnt.get(i, 0):
            return _note(f"{name}-histogram", f"_preimage_count={pc} but _value={fn._value}")
    if any(v >= len(pc) for v in cnt):
        return _note(f"{name}-histogram", f"_preimage_count={pc} too short for _value={fn._value}")
    if fn._infinity_count != sum(1 for v in fn._value if v is None):
        return _note(f"{name}-histogram", f"_infinity_count={fn._infinity_count} but _value={fn._value}")
    return True


def _post_increase(self, key):
    COUNTS["Function.increase_value"] += 1
    old = self._h_old
    old = old + [0] * (len(self._value) - len(old))
    exp = list(old)
    if key >= len(exp) or exp[key] is None:
        return _note("increase_value-effect", f"key {key} old {old} new {self._value}")
    exp[key] += 1
    if exp != self._value:
        return _note("increase_value-effect", f"key {key}: expected {exp}, got {self._value}")
    return _hist_ok(self, "increase_value")


def _post_set_infinite(self, key):
    COUNTS["Function.set_infinite"] += 1
    old = self._h_old
    old = old + [0] * (len(self._value) - len(old))
    exp = list(old)
    if key >= len(exp) or exp[key] is None:
        return _note("set_infinite-effect", f"key {key} old {old} new {self._value}")
    exp[key] = None
    if exp != self._value:
        return _note("set_infinite-effect", f"key {key}: expected {exp}, got {self._value}")
    return _hist_ok(self, "set_infinite")


def _brute_gap(values, length):
    present = {v for v in values if v is not None}
    k = 0
    while any((k + j) in present for j in range(length)):
        k += 1
    return k


def _post_gap(self, length, result):
    COUNTS["Function.preimage_gap"] += 1
    if not _hist_ok(self, "preimage_gap"):
        return False
    exp = _brute_gap(self._value, length)
    if result != exp:
        return _note("preimage_gap-smallest", f"length {length}, values {self._value}: expected {exp}, got {result}")
    return True


_QUERY_ALL = True  # False: after an insertion only the labels mentioned so far are queried (set by the driver)


def _snapshot(tb):
    """Values before the insertion, read without touching the table (a query would lengthen its value list)."""
    vals = tb._function._value
    return [vals[l] if l < len(vals) else 0 for l in _UNIVERSE]


def _post_add(self, rule_key):
    """Status after the insertion == oracle on everything inserted so far; monotone w.r.t. the state before."""
    COUNTS["TableMethod.add_rule_key"] += 1
    inserted = self._h_rules
    cache = self._h_cache
    ck = tuple(sorted(inserted))
    exp = cache.get(ck)
    if exp is None:
        exp = cache[ck] = lfp_oracle(inserted, COUNTS)
    got_fn = self.function
    got_fn_q = {l: got_fn[l] for l in got_fn}  # dict of non-zero values
    if _QUERY_ALL:
        queried = _UNIVERSE
    else:
        queried = sorted({r[0] for r in inserted} | {c for r in inserted for c in r[1]})
    pump = {l: self.is_pumping(l) for l in queried}
    if got_fn_q != exp:
        return _note("function-vs-lfp", f"after {inserted}: oracle {exp}, table.function {got_fn_q}")
    for l in queried:
        if pump[l] != (l in exp and exp[l] is None):
            return _note("pumping-vs-lfp", f"after {inserted}: label {l} oracle {exp.get(l, 0)}, is_pumping {pump[l]}")
    before = self._h_before
    for l, b in zip(_UNIVERSE, before):
        now = got_fn.get(l, 0)
        if b is None and now is not None:
            return _note("monotone-pumping", f"label {l} pumping before inserting {rule_key}, value {now} after")
        if b is not None and now is not None and now < b:
            return _note("monotone-value", f"label {l} value {b} before inserting {rule_key}, {now} after")
    return True


_real = {}


@contextlib.contextmanager
def installed():
    """Install the contract wrappers on the real classes (restored afterwards)."""
    F, T = forest.Function, forest.TableMethod
    _real.update(
        increase_value=F.increase_value, set_infinite=F.set_infinite, preimage_gap=F.preimage_gap,
        add_rule_key=T.add_rule_key,
    )

    @deal.ensure(lambda self, key, result: _post_increase(self, key))
    def increase_value(self, key):
        self._h_old = list(self._value)
        return _real["increase_value"](self, key)

    @deal.ensure(lambda self, key, result: _post_set_infinite(self, key))
    def set_infinite(self, key):
        self._h_old = list(self._value)
        return _real["set_infinite"](self, key)

    @deal.pre(lambda self, length: length > 0)
    @deal.ensure(lambda self, length, result: _post_gap(self, length, result))
    def preimage_gap(self, length):
        return _real["preimage_gap"](self, length)

    @deal.ensure(lambda self, rule_key, result: _post_add(self, rule_key))
    def add_rule_key(self, rule_key):
        if not hasattr(self, "_h_rules"):
            self._h_rules = []
            self._h_cache = {}
        self._h_before = _snapshot(self)
        self._h_rules.append((rule_key.parent, rule_key.children, rule_key.shifts))
        return _real["add_rule_key"](self, rule_key)

    F.increase_value, F.set_infinite, F.preimage_gap = increase_value, set_infinite, preimage_gap
    T.add_rule_key = add_rule_key
    try:
        yield
    finally:
        F.increase_value, F.set_infinite, F.preimage_gap = (
            _real["increase_value"], _real["set_infinite"], _real["preimage_gap"])
        T.add_rule_key = _real["add_rule_key"]


# --------------------------------------------------------------------------------------------------------------
# Running one multiset in every order
# --------------------------------------------------------------------------------------------------------------


def _run_order(order, universe, cache, query_all=True):
    """Insert ``order`` (list of (parent, children, shifts)) into a fresh TableMethod under contract.
    Returns (violation or None, final status)."""
    global _UNIVERSE, _QUERY_ALL
    _UNIVERSE = universe
    _QUERY_ALL = query_all
    tb = forest.TableMethod()
    tb._h_rules = []
    tb._h_cache = cache
    for step, (p, ch, sh) in enumerate(order):
        _LAST.clear()
        try:
            tb.add_rule_key(ForestRuleKey(p, tuple(ch), tuple(sh), BUCKET))
        except deal.ContractError:
            return {"check": _LAST.get("check", "contract"), "what": _LAST.get("what", "contract failed"),
                    "witness": {"rules": [list(map(_js, r)) for r in order], "step": step, "query_all": query_all}}, None
        except OracleError as e:
            return {"check": "oracle-self-consistency", "what": str(e),
                    "witness": {"rules": [list(map(_js, r)) for r in order], "step": step, "query_all": query_all}}, None
        except Exception as e:  # the real code raised (assert, ValueError, ...)
            return {"check": "exception", "what": f"{type(e).__name__}: {e}",
                    "witness": {"rules": [list(map(_js, r)) for r in order], "step": step, "query_all": query_all}}, None
    final = (tuple(sorted(tb.function.items(), key=lambda kv: kv[0])), tuple(tb.is_pumping(l) for l in universe))
    return None, final


def _js(x):
    return list(x) if isinstance(x, tuple) else x


def check_multiset(ms, universe):
    """All insertion orders of the multiset; returns (violations, evaluations, nontrivial)."""
    cache = {}
    viols = []
    finals = set()
    evals = 0
    seen_orders = set()
    for idx, order in enumerate(itertools.permutations(ms)):
        if order in seen_orders:
            continue
        seen_orders.add(order)
        # query every label of the universe after each insertion, or only the labels mentioned so far (then all at
        # the end): both for <=2 rules, alternating for larger multisets
        modes = (True, False) if len(ms) <= 2 else (idx % 2 == 0,)
        for query_all in modes:
            evals += 1
            v, final = _run_order(list(order), universe, cache, query_all)
            if v is not None:
                viols.append(v)
                break
            finals.add(final)
        if viols:
            break
    if not viols and len(finals) > 1:
        viols.append({"check": "order-independence", "what": f"final states differ across orders: {sorted(map(str, finals))[:3]}",
                      "witness": {"rules": [list(map(_js, r)) for r in ms], "step": len(ms) - 1, "all_orders": True}})
    full = cache.get(tuple(sorted(ms)))
    nontrivial = False
    if full:
        verif = {p for p, ch, _ in ms if not ch}
        nontrivial = any(v is not None or k not in verif for k, v in full.items())
    return viols, evals, nontrivial


# --------------------------------------------------------------------------------------------------------------
# Families
# --------------------------------------------------------------------------------------------------------------


def rule_keys(nclasses, shifts, ordered=False):
    """All rule keys over classes 0..nclasses-1, arity 0..2, repeated children allowed.  With ``ordered=False``
    binary rules are taken up to the order of their (child, shift) pairs."""
    out = []
    for p in range(nclasses):
        out.append((p, (), ()))
        pairs = [(c, s) for c in range(nclasses) for s in shifts]
        for c, s in pairs:
            out.append((p, (c,), (s,)))
        if ordered:
            two = itertools.product(pairs, repeat=2)
        else:
            two = itertools.combinations_with_replacement(pairs, 2)
        for (c1, s1), (c2, s2) in two:
            out.append((p, (c1, c2), (s1, s2)))
    return out


def _rename(ms, perm):
    """Apply a renaming of the classes to a multiset of keys (binary rules re-sorted as (child, shift) pairs)."""
    out = []
    for p, ch, sh in ms:
        pairs = sorted((perm[c], s) for c, s in zip(ch, sh))
        out.append((perm[p], tuple(c for c, _ in pairs), tuple(s for _, s in pairs)))
    return tuple(sorted(out))


def _worker(task):
    kind = task[0]
    COUNTS.clear()
    viols, evals, nontriv, msets = [], 0, 0, 0
    samples = []
    t0 = time.time()
    with installed():
        if kind == "exh":
            # multisets of size k whose smallest element has index i0 (in keys), i0 in the slice
            _, nclasses, shifts, k, lo, hi, orbit, seed = task
            keys = rule_keys(nclasses, shifts)
            universe = list(range(nclasses))
            perms = [p for p in itertools.permutations(range(nclasses))]
            rng = random.Random(seed * 1000003 + lo * 7919 + hi)
            for i0 in range(lo, hi):
                for rest in itertools.combinations_with_replacement(range(i0, len(keys)), k - 1):
                    ms = (keys[i0],) + tuple(keys[j] for j in rest)
                    if orbit:
                        # one representative per orbit of class renaming, presented under a seeded renaming
                        if any(_rename(ms, p) < ms for p in perms[1:]):
                            continue
                        ms = _rename(ms, rng.choice(perms))
                    v, e, nt = check_multiset(ms, universe)
                    msets += 1
                    evals += e
                    nontriv += nt
                    if v and len(viols) < 5:
                        viols.extend(v)
                    if nt and len(samples) < 1 and msets % 7 == 0:
                        samples.append([list(map(_js, r)) for r in ms])
        else:
            _, nclasses, shifts, k, n, seed = task
            rng = random.Random(seed)
            keys = rule_keys(nclasses, shifts, ordered=True)
            universe = list(range(nclasses))
            seen = set()
            for _ in range(n):
                ms = tuple(sorted(rng.choice(keys) for _ in range(k)))
                if ms in seen:
                    continue
                seen.add(ms)
                v, e, nt = check_multiset(ms, universe)
                msets += 1
                evals += e
                nontriv += nt
                if v and len(viols) < 5:
                    viols.extend(v)
                if nt and len(samples) < 1:
                    samples.append([list(map(_js, r)) for r in ms])
    return {"viols": viols, "evals": evals, "nontriv": nontriv, "msets": msets, "counts": dict(COUNTS),
            "samples": samples, "secs": time.time() - t0, "task": task[:4]}


def _exh_tasks(nclasses, shifts, k, pieces, orbit=False, seed=0):
    nkeys = len(rule_keys(nclasses, shifts))
    if k == 1:
        return [("exh", nclasses, shifts, 1, 0, nkeys, orbit, seed)]
    # balance: the number of multisets starting at i0 decreases with i0 -> small slices first
    bounds = sorted({min(nkeys, round(nkeys * (1 - (1 - j / pieces) ** (1.0 / k)))) for j in range(pieces + 1)})
    if bounds[0] != 0:
        bounds.insert(0, 0)
    if bounds[-1] != nkeys:
        bounds.append(nkeys)
    return [("exh", nclasses, shifts, k, a, b, orbit, seed) for a, b in zip(bounds, bounds[1:]) if a < b]


def run(tier, seed):
    _validate_oracle()
    full = (-2, -1, 0, 1, 2)
    small = (-1, 0, 1)
    tasks = []
    common = ("arity 0..2 (repeated children allowed; binary rules up to the order of their (child,shift) pairs in the "
              "exhaustive slices, both orders in the seeded ones), EVERY insertion order, status compared with the oracle "
              "after EVERY insertion (labels queried: whole universe / only those mentioned so far, alternating): ")
    if tier == "quick":
        tasks += _exh_tasks(3, full, 1, 1)
        tasks += _exh_tasks(3, full, 2, 32)
        tasks += _exh_tasks(2, full, 3, 96, orbit=True, seed=seed)
        tasks += _exh_tasks(3, small, 3, 128, orbit=True, seed=seed)
        for i in range(32):
            tasks.append(("rnd", 3, full, 3, 500, seed * 1000 + i))
        for i in range(32):
            tasks.append(("rnd", 3, full, 4, 125, seed * 1000 + 500 + i))
        bound = common + (
            "EXHAUSTIVE multisets of <=2 rules (3 classes, shifts -2..2); EXHAUSTIVE 3-rule multisets over 2 classes "
            "with shifts -2..2 and over 3 classes with shifts -1..1, one representative per orbit of class renaming "
            "(presented under a seeded renaming); SEEDED 16000 3-rule and 4000 4-rule multisets (3 classes, shifts -2..2)")
    else:
        tasks += _exh_tasks(3, full, 1, 1)
        tasks += _exh_tasks(3, full, 2, 32)
        tasks += _exh_tasks(3, full, 3, 2048, orbit=True, seed=seed)
        tasks += _exh_tasks(2, small, 4, 512)
        for i in range(64):
            tasks.append(("rnd", 3, full, 4, 1500, seed * 1000 + i))
        for i in range(64):
            tasks.append(("rnd", 4, full, 5, 100, seed * 1000 + 500 + i))
        bound = common + (
            "EXHAUSTIVE multisets of <=2 rules (3 classes, shifts -2..2); EXHAUSTIVE 3-rule multisets over 3 classes with "
            "shifts -2..2, one representative per orbit of class renaming (presented under a seeded renaming); "
            "EXHAUSTIVE 4-rule multisets over 2 classes with shifts -1..1; SEEDED 96000 4-rule multisets over 3 classes "
            "and 6400 5-rule multisets over 4 classes, shifts -2..2")
    exhaustive = False
    # big tasks first
    ctx = multiprocessing.get_context("fork")
    with ctx.Pool(NPROC) as pool:
        results = pool.map(_worker, tasks, chunksize=1)
    counts = Counter()
    viols, evals, nontriv, msets, samples = [], 0, 0, 0, []
    for r in results:
        counts.update(r["counts"])
        viols.extend(r["viols"])
        evals += r["evals"]
        nontriv += r["nontriv"]
        msets += r["msets"]
        samples.extend(r["samples"])
    viols = _dedupe(viols)
    return {
        "bound": bound,
        "evaluations": evals,
        "distinct_nontrivial": nontriv,
        "multisets": msets,
        "rule": ("one evaluation = one insertion order of one rule multiset (contracts fire after every insertion); cases "
                 "are distinct as multisets (enumerated without repetition; seeded ones deduplicated per worker); a "
                 "multiset is non-trivial when its least fixed point has a finite non-zero value or a class that is "
                 "infinite without owning an arity-0 rule"),
        "exhaustive": exhaustive,
        "contracts_evaluated": dict(counts),
        "samples": samples[:3] + samples[-3:],
        "violations": viols,
    }


def _dedupe(viols):
    viols = sorted(viols, key=lambda v: (v["check"], len(v["witness"]["rules"]), str(v["witness"])))
    out, per = [], Counter()
    for v in viols:
        if per[v["check"]] >= 3:
            continue
        per[v["check"]] += 1
        out.append(v)
    return out[:20]


def replay(violation):
    w = violation["witness"]
    rules = [(r[0], tuple(r[1]), tuple(r[2])) for r in w["rules"]]
    labels = sorted({r[0] for r in rules} | {c for r in rules for c in r[1]} | {0, 1, 2})
    COUNTS.clear()
    with installed():
        if w.get("all_orders"):
            v, _, _ = check_multiset(tuple(rules), labels)
            return bool(v)
        v, _ = _run_order(rules, labels, {}, w.get("query_all", True))
    return v is not None
