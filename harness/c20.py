"""C20 bounded stand-in: equations and generating functions agree with the true enumeration.

Real code under contract (never re-implemented): ``CombinatorialSpecification.get_equations`` / ``get_genf``,
``Rule.get_equation``, ``ReverseRule.get_equation``, ``VerificationRule.get_equation``, ``DisjointUnion.get_equation``,
``CartesianProduct.get_equation``, ``Complement.get_equation``, ``Quotient.get_equation``,
``EquivalencePathRule.constructor`` (composed parameter maps), the verification strategies' ``get_genf``,
``utils.taylor_expand``.

Oracle.  For a class ``C`` of the toy universe the true series truncated at order ``N`` is

    S_C = sum_{n <= N} sum_{params} brute_terms(C, n)[params] * x^n * prod(stat^value)

(brute force, no library code).  An equation ``Eq(lhs, rhs)`` emitted by the library is evaluated with every applied
function ``F_i(arg_0, arg_1, ...)`` replaced by ``S_{class i}`` composed with the arguments, in an exact truncated
power-series ring implemented here (coefficients ``int`` / ``Fraction``; monomials x^d * na^i * nb^j * na2^k * nb2^l;
truncation in x only; ``Add``, ``Mul``, integer ``Pow``, division by a series whose lowest x-coefficient is a single
non-zero monomial ``c * na^i * nb^j * ...`` -- exponents of the statistics may then become negative, the ring is the
ring of Laurent polynomials in the statistics, an integral domain, so an identity holds iff the residual vanishes).  The difference ``lhs - rhs`` must have only zero coefficients up to x-degree ``N`` (``N - q`` when the
equation divides by series of total x-order ``q``: every element of the ring is exact up to a precision that
``Add`` / ``Mul`` / the inverse of a unit keep and that dividing by ``x^q`` lowers by ``q``).  The ring is cross-checked against ``sympy.expand`` on a seeded
sample of the equations (``oracle-self-consistency``).

Contracts (deal, on sidecar wrappers):

* ``equations(spec)``: every equation holds coefficient by coefficient; placeholder equations
  (``NOTIMPLEMENTED(x)``, emitted for ``NotImplementedError``) are skipped and counted; there is at most one equation
  per rule and exactly one per rule when nothing is dropped as a Boolean;
* ``closed_form(spec)``: when ``get_genf()`` returns (documented failures ``NotImplementedError`` /
  ``IncorrectGeneratingFunctionError`` are caught and counted), its first 20 Taylor coefficients equal the number of
  words given by a transfer-matrix count that is itself validated against brute force for n <= 9.

A failing product equation whose constructor maps two parent statistics onto one child statistic is reported under
the check name ``cartesian-equation-many-to-one``; a failing equation whose right-hand side contains a statistic that
does not occur on the left (a child statistic no parent statistic maps to) under ``equation-free-child-statistic``.
The universe's "addstat" pack (``AddStat``: the child tracks a statistic without a parent preimage) is excluded: the
``DisjointUnion`` docstring requires every child variable to come from a parent variable, so that equation is outside
the documented strategy contract (sampling is not supported there either, see C08).

Family: the searches of C07 plus the packs of ``LOCAL_PACKS``: C08's packs with non-identity parameter maps (children
dropping statistics, factors with local statistic names, non-atom factor first / between two atoms) and
``quotient-stat`` (``PrependStatFactory``: a class that is only ever a factor of products whose parent and atom track
a statistic -- the atom under another name -- that the class itself does not track; only the forest database
specifies it, through a Quotient rule whose counted child has fewer statistics than its siblings).
"""
import json
import multiprocessing
import random
import time
from collections import Counter
from fractions import Fraction

import deal
import sympy
from sympy.core.function import AppliedUndef

from comb_spec_searcher import StrategyPack
from comb_spec_searcher.exception import IncorrectGeneratingFunctionError
from comb_spec_searcher.strategies.constructor import CartesianProduct
from comb_spec_searcher.strategies.rule import EquivalencePathRule, ReverseRule, Rule, VerificationRule
from harness.c07 import ALL_PACKS, build_spec, family_jobs, family_starts, spec_key
from harness.c08 import LOCAL_PACKS as C08_LOCAL_PACKS
from harness.c08 import LOCAL_STARTS as C08_LOCAL_STARTS
from harness.universe import *  # noqa: F401,F403
from harness.universe import class_from_repr

NPROC = 16
COUNTS = Counter()
_LAST = {}
STATS = ("na", "nb", "na2", "nb2")
ZERO_E = (0, 0, 0, 0)
GENF_TERMS = 20


def _note(check, what):
    _LAST["check"] = check
    _LAST["what"] = what
    return False


# --------------------------------------------------------------------------------------------------------------
# exact truncated power series:  {(x-degree, (e_na, e_nb, e_na2, e_nb2)): coefficient}
# --------------------------------------------------------------------------------------------------------------


class Unsupported(Exception):
    pass


class Placeholder(Exception):
    pass


class Ring:
    def __init__(self, order):
        self.N = order
        self.loss = 0  # total x-order of the series divided by

    def const(self, c):
        return {(0, ZERO_E): c} if c else {}

    def var_x(self):
        return {(1, ZERO_E): 1} if self.N >= 1 else {}

    def var_stat(self, name):
        e = tuple(1 if s == name else 0 for s in STATS)
        return {(0, e): 1}

    @staticmethod
    def add(a, b):
        res = dict(a)
        for k, v in b.items():
            w = res.get(k, 0) + v
            if w:
                res[k] = w
            else:
                res.pop(k, None)
        return res

    @staticmethod
    def scale(a, c):
        return {k: v * c for k, v in a.items()} if c else {}

    def mul(self, a, b):
        res = {}
        N = self.N
        for (da, ea), va in a.items():
            for (db, eb), vb in b.items():
                d = da + db
                if d > N:
                    continue
                k = (d, (ea[0] + eb[0], ea[1] + eb[1], ea[2] + eb[2], ea[3] + eb[3]))
                w = res.get(k, 0) + va * vb
                if w:
                    res[k] = w
                else:
                    res.pop(k, None)
        return res

    def power(self, a, n):
        res = self.const(1)
        for _ in range(n):
            res = self.mul(res, a)
        return res

    def inverse(self, b):
        if not b:
            raise Unsupported("division by zero series")
        q = min(d for d, _ in b)
        low = [(k, v) for k, v in b.items() if k[0] == q]
        if len(low) != 1:
            raise Unsupported("lowest x-coefficient of a denominator is not a monomial")
        e0 = low[0][0][1]
        c0 = Fraction(low[0][1])
        self.loss += q
        # b = c0 * x^q * stats^e0 * unit, unit = 1 + (terms of x-order >= 1, possibly negative exponents)
        unit = {(d - q, tuple(a - z for a, z in zip(e, e0))): v for (d, e), v in b.items()}
        w = self.scale(self.add(self.const(c0), self.scale(unit, -1)), 1 / c0)  # 1 - unit/c0, x-order >= 1
        inv, term = self.const(Fraction(1)), self.const(Fraction(1))
        for _ in range(self.N):
            term = self.mul(term, w)
            if not term:
                break
            inv = self.add(inv, term)
        inv = self.scale(inv, 1 / c0)
        if e0 != ZERO_E:
            inv = {(d, tuple(a - z for a, z in zip(e, e0))): v for (d, e), v in inv.items()}
        return inv, q

    def shift_down(self, a, q):
        if any(d < q for d, _ in a):
            raise Unsupported("negative power of x")
        return {(d - q, e): v for (d, e), v in a.items()}


def true_series(cls, order):
    """Truncated true series of a class of the toy universe (brute force)."""
    res = {}
    idx = [STATS.index(s) for s in cls.stats]
    for n in range(order + 1):
        for param, count in brute_terms(cls, n).items():
            e = [0, 0, 0, 0]
            for i, v in zip(idx, param):
                e[i] += v
            res[(n, tuple(e))] = res.get((n, tuple(e)), 0) + count
    return res


class Evaluator:
    """Evaluate a sympy expression tree in the ring; applied functions F_i are looked up through `series_of`."""

    def __init__(self, ring, series_of):
        self.ring = ring
        self.series_of = series_of  # label -> (series over STATS, tuple of the class's statistics in order)

    def ev(self, expr):
        R = self.ring
        if expr.is_Number:
            if not expr.is_Rational:
                raise Unsupported(f"number {expr}")
            return R.const(int(expr.p) if expr.q == 1 else Fraction(int(expr.p), int(expr.q)))
        if expr.is_Symbol:
            if expr.name == "x":
                return R.var_x()
            if expr.name in STATS:
                return R.var_stat(expr.name)
            raise Unsupported(f"symbol {expr}")
        if expr.is_Add:
            res = {}
            for arg in expr.args:
                res = R.add(res, self.ev(arg))
            return res
        if expr.is_Mul:
            num, dens = R.const(1), []
            for arg in expr.args:
                if arg.is_Pow and arg.args[1].is_Integer and int(arg.args[1]) < 0:
                    dens.append(R.power(self.ev(arg.args[0]), -int(arg.args[1])))
                else:
                    num = R.mul(num, self.ev(arg))
            for den in dens:
                inv, q = R.inverse(den)
                num = R.mul(R.shift_down(num, q), inv)
            return num
        if expr.is_Pow:
            base, exp = expr.args
            if not exp.is_Integer:
                raise Unsupported(f"power {expr}")
            if int(exp) >= 0:
                return R.power(self.ev(base), int(exp))
            inv, q = R.inverse(R.power(self.ev(base), -int(exp)))
            if q:
                raise Unsupported("negative power of x")
            return inv
        if isinstance(expr, AppliedUndef):
            name = expr.func.__name__
            if name == "NOTIMPLEMENTED":
                raise Placeholder
            if not name.startswith("F_"):
                raise Unsupported(f"function {name}")
            series, stats = self.series_of(int(name[2:]))
            if len(expr.args) != 1 + len(stats):
                raise Unsupported(f"{expr} applied to {len(expr.args)} arguments, class tracks {stats}")
            args = [self.ev(a) for a in expr.args]
            return self.compose(series, stats, args)
        raise Unsupported(f"node {type(expr).__name__}")

    def compose(self, series, stats, args):
        R = self.ring
        a0 = args[0]
        if any(d < 1 for d, _ in a0):
            raise Unsupported("first argument of a class function has a constant term")
        idx = [STATS.index(s) for s in stats]
        xpow = {0: R.const(1)}
        spow = {}
        res = {}
        for (d, e), c in series.items():
            if d not in xpow:
                for k in range(1, d + 1):
                    if k not in xpow:
                        xpow[k] = R.mul(xpow[k - 1], a0)
            term = xpow[d]
            for j, i in enumerate(idx):
                if e[i]:
                    key = (j, e[i])
                    if key not in spow:
                        spow[key] = R.power(args[1 + j], e[i])
                    term = R.mul(term, spow[key])
            res = R.add(res, R.scale(term, c))
        return res


def residual(spec, eq, order):
    """(series of lhs - rhs, x-degree up to which it must vanish)."""
    ring = Ring(order)
    cache = {}

    def series_of(label):
        if label not in cache:
            cls = spec.get_comb_class(label)
            cache[label] = (true_series(cls, order), cls.stats)
        return cache[label]

    evalr = Evaluator(ring, series_of)
    diff = ring.add(evalr.ev(eq.lhs), ring.scale(evalr.ev(eq.rhs), -1))
    return diff, order - ring.loss


def residual_sympy(spec, eq, order):
    """The same residual computed by sympy (polynomial equations only): {(d, e): coefficient}."""
    x = sympy.Symbol("x")
    syms = [sympy.Symbol(s) for s in STATS]

    def poly_of(label):
        cls = spec.get_comb_class(label)
        res = sympy.Integer(0)
        for (d, e), c in true_series(cls, order).items():
            mono = x**d
            for s, k in zip(syms, e):
                mono *= s**k
            res += c * mono
        return res, [sympy.Symbol(s) for s in cls.stats]

    def repl(f):
        poly, stats = poly_of(int(f.func.__name__[2:]))
        return poly.subs(dict(zip([x] + stats, f.args)), simultaneous=True)

    expr = (eq.lhs - eq.rhs).replace(lambda e: isinstance(e, AppliedUndef), repl)
    expr = sympy.expand(expr)
    res = {}
    poly = sympy.Poly(expr, x, *syms)
    for monom, coeff in poly.terms():
        if monom[0] <= order and coeff != 0:
            res[(monom[0], tuple(monom[1:]))] = int(coeff)
    return res


# --------------------------------------------------------------------------------------------------------------
# a second, independent count for the closed forms (transfer matrix), validated against brute force
# --------------------------------------------------------------------------------------------------------------


def count_dp(cls, n):
    if cls.is_empty() or n < len(cls.prefix):
        return 0
    if cls.just_prefix:
        return int(n == len(cls.prefix))
    m = max((len(p) for p in cls.patterns), default=1)
    states = Counter({str(cls.prefix)[-(m - 1):] if m > 1 else "": 1})
    for _ in range(n - len(cls.prefix)):
        new = Counter()
        for tail, c in states.items():
            for letter in cls.alphabet:
                w = tail + letter
                if any(w.endswith(p) for p in cls.patterns):
                    continue
                new[w[-(m - 1):] if m > 1 else ""] += c
        states = new
    return sum(states.values())


def _validate_dp(starts):
    for cls in starts:
        # the tail kept by the automaton is shorter than the prefix's history only when the prefix is pattern free,
        # which is_empty() guarantees
        for n in range(10):
            assert count_dp(cls, n) == len(brute_objects(cls, n)), (cls, n)


# --------------------------------------------------------------------------------------------------------------
# contracts
# --------------------------------------------------------------------------------------------------------------


def _rule_of_equation(spec, eq):
    """The rule that emitted the equation (by the label on its left-hand side; reverse rules may fall back to the
    original rule's equation, whose left-hand side is the original parent)."""
    try:
        label = int(eq.lhs.func.__name__[2:])
        return spec.rules_dict.get(spec.get_comb_class(label))
    except Exception:  # pylint: disable=broad-except
        return None


def _many_to_one_product(spec, eq):
    """Is some product rule with a non-injective parameter map involved in this equation?"""
    labels = {int(f.func.__name__[2:]) for f in eq.atoms(AppliedUndef) if f.func.__name__.startswith("F_")}
    for rule in spec:
        members = rule.rules if isinstance(rule, EquivalencePathRule) else (rule,)
        for r in members:
            if isinstance(r, ReverseRule):
                r = r.original_rule
            if not isinstance(r, Rule) or isinstance(r, EquivalencePathRule):
                continue
            if not isinstance(r.constructor, CartesianProduct):
                continue
            if spec.get_label(r.comb_class) not in labels:
                continue
            if any(len(set(m.values())) < len(m) for m in r.constructor.extra_parameters):
                return True
    return False


def _post_equations(spec, order, info, result):
    COUNTS["get_equations"] += 1
    eqs = result
    nrules = len(spec.rules_dict)
    if len(eqs) > nrules:
        return _note("equation-count", f"{len(eqs)} equations for {nrules} rules")
    for i, eq in enumerate(eqs):
        info["index"] = i
        info["equation"] = str(eq)
        if not isinstance(eq, sympy.Eq):
            return _note("equation-type", f"equation {i} is {eq!r}")
        try:
            diff, upto = residual(spec, eq, order)
        except Placeholder:
            info["placeholders"] += 1
            continue
        except Unsupported as e:
            info["unsupported"] += 1
            info["unsupported_what"] = str(e)
            continue
        COUNTS["equation-coefficients"] += 1
        info["checked"] += 1
        info["upto"] = min(info["upto"], upto)
        rule = _rule_of_equation(spec, eq)
        info["kinds"][_kind(rule)] += 1
        bad = {k: v for k, v in diff.items() if k[0] <= upto}
        if info["cross"] and not any(a.is_Pow and a.args[1].is_negative for a in sympy.preorder_traversal(eq.rhs)):
            COUNTS["sympy-cross-check"] += 1
            other = residual_sympy(spec, eq, order)
            if {k: int(v) for k, v in diff.items()} != other:
                return _note("oracle-self-consistency", f"{eq}: ring residual {diff} but sympy residual {other}")
        if bad:
            d, e = min(bad)
            mono = f"x^{d}" + "".join(f"*{s}^{k}" for s, k in zip(STATS, e) if k)
            name = "equation-coefficients"
            if _many_to_one_product(spec, eq):
                name = "cartesian-equation-many-to-one"
            elif eq.rhs.free_symbols - eq.lhs.free_symbols:
                name = "equation-free-child-statistic"  # a statistic of a child that no parent statistic maps to
            return _note(name, f"{eq}: coefficient of {mono} in lhs - rhs is {bad[(d, e)]} (true series substituted, "
                               f"checked to x^{upto})")
    return True


def _kind(rule):
    if rule is None:
        return "unknown"
    if isinstance(rule, VerificationRule):
        return "verification:" + type(rule.strategy).__name__
    if isinstance(rule, EquivalencePathRule):
        rev = any(isinstance(m, ReverseRule) or isinstance(getattr(m, "original_rule", None), ReverseRule)
                  for m in rule.rules)
        return "path-with-reverse" if rev else "path"
    if isinstance(rule, ReverseRule):
        return "reverse:" + type(rule.constructor).__name__
    return type(rule.constructor).__name__ + (":stats" if rule.comb_class.stats else "")


@deal.ensure(lambda spec, order, info, result: _post_equations(spec, order, info, result))
def equations(spec, order, info):
    return list(spec.get_equations())


def _post_closed_form(spec, info, result):
    COUNTS["get_genf"] += 1
    if isinstance(result, str):
        info["genf_refused"][result] += 1
        return True
    ring = Ring(GENF_TERMS - 1)
    try:
        series = Evaluator(ring, None).ev(sympy.together(result))
        if ring.loss:
            raise Unsupported("pole at 0")
        coeffs = [series.get((n, ZERO_E), 0) for n in range(GENF_TERMS)]
    except Unsupported:
        x = sympy.Symbol("x")
        poly = sympy.series(result, x, 0, GENF_TERMS).removeO()
        coeffs = [poly.coeff(x, n) for n in range(GENF_TERMS)]
    truth = [count_dp(spec.root, n) for n in range(GENF_TERMS)]
    info["genf_checked"] += 1
    if [int(c) if c == int(c) else c for c in coeffs] != truth:
        return _note("closed-form-coefficients", f"{result}: Taylor coefficients {coeffs} but counts {truth}")
    return True


@deal.ensure(lambda spec, info, result: _post_closed_form(spec, info, result))
def closed_form(spec, info):
    try:
        return spec.get_genf()
    except NotImplementedError:
        return "NotImplementedError"
    except IncorrectGeneratingFunctionError:
        return "IncorrectGeneratingFunctionError"


# --------------------------------------------------------------------------------------------------------------
# jobs
# --------------------------------------------------------------------------------------------------------------


LOCAL_PACKS = dict(C08_LOCAL_PACKS)
LOCAL_PACKS["quotient-stat"] = lambda: StrategyPack(
    initial_strats=[], inferral_strats=[], expansion_strats=[[PrependStatFactory()]],
    ver_strats=[StatAtomStrategy(), LongPrefixVerified(k=2)], name="quotient-stat")
C20_PACKS = dict(ALL_PACKS)
C20_PACKS.update(LOCAL_PACKS)
# one-letter prefixes that start a pattern (the class is a factor of the class with one more letter in front), some
# with a letter that never occurs
LOCAL_STARTS = list(C08_LOCAL_STARTS) + [
    ("a", ["ab"], "ab", ()), ("b", ["ba"], "ab", ()), ("a", ["ab"], "ab", ("na",)), ("b", ["ba", "bb"], "ab", ()),
    ("a", ["aa", "ab"], "ab", ("na",)), ("b", ["bb"], "ab", ("nb",)), ("a", ["aba", "ab"], "ab", ()),
]


def local_jobs(tier, seed):
    starts = list(family_starts(tier, seed))
    starts += [c for c in (Av(p, patts, al, False, st) for p, patts, al, st in LOCAL_STARTS) if c not in set(starts)]
    return [{"start": repr(start), "pack": pack, "db": db} for start in starts for pack in LOCAL_PACKS
            for db in RULEDBS]


def build_spec(job):  # noqa: F811  (the C07 function, over the enlarged table of packs)
    start = class_from_repr(job["start"])
    spec = find_spec(start, C20_PACKS[job["pack"]](), RULEDBS[job["db"]](), max_expansion_time=20)
    return start, spec


def _fresh(cross):
    return {"viols": [], "evals": 0, "found": False, "samples": [], "placeholders": 0, "unsupported": 0,
            "checked": 0, "upto": 99, "kinds": Counter(), "cross": cross, "genf_refused": Counter(),
            "genf_checked": 0, "index": None, "equation": None}


def run_job(job, order, genf, cross):
    silence()
    out = _fresh(cross)
    try:
        _, spec = build_spec(job)
    except Exception as e:  # pylint: disable=broad-except
        out["search_exception"] = f"{type(e).__name__}: {e}"[:200]
        return out
    if spec is None:
        return out
    out["found"] = True
    _LAST.clear()
    out["evals"] += 1
    try:
        eqs = equations(spec, order, out)
        if len(eqs) > 5 and any(len(e.atoms(AppliedUndef)) > 2 for e in eqs):
            out["samples"].append(dict(job, equations=[str(e) for e in eqs][:4]))
    except deal.ContractError:
        out["viols"].append({"check": _LAST.get("check", "contract"), "what": _LAST.get("what", "")[:500],
                             "witness": dict(job, equation=out["equation"], index=out["index"])})
    except Exception as e:  # pylint: disable=broad-except
        out["viols"].append({"check": "equations-exception", "what": f"{type(e).__name__}: {e}"[:400],
                             "witness": dict(job, equation=out["equation"], index=out["index"])})
    if genf and not spec.root.stats:
        _LAST.clear()
        out["evals"] += 1
        try:
            closed_form(spec, out)
        except deal.ContractError:
            out["viols"].append({"check": _LAST.get("check", "contract"), "what": _LAST.get("what", "")[:500],
                                 "witness": dict(job, genf=True)})
        except Exception as e:  # pylint: disable=broad-except
            out["viols"].append({"check": "genf-exception", "what": f"{type(e).__name__}: {e}"[:400],
                                 "witness": dict(job, genf=True)})
    return out


def _key_worker(job):
    silence()
    try:
        _, spec = build_spec(job)
    except Exception:  # pylint: disable=broad-except
        return None
    return None if spec is None else spec_key(spec)


def _worker(arg):
    COUNTS.clear()
    t0 = time.time()
    out = run_job(*arg)
    out["counts"] = dict(COUNTS)
    out["secs"] = time.time() - t0
    return out


def _dedupe(viols):
    viols = sorted(viols, key=lambda v: (v["check"], len(json.dumps(v["witness"])), json.dumps(v["witness"], sort_keys=True)))
    out, per = [], Counter()
    for v in viols:
        if per[v["check"]] >= 3:
            continue
        per[v["check"]] += 1
        out.append(v)
    return out[:20]


# AddStat: the child tracks a statistic that no parent statistic maps to.  The DisjointUnion docstring requires every
# child variable to come from a parent variable, so its equation (which leaves that statistic free) is outside the
# documented contract -- ruled out of scope, as for sampling in C08.
NO_EQUATION_PACKS = ("addstat",)

# packs whose verification strategy computes its generating function by searching and solving (slow in sympy)
# (the local pack "quotient-stat" is not in this set: its few specifications are all checked)
SLOW_PACKS = {name for name, make in ALL_PACKS.items()
              if any(isinstance(s, LongPrefixVerified) for s in make().ver_strats)}


def run(tier, seed):
    order = 6 if tier == "quick" else 8
    rng = random.Random(seed)
    starts = family_starts(tier, seed)
    _validate_dp(starts)
    jobs = [j for j in family_jobs(tier, seed) if j["pack"] not in NO_EQUATION_PACKS] + local_jobs(tier, seed)
    ctx = multiprocessing.get_context("fork")
    with ctx.Pool(NPROC) as pool:
        keys = pool.map(_key_worker, jobs, chunksize=8)
        chosen, seen = [], set()
        for job, key in zip(jobs, keys):
            if key is not None and key not in seen:
                seen.add(key)
                chosen.append(job)
        tasks = []
        genf_rate = 0.12 if tier == "quick" else 0.5
        for job in chosen:
            slow = job["pack"] in SLOW_PACKS
            if slow and rng.random() > (0.15 if tier == "quick" else 0.5):
                continue  # every equation of such a specification costs a search and a sympy.solve
            tasks.append((job, order, rng.random() < genf_rate and not slow, rng.random() < 0.05))
        results = pool.map(_worker, tasks, chunksize=1)
    counts, kinds, refused = Counter(), Counter(), Counter()
    viols, samples = [], []
    evals = checked = placeholders = unsupported = genf_checked = 0
    upto = order
    for r in results:
        counts.update(r["counts"])
        kinds.update(r["kinds"])
        refused.update(r["genf_refused"])
        viols.extend(r["viols"])
        evals += r["evals"]
        checked += r["checked"]
        placeholders += r["placeholders"]
        unsupported += r["unsupported"]
        genf_checked += r["genf_checked"]
        upto = min(upto, r["upto"])
        samples.extend(r["samples"])
    step = max(1, len(samples) // 6)
    return {
        "bound": (f"family of C07 without the packs {NO_EQUATION_PACKS} (a child statistic without a parent preimage is "
                  f"outside the documented DisjointUnion contract), plus the local packs {sorted(LOCAL_PACKS)} on the "
                  f"same start classes and {len(LOCAL_STARTS)} more (prefix of length 3; one-letter prefixes that are "
                  f"factors of a longer class, with and without a letter that never occurs): "
                  f"{len(jobs)} searches -> {len(chosen)} distinct specifications, {len(tasks)} checked (a seeded part of "
                  f"those whose verification strategy solves a system per equation); {checked} equations evaluated "
                  f"coefficient by coefficient to x-degree {order} (lowest degree reached after divisions: {upto}), all "
                  f"exponents of the statistics; by emitting rule: {dict(kinds)}; {placeholders} placeholder equations "
                  f"and {unsupported} equations outside the series ring skipped; {genf_checked} closed forms compared on "
                  f"{GENF_TERMS} Taylor coefficients (refusals: {dict(refused)})"),
        "evaluations": checked + genf_checked,
        "distinct_nontrivial": checked - kinds.get("verification:StatAtomStrategy", 0)
        - kinds.get("verification:AtomStrategy", 0) - kinds.get("verification:EmptyStrategy", 0) + genf_checked,
        "rule": ("one evaluation = one equation of one distinct specification with the true series substituted, or one "
                 "closed form; non-trivial = the equation of a non-verification rule or of a non-atom verification "
                 "strategy, every closed form"),
        "exhaustive": False,
        "contracts_evaluated": dict(counts),
        "samples": samples[::step][:6],
        "violations": _dedupe(viols),
        "placeholders_skipped": placeholders,
    }


def replay(violation):
    w = violation["witness"]
    job = {k: w[k] for k in ("start", "pack", "db")}
    for _ in range(3):
        out = run_job(job, 8, bool(w.get("genf")), True)
        if any(v["check"] == violation["check"] for v in out["viols"]):
            return True
    return False
