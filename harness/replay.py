"""Replay of a verifier counter-model on the real function (runs under /verif/.venv312 with /repo on sys.path).

stdin: {"function": qualname, "file": repo-relative file, "obligation": id, "model": {param: value}, "note": clause}
stdout (last line): {"reproduced": bool, "inputs": ..., "observed": ..., "reason": ...}

Generic adapter: functions whose contract parameters are ints, bools, optional ints and (optional-)int tuples (module
level functions, static methods).  The contract clauses are evaluated concretely on the real function's behaviour.
Functions over objects/heap state have no generic adapter: the violation is then reported without a failing input
(`no-failing-input-found`) unless the bounded stand-in of the same check produces one.
"""
import importlib
import inspect
import itertools
import json
import re
import signal
import sys

sys.path.insert(0, "/verif")


def conv(v):
    if isinstance(v, list):
        return tuple(conv(x) for x in v)
    if isinstance(v, str):
        m = re.fullmatch(r"some_\w+\((-?\d+)\)", v.replace("(- ", "(-").replace(" ", ""))
        if m:
            return int(m.group(1))
        m = re.fullmatch(r"some_\w+\(\(?-(\d+)\)?\)", v.replace(" ", ""))
        if m:
            return -int(m.group(1))
        if v.startswith("none_"):
            return None
        raise ValueError(f"no concrete value for {v!r}")
    return v


class Spec:
    """Concrete evaluation of contract expressions (quantifiers over a finite window)."""
    WINDOW = range(-3, 41)

    def __init__(self, env):
        self.env = dict(env)
        self.env.update(forall=self.forall, exists=self.exists, implies=lambda a, b: (not a) or b,
                        is_none=lambda x: x is None, val=lambda x: x, ite=lambda c, a, b: a if c else b,
                        iff=lambda a, b: bool(a) == bool(b), old=lambda x: x, ssum=sum)

    def forall(self, f, *a):
        n = len(inspect.signature(f).parameters)
        for xs in itertools.product(self.WINDOW, repeat=n):
            try:
                if not f(*xs):
                    return False
            except (IndexError, KeyError, TypeError):
                continue
        return True

    def exists(self, f, *a):
        n = len(inspect.signature(f).parameters)
        for xs in itertools.product(self.WINDOW, repeat=n):
            try:
                if f(*xs):
                    return True
            except (IndexError, KeyError, TypeError):
                continue
        return False

    def ev(self, src, **extra):
        return eval(src, dict(self.env, **extra))


def gen_value(t, rnd, ty):
    """A small random value of contract type t (None if the type has no concrete generator)."""
    if isinstance(t, ty._Int):
        return rnd.randint(-2, 5)
    if isinstance(t, ty._Bool):
        return rnd.random() < 0.5
    if isinstance(t, ty.Opt):
        return None if rnd.random() < 0.3 else gen_value(t.elt, rnd, ty)
    if isinstance(t, ty.Seq):
        n = rnd.randint(0, 3)
        vals = [gen_value(t.elt, rnd, ty) for _ in range(n)]
        return None if any(v is None and not isinstance(t.elt, ty.Opt) for v in vals) else tuple(vals)
    if isinstance(t, ty.List) and not isinstance(t, ty.Deque):
        n = rnd.randint(0, 4)
        vals = [gen_value(t.elt, rnd, ty) for _ in range(n)]
        return None if any(v is None and not isinstance(t.elt, ty.Opt) for v in vals) else list(vals)
    return "NOGEN"


def check_once(c, fn, args, sp_cls):
    """Run the real function on args and evaluate the contract; returns (failures, observed)."""
    import copy
    sp = sp_cls(dict(args))
    for r in c.requires:
        try:
            if not sp.ev(r):
                return None, None
        except Exception:
            return None, None
    failures, observed = [], {}
    call_args = copy.deepcopy(args)
    try:
        res = fn(**call_args)
        if inspect.isgenerator(res):
            items = []
            for k, it in enumerate(res):
                items.append(it)
                for y in c.yields:
                    if not sp.ev(y, it=it):
                        failures.append({"clause": y, "yielded": list(it) if isinstance(it, tuple) else it, "index": k})
                        break
                if failures or k > 5000:
                    break
            observed = {"yielded": [list(x) if isinstance(x, tuple) else x for x in items[:10]]}
        else:
            observed = {"result": list(res) if isinstance(res, (tuple, list)) else res}
            sp2 = sp_cls(dict(call_args))
            sp2.env["old"] = lambda x: x
            for e in c.ensures:
                if "old(" in e or "fresh(" in e or "at(" in e:
                    continue          # clauses about the pre-state are not evaluated concretely
                try:
                    if not sp2.ev(e, result=res):
                        failures.append({"clause": e})
                except (IndexError, KeyError, TypeError) as ex:
                    failures.append({"clause": e, "observed": f"clause not evaluable: {type(ex).__name__}"})
            for exc, cond in c.raises:
                if sp.ev(cond):
                    failures.append({"clause": f"must raise {exc} when {cond}", "observed": "returned normally"})
    except TimeoutError:
        raise
    except Exception as e:
        name = type(e).__name__
        ok = False
        for x, cond in c.raises:
            try:
                ok = ok or (x == name and sp.ev(cond))
            except Exception:
                pass
        ok = ok or name in c.may_raise
        observed = {"raised": name, "message": str(e)[:200]}
        if not ok:
            failures.append({"clause": f"only {[x for x, _ in c.raises] + c.may_raise} may be raised", "observed": name})
    return failures, observed


def search(c, fn, ty, out):
    """No counter-model from the solver: look for a failing input among small random inputs (bounded, seeded)."""
    import random
    import time
    rnd = random.Random(0)
    t0 = time.time()
    tried = 0
    while time.time() - t0 < 25 and tried < 60000:
        args = {n: gen_value(t, rnd, ty) for n, t in c.params.items()}
        if any(isinstance(v, str) and v == "NOGEN" for v in args.values()):
            out["reason"] = "no generator for some parameter type (object/heap state)"
            return
        if any(v is None and not isinstance(c.params[n], ty.Opt) for n, v in args.items()):
            continue
        failures, observed = check_once(c, fn, args, Spec)
        if failures is None:
            continue
        tried += 1
        if failures:
            out.update({"reproduced": True, "inputs": json.loads(json.dumps(args, default=list)), "observed": observed,
                        "failures": failures, "found_by": f"bounded search over small inputs ({tried} tried)"})
            return
    out["reason"] = f"bounded search over {tried} small inputs found no failing input"


def main():
    req = json.load(sys.stdin)
    out = {"reproduced": False, "function": req["function"], "obligation": req["obligation"]}
    try:
        from pyvc.run import load_contracts
        reg = load_contracts()
        c = reg.contracts.get(req["function"].split("[")[0])
        if c is None:
            out["reason"] = "no contract"
            print(json.dumps(out))
            return
        if req["function"].endswith("]") and c.variants:
            vn = req["function"].split("[")[1][:-1]
            for i, v in enumerate(c.variants):
                if v["name"] == vn:
                    c = reg.variant(c, i)
        from pyvc import ty
        simple = (ty._Int, ty._Bool)
        if req.get("search"):
            if c.file.startswith("verif:"):
                out["reason"] = "lemma function (ghost code): nothing to replay"
            else:
                mod = importlib.import_module(c.file[:-3].replace("/", "."))
                fn = mod
                for part in getattr(c, "source", c.qual).split("."):
                    fn = getattr(fn, part)

                def alarm(*_):
                    raise TimeoutError()
                signal.signal(signal.SIGALRM, alarm)
                signal.alarm(40)
                try:
                    search(c, fn, ty, out)
                except TimeoutError:
                    out["reason"] = "bounded search timed out"
                finally:
                    signal.alarm(0)
            print(json.dumps(out, default=str))
            return
        for n, t in c.params.items():
            ok = isinstance(t, simple) or (isinstance(t, ty.Opt) and isinstance(t.elt, simple)) or \
                (isinstance(t, ty.Seq) and (isinstance(t.elt, simple) or (isinstance(t.elt, ty.Opt) and isinstance(t.elt.elt, simple))))
            if not ok:
                out["reason"] = f"no generic replay adapter: parameter {n} has type {t} (object/heap state)"
                print(json.dumps(out))
                return
        if c.file.startswith("verif:"):
            out["reason"] = "lemma function (ghost code): nothing to replay"
            print(json.dumps(out))
            return
        modname = c.file[:-3].replace("/", ".")
        mod = importlib.import_module(modname)
        fn = mod
        for part in getattr(c, "source", c.qual).split("."):
            fn = getattr(fn, part)
        args = {n: conv(req["model"].get(n)) for n in c.params}
        if any(v is None and not isinstance(c.params[n], ty.Opt) for n, v in args.items()):
            out["reason"] = "model gives no value for some parameter"
            print(json.dumps(out))
            return
        out["inputs"] = {k: (list(v) if isinstance(v, tuple) else v) for k, v in args.items()}
        sp = Spec(args)
        for r in c.requires:
            if not sp.ev(r):
                out["reason"] = f"counter-model does not satisfy the precondition `{r}` concretely (spurious model)"
                print(json.dumps(out))
                return

        def alarm(*_):
            raise TimeoutError()
        signal.signal(signal.SIGALRM, alarm)
        signal.alarm(20)
        failures = []
        try:
            res = fn(**args)
            if inspect.isgenerator(res):
                items = []
                for k, it in enumerate(res):
                    items.append(it)
                    for y in c.yields:
                        if not sp.ev(y, it=it):
                            failures.append({"clause": y, "yielded": list(it) if isinstance(it, tuple) else it, "index": k})
                            break
                    if failures or k > 20000:
                        break
                out["observed"] = {"yielded": [list(x) if isinstance(x, tuple) else x for x in items[:10]]}
                comp = getattr(c, "complete", None)
                if comp and not failures and req["model"].get(comp["var"]) is not None:
                    w = conv(req["model"][comp["var"]])
                    out["inputs"][comp["var"]] = list(w) if isinstance(w, tuple) else w
                    if all(sp.ev(r, **{comp["var"]: w}) for r in comp["when"]) and w not in items:
                        failures.append({"clause": f"every {comp['var']} with {' and '.join(comp['when'])} is yielded",
                                         "not_yielded": list(w) if isinstance(w, tuple) else w,
                                         "number_yielded": len(items)})
            else:
                out["observed"] = {"result": list(res) if isinstance(res, tuple) else res}
                for e in c.ensures:
                    if not sp.ev(e, result=res):
                        failures.append({"clause": e})
                for exc, cond in c.raises:
                    if sp.ev(cond):
                        failures.append({"clause": f"must raise {exc} when {cond}", "observed": "returned normally"})
        except TimeoutError:
            out["reason"] = "replay timed out"
            print(json.dumps(out))
            return
        except Exception as e:
            name = type(e).__name__
            allowed = [x for x, cond in c.raises if x == name and sp.ev(cond)] + [x for x in c.may_raise if x == name]
            out["observed"] = {"raised": name, "message": str(e)[:200]}
            if not allowed:
                failures.append({"clause": f"only {[x for x, _ in c.raises] + c.may_raise} may be raised", "observed": name})
        finally:
            signal.alarm(0)
        out["failures"] = failures
        out["reproduced"] = bool(failures)
        if not failures:
            out["reason"] = "the real function satisfies the contract on the solver's counter-model"
    except Exception as e:
        out["reason"] = f"replay adapter error: {type(e).__name__}: {e}"
    print(json.dumps(out, default=str))


if __name__ == "__main__":
    main()
