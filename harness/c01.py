"""Bounded stand-in of C01: a specification returned by the searcher enumerates the root class correctly.

Contracts (deal) sit on sidecar wrappers of the real
    CombinatorialSpecificationSearcher.auto_search      post: the returned specification's root is the start class
    CombinatorialSpecification.count_objects_of_size    post: result == brute-force count of the root class
    CombinatorialSpecification.get_terms                post: result == brute-force terms of the root class
and are driven over the toy universe (harness.universe): start classes x packs x rule databases x search options x
time-slicings of the expand/search loop (the `time` seen by comb_spec_searcher.comb_spec_searcher is a fake clock, the
search is resumed after every ExceededMaxtimeError until it returns) x seeds of the random proof-tree choice
(`choice`/`shuffle`/`time` of comb_spec_searcher.tree_searcher are replaced by a seeded random.Random / step clock).

Packs: those of the universe plus LOCAL_PACKS (defined here, shared with c02):
    rename / rename-late   inferral strategies that rename the statistics (RenameStats: na -> na2, nb -> nb2) before /
                           after other single-child equivalences, so that equivalence paths compose parameter maps
                           that are not the identity on names (the renaming first, then further members)
    onewaycycle            OneWaySwap next to the expansion: the one-way unary rules X -> swap(X) and swap(X) -> X
                           close a directed cycle (an equivalence class that only connect_cycles finds)
    restfirst              products with the non-atom factor first / between two atoms (SplitPrefix)
    localnames             unions whose children drop vanishing statistics, products whose factors use local names
    dependent              a verification strategy whose rule has a child (a dependency on another class)

The case machinery of this module (enumerate_cases, run_case, patched, ...) is shared with c02.
"""
from __future__ import annotations

import contextlib
import itertools
import multiprocessing
import os
import random
import signal
import traceback
import zlib
from collections import Counter
from typing import Dict, Iterator, List, Optional, Tuple

import deal

import comb_spec_searcher.comb_spec_searcher as css_mod
import comb_spec_searcher.tree_searcher as ts_mod
from comb_spec_searcher import (
    CombinatorialSpecification,
    CombinatorialSpecificationSearcher,
    StrategyPack,
)
from comb_spec_searcher.exception import (
    ExceededMaxtimeError,
    InvalidOperationError,
    SpecificationNotFound,
)
from comb_spec_searcher.utils import TermsCache

from harness import universe as U
from harness.universe import (
    PACKS,
    RULEDBS,
    START_CLASSES,
    brute_terms,
    class_from_repr,
    pack_applicable,
    silence,
)

NMAX = {"quick": 5, "thorough": 6}
CONFIGS_PER_COMBO = {"quick": 5, "thorough": 16}
OPTIONS = ("default", "smallest", "expand_verified")
MAX_RESUMES = 400
CASE_TIMEOUT_S = 120  # a case normally takes < 0.1 s; a hang is reported as search-crash


def _local(name, initial, inferral, expansion):
    return StrategyPack(
        initial_strats=initial,
        inferral_strats=inferral,
        expansion_strats=expansion,
        ver_strats=[U.StatAtomStrategy()],
        name=name,
    )


LOCAL_PACKS = {
    "rename": lambda: _local(
        "rename",
        [U.RemoveFrontOfPrefix()],
        [U.RenameStats(), U.RemoveRedundantPatterns(), U.DropZeroStats()],
        [[U.ExpansionStrategy()]],
    ),
    "rename-late": lambda: _local(
        "rename-late",
        [U.RemoveFrontOfPrefix()],
        [U.RemoveRedundantPatterns(), U.RenameStats(), U.MergeDuplicateStats()],
        [[U.ExpansionStrategy()]],
    ),
    "onewaycycle": lambda: _local(
        "onewaycycle",
        [U.RemoveFrontOfPrefix()],
        [],
        [[U.ExpansionStrategy(), U.OneWaySwap(workable=True)]],
    ),
    "restfirst": lambda: _local(
        "restfirst",
        [U.SplitPrefix(pieces=2, rest_at=1), U.SplitPrefix(pieces=1, rest_at=0)],
        [],
        [[U.ExpansionStrategy()]],
    ),
    "localnames": lambda: _local(
        "localnames",
        [U.SplitPrefix(pieces=1, rest_at=0, local_names=True)],
        [],
        [[U.ExpansionDropVanishing()]],
    ),
    # a verification rule WITH a child (a documented dependency): the forest database must treat it as a rule with children
    "dependent": lambda: StrategyPack(
        initial_strats=[U.RemoveFrontOfPrefix()],
        inferral_strats=[],
        expansion_strats=[[U.ExpansionStrategy()]],
        ver_strats=[U.StatAtomStrategy(), U.VerifiedThroughFactor()],
        name="dependent",
    ),
}
ALL_PACKS = dict(PACKS)
ALL_PACKS.update(LOCAL_PACKS)

# --------------------------------------------------------------------------------------------------------------
# controlled nondeterminism
# --------------------------------------------------------------------------------------------------------------


class FakeClock:
    """Stands in for the `time` module inside comb_spec_searcher.comb_spec_searcher.

    ("trip", k):       0.0 for the first k-1 readings, 1.0 from the k-th reading on (the k-th reading trips the
                       current expansion slice / the max_expansion_time test, nothing trips afterwards)
    ("period", p, j):  the clock advances by j after every p-th reading
    """

    def __init__(self, schedule: tuple):
        self.schedule = schedule
        self.readings = 0
        self.now = 0.0

    def time(self) -> float:
        self.readings += 1
        kind = self.schedule[0]
        if kind == "trip":
            return 0.0 if self.readings < self.schedule[1] else 1.0
        _, period, jump = self.schedule
        value = self.now
        if self.readings % period == 0:
            self.now += jump
        return value


class StepClock:
    """`time` of tree_searcher: every reading advances the clock by `step`, so the minimisation loop of
    smallish_random_proof_tree runs a deterministic number of rounds."""

    def __init__(self, step: float):
        self.step = step
        self.now = 0.0

    def time(self) -> float:
        self.now += self.step
        return self.now


# (("real",) = the unpatched clock is understood by `patched`/`search` but is not part of the family: it would
# make the returned specification depend on the machine load)
SCHEDULES: List[tuple] = (
    [("period", 1, 0.0001)]
    + [("trip", k) for k in range(1, 13)]
    + [("period", p, j) for p in (1, 2, 3, 5) for j in (0.01, 1.0)]
)


@contextlib.contextmanager
def patched(schedule: tuple, rng_seed: int):
    """Install the fake clock and the seeded RNG for the duration of one case."""
    saved = (css_mod.time, ts_mod.time, ts_mod.choice, ts_mod.shuffle)
    saved_asizeof = css_mod.asizeof
    rng = random.Random(rng_seed)
    try:
        # pympler's memory statistic in the "specification found" log message costs more than the search itself
        css_mod.asizeof = lambda obj: 0
        if schedule[0] != "real":
            css_mod.time = FakeClock(schedule)
            ts_mod.time = StepClock(1.0 if rng_seed % 2 == 0 else 0.003)
        ts_mod.choice = rng.choice
        ts_mod.shuffle = rng.shuffle
        yield
    finally:
        css_mod.time, ts_mod.time, ts_mod.choice, ts_mod.shuffle = saved
        css_mod.asizeof = saved_asizeof


# --------------------------------------------------------------------------------------------------------------
# contracts on the real functions
# --------------------------------------------------------------------------------------------------------------

CTX: Dict[str, object] = {"start": None, "searcher": None}
FIRED: Counter = Counter()

_real_auto_search = CombinatorialSpecificationSearcher.auto_search
_real_count = CombinatorialSpecification.count_objects_of_size
_real_get_terms = CombinatorialSpecification.get_terms


def _same_terms(a, b) -> bool:
    return all(a[k] == b[k] for k in set(a) | set(b))


def _post_auto_search(self, result) -> bool:
    if self is CTX["searcher"]:
        # (nested searches of verification strategies are checked too, but not counted: whether they run
        # depends on the per-process specification cache of harness.universe)
        FIRED["auto_search: root == start class"] += 1
    expected = CTX["start"] if self is CTX["searcher"] else self.start_class
    return result.root == expected and type(result.root) is type(expected)


def _post_count(self, n, parameters, result) -> bool:
    FIRED["count_objects_of_size == brute force"] += 1
    key = tuple(parameters[k] for k in self.root.stats)
    return result == brute_terms(self.root, n)[key]


def _post_terms(self, n, result) -> bool:
    FIRED["get_terms == brute force"] += 1
    return _same_terms(result, brute_terms(self.root, n))


@deal.ensure(
    lambda self, result, **kwargs: _post_auto_search(self, result),
    message="root-is-start",
)
def auto_search(self, **kwargs):
    return _real_auto_search(self, **kwargs)


@deal.ensure(
    lambda self, n, result, **parameters: _post_count(self, n, parameters, result),
    message="count-vs-bruteforce",
)
def count_objects_of_size(self, n, **parameters):
    return _real_count(self, n, **parameters)


@deal.ensure(
    lambda self, n, result: _post_terms(self, n, result),
    message="terms-vs-bruteforce",
)
def get_terms(self, n):
    return _real_get_terms(self, n)


@contextlib.contextmanager
def contracts_installed():
    CombinatorialSpecificationSearcher.auto_search = auto_search
    CombinatorialSpecification.count_objects_of_size = count_objects_of_size
    CombinatorialSpecification.get_terms = get_terms
    try:
        yield
    finally:
        CombinatorialSpecificationSearcher.auto_search = _real_auto_search
        CombinatorialSpecification.count_objects_of_size = _real_count
        CombinatorialSpecification.get_terms = _real_get_terms


# --------------------------------------------------------------------------------------------------------------
# cases
# --------------------------------------------------------------------------------------------------------------
# case = (start repr, pack name, db name, option, schedule, rng seed)


def enumerate_cases(tier: str, seed: int, per_combo: Optional[int] = None) -> List[tuple]:
    """Every (start, pack, rule db) combination of the universe, each with CONFIGS_PER_COMBO[tier] configurations
    (option, schedule, rng seed) drawn without replacement by random.Random(seed)."""
    rng = random.Random(seed)
    configs = [
        (opt, sched, r)
        for opt in OPTIONS
        for sched in SCHEDULES
        for r in range(3)
    ]
    cases = []
    for start in START_CLASSES(tier, seed):
        for pack_name in ALL_PACKS:
            if not pack_applicable(pack_name, start):
                continue
            for db_name in RULEDBS:
                for opt, sched, r in rng.sample(
                    configs, per_combo or CONFIGS_PER_COMBO[tier]
                ):
                    cases.append((repr(start), pack_name, db_name, opt, sched, r))
    return cases


def search(start, pack_name: str, db_name: str, option: str, schedule: tuple):
    """Run the real searcher to a returned specification (or None), resuming after every ExceededMaxtimeError.
    Must be called inside `patched`.  Returns (spec, searcher, number of resumes)."""
    pack = ALL_PACKS[pack_name]()
    searcher = CombinatorialSpecificationSearcher(
        start,
        pack,
        ruledb=RULEDBS[db_name](),
        expand_verified=(option == "expand_verified"),
    )
    silence()
    CTX["start"], CTX["searcher"] = start, searcher
    kwargs = {}
    if option == "smallest":
        kwargs["smallest"] = True
    if schedule[0] == "real":
        budget = 10.0
    elif schedule[0] == "trip":
        budget = 0.5
    else:
        budget = 2 * schedule[2]
    resumes = 0
    while True:
        try:
            limit = budget if resumes < MAX_RESUMES else None
            return (
                searcher.auto_search(max_expansion_time=limit, **kwargs),
                searcher,
                resumes,
            )
        except ExceededMaxtimeError:
            if schedule[0] == "real":
                return None, searcher, resumes
            resumes += 1
        except SpecificationNotFound:
            return None, searcher, resumes
        except InvalidOperationError as e:
            if "iterative and smallest" in str(e):  # documented refusal
                return None, searcher, resumes
            raise


class CaseTimeout(Exception):
    pass


@contextlib.contextmanager
def time_limit(seconds: int):
    def handler(signum, frame):
        raise CaseTimeout(f"case did not finish within {seconds} s")

    old = signal.signal(signal.SIGALRM, handler)
    signal.alarm(seconds)
    try:
        yield
    finally:
        signal.alarm(0)
        signal.signal(signal.SIGALRM, old)


def spec_signature(spec) -> Tuple[int, int]:
    """(number of rules, checksum of the rule set) -- to count distinct specifications."""
    items = sorted(
        (repr(rule.comb_class), type(rule).__name__, rule.formal_step, repr(rule.children))
        for rule in spec.rules_dict.values()
    )
    return len(items), zlib.crc32(repr(items).encode())


def _safe(thunk):
    try:
        return thunk()
    except Exception as e:  # pylint: disable=broad-except
        return f"<{type(e).__name__}: {str(e)[:80]}>"


def check_spec(spec, start, nmax: int, order_seed: int) -> List[dict]:
    """Call the contracted count/get_terms for all n <= nmax and all parameter values.  Returns violations."""
    problems = []
    sizes = list(range(nmax + 1))
    random.Random(order_seed).shuffle(sizes)
    k = len(start.stats)
    for n in sizes:
        try:
            spec.get_terms(n)
        except deal.PostContractError:
            problems.append(
                {
                    "check": "terms-vs-bruteforce",
                    "n": n,
                    "what": f"get_terms({n}) = {_safe(lambda: dict(_real_get_terms(spec, n)))}, brute "
                    f"force {dict(brute_terms(start, n))}",
                }
            )
        for values in itertools.product(range(n + 2), repeat=k):
            params = dict(zip(start.stats, values))
            try:
                spec.count_objects_of_size(n, **params)
            except deal.PostContractError:
                problems.append(
                    {
                        "check": "count-vs-bruteforce",
                        "n": n,
                        "what": f"count_objects_of_size({n}, {params}) = "
                        f"{_safe(lambda: _real_count(spec, n, **params))}, brute force "
                        f"{brute_terms(start, n)[values]}",
                    }
                )
                break
        if problems:
            break
    return problems


def witness_of(case: tuple, **extra) -> dict:
    start, pack_name, db_name, option, schedule, rng_seed = case
    w = {
        "start": start,
        "pack": pack_name,
        "db": db_name,
        "option": option,
        "schedule": list(schedule),
        "rng": rng_seed,
    }
    w.update(extra)
    return w


def case_of(witness: dict) -> tuple:
    return (
        witness["start"],
        witness["pack"],
        witness["db"],
        witness["option"],
        tuple(witness["schedule"]),
        witness["rng"],
    )


def run_case(arg) -> dict:
    """Worker: one case.  Returns a small summary dict."""
    case, nmax = arg
    start_repr, pack_name, db_name, option, schedule, rng_seed = case
    start = class_from_repr(start_repr)
    out = {"case": case, "spec": None, "violations": [], "fired": None, "resumes": 0}
    FIRED.clear()
    with contracts_installed(), patched(tuple(schedule), rng_seed), time_limit(
        CASE_TIMEOUT_S
    ):
        try:
            spec, _, resumes = search(start, pack_name, db_name, option, tuple(schedule))
            out["resumes"] = resumes
        except deal.PostContractError as e:
            out["violations"].append(
                {
                    "check": "root-is-start",
                    "witness": witness_of(case),
                    "what": f"specification root differs from the start class: {str(e)[:200]}",
                }
            )
            spec = None
        except Exception as e:  # pylint: disable=broad-except
            out["violations"].append(
                {
                    "check": "search-crash",
                    "witness": witness_of(case),
                    "what": f"{type(e).__name__}: {str(e)[:300]} @ "
                    + traceback.format_exc(limit=-2).replace("\n", " | ")[-300:],
                }
            )
            spec = None
        if spec is not None:
            out["spec"] = spec_signature(spec)
            try:
                for p in check_spec(spec, start, nmax, rng_seed):
                    out["violations"].append(
                        {
                            "check": p["check"],
                            "witness": witness_of(case, n=p["n"]),
                            "what": p["what"][:400],
                        }
                    )
            except Exception as e:  # pylint: disable=broad-except
                out["violations"].append(
                    {
                        "check": "count-crash",
                        "witness": witness_of(case),
                        "what": f"{type(e).__name__}: {str(e)[:300]} @ "
                        + traceback.format_exc(limit=-2).replace("\n", " | ")[-300:],
                    }
                )
    out["fired"] = dict(FIRED)
    CTX["start"] = CTX["searcher"] = None
    TermsCache.ALL_CACHES.clear()
    return out


def _init_worker():
    silence()


def map_cases(
    func, args: List, processes: Optional[int] = None, chunksize: int = 8
) -> Iterator:
    processes = processes or min(16, os.cpu_count() or 1)
    ctx = multiprocessing.get_context("fork")
    with ctx.Pool(processes, initializer=_init_worker) as pool:
        yield from pool.imap(func, args, chunksize=chunksize)


def dedupe(violations: List[dict], limit: int = 20) -> List[dict]:
    """At most `limit` violations; one per (check, start, pack, db), the smallest witness first."""
    best = {}
    for v in violations:
        w = v["witness"]
        key = (v["check"], w.get("start"), w.get("pack"), w.get("db"))
        size = len(repr(w))
        if key not in best or size < best[key][0]:
            best[key] = (size, v)
    ordered = sorted(best.values(), key=lambda x: (x[1]["check"], x[0]))
    # spread over checks
    res, seen_checks = [], Counter()
    for _, v in ordered:
        if seen_checks[v["check"]] < 5:
            res.append(v)
            seen_checks[v["check"]] += 1
    return res[:limit]


def run(tier: str, seed: int) -> dict:
    nmax = NMAX[tier]
    cases = enumerate_cases(tier, seed)
    fired: Counter = Counter()
    violations: List[dict] = []
    specs = set()
    returned = nontrivial = resumed = 0
    samples = []
    for out in map_cases(run_case, [(c, nmax) for c in cases]):
        fired.update(out["fired"] or {})
        violations.extend(out["violations"])
        if out["resumes"]:
            resumed += 1
        if out["spec"] is not None:
            returned += 1
            if out["spec"][0] >= 3:
                nontrivial += 1
                specs.add((out["case"][0], out["spec"]))
            if len(samples) < 6 and returned % 997 == 1:
                samples.append(
                    {"case": witness_of(out["case"]), "rules_in_spec": out["spec"][0]}
                )
    n_starts = len(START_CLASSES(tier, seed))
    return {
        "bound": (
            f"{n_starts} start classes (alphabets a, b, ab; <= 2 patterns of length <= 3; prefix length <= 2; "
            f"0-2 statistics) x {len(ALL_PACKS)} packs (the universe's and the local {sorted(LOCAL_PACKS)}) x 3 rule databases, each with {CONFIGS_PER_COMBO[tier]} of "
            f"{len(OPTIONS) * len(SCHEDULES) * 3} configurations (3 options x {len(SCHEDULES)} clock schedules "
            f"[tick 0.1 ms per reading, trip at reading 1..12, periodic 1/2/3/5 x 0.01/1.0 s] x 3 RNG seeds) drawn by seed {seed}; "
            f"searches resumed after ExceededMaxtimeError up to {MAX_RESUMES} times; sizes n <= {nmax}; all "
            f"parameter tuples in [0, n+1]^k"
        ),
        "evaluations": len(cases),
        "distinct_nontrivial": len(specs),
        "rule": (
            "case = (start, pack, rule db, option, clock schedule, rng seed); distinct = distinct (start class, "
            "returned rule set) pairs; non-trivial = a specification with >= 3 rules was returned "
            f"(returned in {returned} cases, {nontrivial} with >= 3 rules, {resumed} cases resumed at least once)"
        ),
        "exhaustive": False,
        "contracts_evaluated": dict(fired),
        "samples": samples,
        "violations": dedupe(violations),
    }


def replay(violation: dict) -> bool:
    silence()
    case = case_of(violation["witness"])
    out = run_case((case, max(NMAX.values())))
    return any(v["check"] == violation["check"] for v in out["violations"])
