"""C07 bounded stand-in: object generation yields exactly the objects of the class, each once; object maps round trip.

Real code under contract (never re-implemented):

* ``CombinatorialSpecification.generate_objects_of_size`` / ``count_objects_of_size`` (through ``Rule.get_objects``,
  ``Rule._ensure_level_objects``, ``DisjointUnion.get_sub_objects``, ``CartesianProduct.get_sub_objects``,
  ``VerificationRule._ensure_level_objects``);
* ``forward_map`` / ``backward_map`` of every rule form the library derives: ``Rule``, ``Rule.to_equivalence_rule()``
  (``EquivalenceRule``), ``EquivalenceRule.to_reverse_rule(0)`` (``EquivalenceRule`` of a ``ReverseRule``),
  ``Rule.to_reverse_rule(i)`` (``ReverseRule``), ``EquivalencePathRule`` (the ones the searcher builds -- the forest
  database puts reverse rules inside them -- and paths assembled here from the derived forms, always with a reverse
  member: ``[eq]``, ``[rev]``, ``[eq, rev]``, ``[rev, eq]`` and the reversal of every path found in a specification).

Contracts (deal, on sidecar wrappers):

* ``generate(spec, start, n, params)``: ``sorted(result) == sorted(brute force)``, no repetition,
  ``len(result) == spec.count_objects_of_size(n, **params)`` -- for ALL parameter vectors of
  ``start.possible_parameters(n)`` (also those without objects);
* ``forward(form, rule, obj)``: as many parts as children; a union-like form has exactly one part and it is a word of
  the corresponding child (membership by brute force, child non-empty), a product has all parts, each in its child;
  parts are ``None`` for the children that do not take part;
* ``backward(form, rule, parts, obj)``: ``list(rule.backward_map(parts)).count(obj) == 1``;
* ``ReverseRule`` of a rule with more than one non-empty child refuses both maps with ``NotImplementedError``
  (documented), and only then.

Oracle: ``harness.universe.brute_objects`` (plain filtering of alphabet^n, no library code).

Specifications "whose rules implement object maps": all rules have a ``DisjointUnion``/``CartesianProduct``
constructor or are verification rules (``Complement``/``Quotient`` of non-equivalence reverse rules raise the documented
``NotImplementedError`` in ``get_sub_objects``; such specifications are counted as skipped for generation, their rules
are still map-checked).
"""
import hashlib
import json
import multiprocessing
import time
from collections import Counter

import deal

from comb_spec_searcher import CombinatorialSpecification, DisjointUnionStrategy, StrategyPack
from comb_spec_searcher.strategies.constructor import CartesianProduct, DisjointUnion
from comb_spec_searcher.strategies.rule import (
    EquivalencePathRule,
    EquivalenceRule,
    ReverseRule,
    Rule,
    VerificationRule,
)
from harness.universe import *  # noqa: F401,F403
from harness.universe import class_from_repr

NPROC = 16
COUNTS = Counter()
_LAST = {}


def _note(check, what):
    _LAST["check"] = check
    _LAST["what"] = what
    return False



# --------------------------------------------------------------------------------------------------------------
# strategies the shared universe lacks (harness code, honouring the strategy contracts)
# --------------------------------------------------------------------------------------------------------------


class ExpansionReversed(ExpansionStrategy):
    """The union of ExpansionStrategy with the children in reversed order (..., prefix+b, prefix+a, just the prefix):
    when all extensions are empty the only non-empty child is the LAST one (EquivalenceRule.child_idx > 0)."""

    def _raw_children(self, comb_class):
        return tuple(reversed(super()._raw_children(comb_class)))

    def forward_map(self, comb_class, obj, children=None):
        return tuple(reversed(super().forward_map(comb_class, obj, children)))

    def formal_step(self) -> str:
        return "Append a letter from the alphabet, or just the prefix (children reversed)"


class FirstLetterToA(DisjointUnionStrategy[Av, Word]):
    """{b} x C  ->  {a} x C when the first letter of the prefix cannot take part in an occurrence of a pattern.  A
    single-child equivalence whose object map is neither the identity nor an involution commuting with the letter
    swap, so that the order of composition inside an equivalence path matters.  Classes without statistics only.
    With ``with_empty`` the rule has an (always empty) first child, so the equivalence sits at child index 1 and the
    backward map refuses an object placed at index 0."""

    def __init__(self, ignore_parent=True, inferrable=True, possibly_empty=False, workable=True, with_empty=False):
        super().__init__(ignore_parent=ignore_parent, inferrable=inferrable,
                         possibly_empty=possibly_empty or with_empty, workable=workable)
        self.with_empty = bool(with_empty)

    def decomposition_function(self, comb_class):
        c = comb_class
        if c.just_prefix or c.is_empty() or c.stats or c.alphabet != ("a", "b") or not c.prefix.startswith("b"):
            return None
        if RemoveFrontOfPrefix.index_safe_to_remove_up_to(c) < 1:
            return None
        child = c.derive(prefix="a" + c.prefix[1:])
        if child.is_empty() or RemoveFrontOfPrefix.index_safe_to_remove_up_to(child) < 1:
            return None
        if not self.with_empty:
            return (child,)
        if not c.patterns:
            return None
        return (c.derive(prefix=c.patterns[0]), child)  # a prefix containing a pattern: the empty class

    def extra_parameters(self, comb_class, children=None):
        return ({}, {}) if self.with_empty else ({},)

    def formal_step(self) -> str:
        return "replace the free first letter b by a" + (" (after an empty class)" if self.with_empty else "")

    def forward_map(self, comb_class, obj, children=None):
        image = Word("a" + obj[1:])
        return (None, image) if self.with_empty else (image,)

    def backward_map(self, comb_class, objs, children=None):
        if self.with_empty:
            if objs[0] is not None or objs[1] is None:
                raise ValueError("the first child is empty, the object must be at index 1")
            yield Word("b" + objs[1][1:])
        else:
            assert objs[0] is not None
            yield Word("b" + objs[0][1:])

    def to_jsonable(self):
        d = super().to_jsonable()
        d["with_empty"] = self.with_empty
        return d

    @classmethod
    def from_dict(cls, d):
        return cls(**d)

    def __repr__(self):
        return f"FirstLetterToA(with_empty={self.with_empty})"


class RemoveFrontDropStat(RemoveFrontOfPrefix):
    """The product of RemoveFrontOfPrefix where the atom tracks only the statistics that are non-zero on it: the two
    children have different parameter lists (a parent statistic not mapped to a child contributes 0 there)."""

    def decomposition_function(self, comb_class):
        children = super().decomposition_function(comb_class)
        if children is None:
            return None
        start, end = children
        kept = tuple(s for s in start.stats if STAT_LETTER[s] in start.prefix)
        return (start.derive(stats=kept), end)

    def extra_parameters(self, comb_class, children=None):
        if children is None:
            children = self.decomposition_function(comb_class)
        return ({s: s for s in children[0].stats}, {s: s for s in comb_class.stats})

    def formal_step(self) -> str:
        return "removing redundant prefix (the atom forgets vanishing statistics)"


def _local_pack(name, initial, inferral, expansion, ver, symmetries=None):
    return StrategyPack(initial_strats=initial, inferral_strats=inferral, expansion_strats=expansion, ver_strats=ver,
                        name=name, symmetries=symmetries)


LOCAL_PACKS = {
    "reversed": lambda: _local_pack("reversed", [RemoveFrontOfPrefix()], [], [[ExpansionReversed()]],
                                    [StatAtomStrategy()]),
    "firstletter": lambda: _local_pack("firstletter", [RemoveFrontOfPrefix()],
                                       [FirstLetterToA(), RemoveRedundantPatterns()], [[ExpansionReversed()]],
                                       [StatAtomStrategy()], symmetries=[SwapSymmetry()]),
    "firstletter-noinitial": lambda: _local_pack("firstletter-noinitial", [], [FirstLetterToA()],
                                                 [[ExpansionReversed(), RemoveFrontOfPrefix()]],
                                                 [StatAtomStrategy()], symmetries=[SwapSymmetry()]),
    "firstletter-empty": lambda: _local_pack("firstletter-empty",
                                             [FirstLetterToA(with_empty=True), RemoveFrontOfPrefix()], [],
                                             [[ExpansionStrategy()]], [StatAtomStrategy()]),
    # a product whose two parent statistics (na, na2) map onto the one child statistic na (no inferral merges first)
    "mergefront": lambda: _local_pack("mergefront", [RemoveFrontOfPrefix(merge=True)], [], [[ExpansionStrategy()]],
                                      [StatAtomStrategy()]),
    "dropfront": lambda: _local_pack("dropfront", [RemoveFrontDropStat()], [], [[ExpansionDropStat()]],
                                     [StatAtomStrategy()]),
}
ALL_PACKS = dict(PACKS)
ALL_PACKS.update(LOCAL_PACKS)

# extra start classes: prefixes starting with b (FirstLetterToA), all-empty extensions (child_idx > 0)
EXTRA_STARTS = [
    ("b", ["aa"], "ab", ()), ("ba", ["bb"], "ab", ()), ("bb", ["aab"], "ab", ()), ("b", [], "ab", ()),
    ("", ["a"], "a", ()), ("", ["a", "b"], "ab", ()), ("b", ["ba", "bb"], "ab", ()), ("", ["aa", "ab"], "ab", ("na",)),
    ("bab", ["aa"], "ab", ()), ("", ["b"], "ab", ("nb", "na")),
]

# --------------------------------------------------------------------------------------------------------------
# family
# --------------------------------------------------------------------------------------------------------------


def family_starts(tier, seed):
    starts = list(START_CLASSES(tier, seed))
    seen = set(starts)
    for prefix, patts, alphabet, stats in EXTRA_STARTS:
        c = Av(prefix, patts, alphabet, False, stats)
        if c not in seen:
            seen.add(c)
            starts.append(c)
    return starts


def family_jobs(tier, seed):
    """(start class, pack, rule database) over the shared universe plus the local packs and start classes."""
    jobs = []
    for start in family_starts(tier, seed):
        for pack in ALL_PACKS:
            if pack in PACKS and not pack_applicable(pack, start):
                continue
            for db in RULEDBS:
                jobs.append({"start": repr(start), "pack": pack, "db": db})
    return jobs


def build_spec(job):
    start = class_from_repr(job["start"])
    spec = find_spec(start, ALL_PACKS[job["pack"]](), RULEDBS[job["db"]](), max_expansion_time=20)
    return start, spec


def spec_key(spec):
    return hashlib.sha1(json.dumps(spec.to_jsonable(), sort_keys=True).encode()).hexdigest()


def supports_generation(spec):
    for rule in spec:
        if isinstance(rule, (VerificationRule, EquivalencePathRule)):
            continue  # a path's constructor is a DisjointUnion; only the maps of its members are used
        if not isinstance(rule.constructor, (DisjointUnion, CartesianProduct)):
            return False
    return True


# --------------------------------------------------------------------------------------------------------------
# contracts
# --------------------------------------------------------------------------------------------------------------


def _brute_with(cls, n, params):
    return [w for w in brute_objects(cls, n) if all(w.count(STAT_LETTER[k]) == v for k, v in params.items())]


def _post_generate(spec, start, n, params, result):
    COUNTS["generate_objects_of_size"] += 1
    truth = _brute_with(start, n, params)
    got = [str(x) for x in result]
    if len(set(got)) != len(got):
        dup = [w for w, c in Counter(got).items() if c > 1][:3]
        return _note("generate-repetition", f"n={n} {params}: repeated {dup}")
    if sorted(got) != sorted(truth):
        return _note("generate-vs-bruteforce", f"n={n} {params}: generated {sorted(got)[:8]} expected {sorted(truth)[:8]}")
    cnt = spec.count_objects_of_size(n, **params)
    if cnt != len(got):
        return _note("generate-len-vs-count", f"n={n} {params}: {len(got)} objects generated, count says {cnt}")
    return True


@deal.ensure(lambda spec, start, n, params, result: _post_generate(spec, start, n, params, result))
def generate(spec, start, n, params):
    return list(CombinatorialSpecification.generate_objects_of_size(spec, n, **params))


def _member(cls, word):
    return word is not None and str(word) in brute_objects(cls, len(word))


def _post_forward(form, rule, obj, result):
    COUNTS["forward_map:" + form] += 1
    children = rule.children
    if not isinstance(result, tuple) or len(result) != len(children):
        return _note("forward-arity", f"{form}: {obj!r} -> {result!r} for {len(children)} children")
    cons = rule.constructor
    present = [i for i, p in enumerate(result) if p is not None]
    if isinstance(cons, CartesianProduct):
        if len(present) != len(children):
            return _note("forward-parts", f"{form}: product part missing: {obj!r} -> {result!r}")
        if sum(len(p) for p in result) != len(obj):
            return _note("forward-parts", f"{form}: sizes of {result!r} do not add up to {obj!r}")
    else:
        if len(present) != 1:
            return _note("forward-parts", f"{form}: expected exactly one part: {obj!r} -> {result!r}")
    for i in present:
        if not _member(children[i], result[i]):
            return _note("forward-membership", f"{form}: part {result[i]!r} of {obj!r} is not in child {i}: {children[i]!r}")
    return True


@deal.ensure(lambda form, rule, obj, result: _post_forward(form, rule, obj, result))
def forward(form, rule, obj):
    return rule.forward_map(obj)


def _post_backward(form, rule, parts, obj, result):
    COUNTS["backward_map:" + form] += 1
    if [str(x) for x in result].count(str(obj)) != 1:
        return _note("backward-of-forward", f"{form}: backward_map({parts!r}) = {result!r}, expected {obj!r} exactly once")
    return True


@deal.ensure(lambda form, rule, parts, obj, result: _post_backward(form, rule, parts, obj, result))
def backward(form, rule, parts, obj):
    return list(rule.backward_map(parts))


# --------------------------------------------------------------------------------------------------------------
# rule forms
# --------------------------------------------------------------------------------------------------------------


def _reverse_member(member):
    """The reverse of a member of an equivalence path, the way the forest extractor builds it."""
    if isinstance(member, EquivalenceRule):
        return member.to_reverse_rule(0)
    if isinstance(member, ReverseRule):
        orig = member.original_rule
        if len(orig.children) == 1:
            return orig
        return orig.to_equivalence_rule()
    if len(member.children) == 1:
        return member.to_reverse_rule(0)
    return member.to_equivalence_rule().to_reverse_rule(0)


def derived_forms(rule):
    """[(form name, rule object, expects NotImplementedError)] for a rule found in a specification."""
    forms = []
    if isinstance(rule, VerificationRule):
        return forms
    if isinstance(rule, EquivalencePathRule):
        has_rev = any(
            isinstance(m, ReverseRule) or isinstance(getattr(m, "original_rule", None), ReverseRule) for m in rule.rules
        )
        forms.append(("spec-path-with-reverse" if has_rev else "spec-path", rule, False))
        for m in rule.rules:
            forms.extend(derived_forms(m))
        try:
            rev = [_reverse_member(m) for m in reversed(rule.rules)]
            if all(r.is_equivalence() and len(r.children) == 1 for r in rev):
                forms.append(("reversed-spec-path", EquivalencePathRule(rev), False))
        except (AssertionError, NotImplementedError):
            pass
        return forms
    if isinstance(rule, EquivalenceRule):
        inner = "reverse-of-equivalence" if isinstance(rule.original_rule, ReverseRule) else "equivalence"
        forms.append((inner, rule, False))
        return forms
    if isinstance(rule, ReverseRule):
        one = len(rule.original_rule.non_empty_children()) == 1
        forms.append(("reverse", rule, not one))
        return forms
    forms.append(("rule", rule, False))
    nonempty = [i for i, c in enumerate(rule.children) if not c.is_empty()]
    if rule.is_equivalence():
        er = rule.to_equivalence_rule()
        forms.append(("equivalence", er, False))
        if rule.is_reversible() and rule.to_reverse_rule(nonempty[0]).is_equivalence():
            rr = er.to_reverse_rule(0)
            forms.append(("reverse-of-equivalence", rr, False))
            forms.append(("path[eq]", EquivalencePathRule([er]), False))
            forms.append(("path[rev]", EquivalencePathRule([rr]), False))
            forms.append(("path[eq,rev]", EquivalencePathRule([er, rr]), False))
            forms.append(("path[rev,eq]", EquivalencePathRule([rr, er]), False))
    if rule.is_reversible():
        for i in nonempty:
            forms.append(("reverse", rule.to_reverse_rule(i), len(nonempty) != 1))
    return forms


# --------------------------------------------------------------------------------------------------------------
# one job
# --------------------------------------------------------------------------------------------------------------


def _viol(job, extra):
    v = {"check": _LAST.get("check", "contract"), "what": _LAST.get("what", "contract failed")[:400],
         "witness": dict(job, **extra)}
    return v


def check_one_form(job, form, rule, refuses, nmax, out):
    """Round trip of every object of the form's parent up to size nmax.  Returns False after the first violation."""
    parent = rule.comb_class
    for n in range(nmax + 1):
        for word in brute_objects(parent, n):
            obj = Word(word)
            extra = {"rule_parent": repr(parent), "form": form, "obj": word}
            out["evals"] += 1
            out["forms"][form] += 1
            _LAST.clear()
            if refuses:
                COUNTS["reverse-map-refusal"] += 1
                try:
                    res = rule.forward_map(obj)
                except NotImplementedError:
                    continue
                except Exception as e:  # pylint: disable=broad-except
                    res = f"{type(e).__name__}: {e}"
                _note("reverse-map-refusal", f"forward_map of a non-equivalence reverse rule gave {res!r}")
                out["viols"].append(_viol(job, extra))
                return False
            try:
                parts = forward(form, rule, obj)
                backward(form, rule, parts, obj)
            except deal.ContractError:
                out["viols"].append(_viol(job, extra))
                return False
            except Exception as e:  # pylint: disable=broad-except
                _note("map-exception", f"{form}: {type(e).__name__}: {e}")
                out["viols"].append(_viol(job, extra))
                return False
    return True


def check_forms(job, spec, nmax, out):
    seen = set()
    for top in list(spec):
        for form, rule, refuses in derived_forms(top):
            key = (form, repr(rule.comb_class), repr(rule.children), repr(rule.strategy))
            if key in seen:
                continue
            seen.add(key)
            check_one_form(job, form, rule, refuses, nmax, out)


def check_generation(job, start, spec, nmax, out):
    for n in range(nmax + 1):
        for params in start.possible_parameters(n):
            _LAST.clear()
            out["evals"] += 1
            try:
                objs = generate(spec, start, n, params)
            except deal.ContractError:
                out["viols"].append(_viol(job, {"n": n, "params": params}))
                return
            except Exception as e:  # pylint: disable=broad-except
                _note("generate-exception", f"n={n} {params}: {type(e).__name__}: {e}")
                out["viols"].append(_viol(job, {"n": n, "params": params}))
                return
            if objs:
                out["nontrivial_gen"] += 1
            if objs and n >= 3 and len(objs) >= 2 and len(out["samples"]) < 1:
                out["samples"].append(dict(job, n=n, params=params, generated=sorted(map(str, objs))[:6]))


# ---- chains of single-child equivalences assembled by hand (composition order matters) ---------------------------


def CHAIN_STRATEGIES():
    return [SwapSymmetry(), FirstLetterToA(), RemoveRedundantPatterns(), DropZeroStats(), MergeDuplicateStats(),
            ExpansionReversed(), ExpansionStrategy(), ExpansionZeroMerge(), FirstLetterToA(with_empty=True)]


def _equivalence_steps(cls):
    """Single-child equivalence rules starting at cls, as the path members the library would use."""
    steps = []
    for idx, strat in enumerate(CHAIN_STRATEGIES()):
        if strat.decomposition_function(cls) is None:
            continue
        rule = strat(cls)
        if not rule.is_equivalence():
            continue
        steps.append((idx, rule if len(rule.children) == 1 else rule.to_equivalence_rule()))
    return steps


def chain_jobs(tier, seed):
    starts = [c for c in family_starts(tier, seed)]
    classes = closure(starts, [ExpansionStrategy(), RemoveFrontOfPrefix(), SwapSymmetry()],
                      limit=400 if tier == "quick" else 1500)
    return [{"chain": repr(c)} for c in classes if not c.is_empty() and not c.just_prefix]


def run_chain_job(job, nmax):
    silence()
    out = {"viols": [], "evals": 0, "forms": Counter(), "nontrivial_gen": 0, "samples": [], "key": None,
           "found": False, "generation": False, "chains": 0}
    cls = class_from_repr(job["chain"])
    for i1, e1 in _equivalence_steps(cls):
        for i2, e2 in _equivalence_steps(e1.children[0]):
            forms = [("chain[e1,e2]", [e1, e2])]
            try:
                r1, r2 = _reverse_member(e1), _reverse_member(e2)
                if r1.is_equivalence() and r2.is_equivalence():
                    forms.append(("chain[rev e2,rev e1]", [r2, r1]))
                    forms.append(("chain[e1,e2,rev e2]", [e1, e2, r2]))
                    forms.append(("chain[e1,e2,rev e2,rev e1]", [e1, e2, r2, r1]))
            except (AssertionError, NotImplementedError):
                pass
            for form, members in forms:
                out["chains"] += 1
                try:
                    path = EquivalencePathRule(members)
                except Exception as e:  # pylint: disable=broad-except
                    _note("path-construction", f"{form}: {type(e).__name__}: {e}")
                    out["viols"].append(_viol(job, {"s1": i1, "s2": i2, "form": form}))
                    continue
                check_one_form(dict(job, s1=i1, s2=i2), form, path, False, nmax, out)
    return out


def run_job(job, nmax):
    if "chain" in job:
        return run_chain_job(job, nmax)
    silence()
    out = {"viols": [], "evals": 0, "forms": Counter(), "nontrivial_gen": 0, "samples": [], "key": None,
           "found": False, "generation": False}
    try:
        start, spec = build_spec(job)
    except Exception as e:  # pylint: disable=broad-except
        # a failing search is the business of C01; record it as skipped
        out["search_exception"] = f"{type(e).__name__}: {e}"[:200]
        return out
    if spec is None:
        return out
    out["found"] = True
    out["key"] = spec_key(spec)
    if supports_generation(spec):
        out["generation"] = True
        check_generation(job, start, spec, nmax, out)
    check_forms(job, spec, nmax, out)
    return out


def _worker(arg):
    job, nmax = arg
    COUNTS.clear()
    t0 = time.time()
    out = run_job(job, nmax)
    out["counts"] = dict(COUNTS)
    out["secs"] = time.time() - t0
    return out


def _dedupe(viols):
    viols = sorted(viols, key=lambda v: (v["check"], len(json.dumps(v["witness"])), json.dumps(v["witness"], sort_keys=True)))
    out, per = [], Counter()
    for v in viols:
        if per[v["check"]] >= 3:
            continue
        per[v["check"]] += 1
        out.append(v)
    return out[:20]


def run(tier, seed):
    nmax = 5 if tier == "quick" else 6
    jobs = family_jobs(tier, seed)
    cjobs = chain_jobs(tier, seed)
    ctx = multiprocessing.get_context("fork")
    with ctx.Pool(NPROC) as pool:
        results = pool.map(_worker, [(j, nmax) for j in jobs + cjobs], chunksize=4)
    counts, forms = Counter(), Counter()
    viols, samples = [], []
    evals = found = gen = chains = 0
    distinct = {}
    search_exc = 0
    for r in results:
        counts.update(r["counts"])
        forms.update(r["forms"])
        viols.extend(r["viols"])
        evals += r["evals"]
        found += r["found"]
        gen += r["generation"]
        chains += r.get("chains", 0)
        search_exc += "search_exception" in r
        samples.extend(r["samples"])
        if r["key"] is not None and r["key"] not in distinct:
            distinct[r["key"]] = r["nontrivial_gen"] + sum(r["forms"].values())
        elif r["key"] is None:
            distinct[len(distinct)] = sum(r["forms"].values())
    nstarts = len(family_starts(tier, seed))
    step = max(1, len(samples) // 6)
    return {
        "bound": (f"{nstarts} start classes x {len(ALL_PACKS)} packs x {len(RULEDBS)} rule databases = {len(jobs)} "
                  f"searches ({found} specifications, {gen} supporting generation, {search_exc} search errors skipped); "
                  f"generation for all n <= {nmax} and ALL parameter vectors of possible_parameters(n); maps of every "
                  f"derived rule form on all objects of the form's parent of size <= {nmax}; {chains} hand-assembled "
                  f"equivalence paths of two single-child equivalences (and their reversals) over {len(cjobs)} classes"),
        "evaluations": evals,
        "distinct_nontrivial": sum(distinct.values()),
        "rule": ("one evaluation = one (specification, n, parameters) generation or one (rule form, object) map round "
                 "trip; distinct = counted once per distinct specification (sha1 of its JSON) / per chain class; "
                 "non-trivial = generation with at least one object, every map case"),
        "exhaustive": False,
        "contracts_evaluated": dict(counts),
        "forms": dict(forms),
        "samples": samples[::step][:6],
        "violations": _dedupe(viols),
    }


def replay(violation):
    w = violation["witness"]
    if "chain" in w:
        out = run_chain_job({"chain": w["chain"]}, 6)
        return any(v["check"] == violation["check"] for v in out["viols"])
    job = {k: w[k] for k in ("start", "pack", "db")}
    for _ in range(3):  # the search is time-sliced; give it three chances to find the same specification
        COUNTS.clear()
        out = run_job(job, 6)
        if any(v["check"] == violation["check"] for v in out["viols"]):
            return True
    return False
