"""C11 bounded stand-in: forest extraction returns a minimal, closed, productive rule set.

Real code under contract (never re-implemented): ``comb_spec_searcher.rule_db.forest.ForestRuleExtractor``
(constructor -> ``_sorted_stable_rules`` -> ``_minimize`` -> ``_minimize_key``, ``_is_productive``, ``check``,
``needed_rules``, ``rules`` -> ``_find_rule``) on top of the real ``TableMethod`` (``pumping_subuniverse``).

Part 1, integer universes: the extractor is built on a stub rule database exposing only ``.table_method`` (classdb/pack
are ``None``: the parts exercised never touch them).

Part 2, universes recorded by real searches: a ``CombinatorialSpecificationSearcher`` runs with a real ``RuleDBForest``
(``reverse=True`` and ``reverse=False``) under a deterministic clock; every key the database hands to its table method
is recorded by a wrapper on ``TableMethod.add_rule_key`` and every rule it is given by a wrapper on ``RuleDBForest.add``.
The rules are extracted twice (``get_specification_rules``): when the search first reports a specification, and again
after the search has been continued until nothing is left to expand (a larger universe, another insertion history).
Families: the word universe (all packs of harness.universe x its start classes), the packs CYCLE_PACKS over the
letters a, b, c whose symmetry is the letter renaming a -> b -> c -> a (order three: the image of a class is not mapped
back by the same strategy, so image -> class exists only as the reverse of a rule and, having one child, is an
equivalence), alone / inverted / with its inverse / with the swap / with the "reverse" pack of the universe / with
finite verification, and the plane-tree universe (TREE_PACKS: unions with empty children, products with repeated
children).

Oracle: the Kleene least-fixed-point computation of ``harness.c03.lfp_oracle`` (independent of the table method),
``Prod(R)`` := root has value infinity in lfp(R).

Contracts (deal) on sidecar wrappers:
* ``TableMethod.pumping_subuniverse()``   == the stored keys whose parent and children are all infinite in the oracle
* ``ForestRuleExtractor._is_productive(R)`` == Prod(R)
* ``ForestRuleExtractor._minimize_key(b)``  afterwards rule_by_bucket[b] is empty, needed_rules only grew, by keys of
                                            bucket b taken from that bucket's list, and Prod(needed + remaining buckets)
* ``ForestRuleExtractor.__init__`` (the whole extraction; statement of the property):
    sub-multiset   needed_rules is a sub-multiset of the inserted keys
    productive     Prod(needed_rules)
    unique-lhs     one rule per left-hand side
    closed         every class mentioned (parent or child) has a rule
    minimal        removing any single rule makes the root non-pumping
    reverse-last   if the universe without its REVERSE keys is productive, no REVERSE key is kept
    check()        the extractor's own self-check passes
  (on real universes with more than STEP_CONTRACT_MAX_KEYS keys the two step contracts ``_is_productive`` /
  ``_minimize_key`` are skipped for time; the statement above and ``pumping_subuniverse`` are always evaluated)
* ``ForestRuleExtractor._find_rule(key)`` (real searches; last clause of the property): returns -- does not raise -- a
                                            rule whose ``forest_key`` is exactly ``key``
* ``ForestRuleExtractor.rules(cache)``      (real searches) every rule handed out has the key of an extracted key (an
                                            EquivalenceRule: its original rule has), no two share a left-hand side, and
                                            every extracted key has its rule handed out, except possibly the keys
                                            without children of classes that are empty by brute force ("is empty");
                                            "reverse-rule-only-when-needed": if the keys of the rules GIVEN to the
                                            database (no reverses) are productive on their own, no rule handed out is a
                                            reverse rule, whatever bucket its key is filed under (the reverse of a rule
                                            with one non-empty child is filed as an equivalence)
"""
import contextlib
import itertools
import multiprocessing
import random
import zlib
from collections import Counter

import deal

import comb_spec_searcher.rule_db.forest as forest
from comb_spec_searcher import CombinatorialSpecificationSearcher, StrategyPack
from comb_spec_searcher.exception import (
    ExceededMaxtimeError,
    NoMoreClassesToExpandError,
    SpecificationNotFound,
)
from comb_spec_searcher.strategies.rule import EquivalenceRule, ReverseRule
from comb_spec_searcher.typing import ForestRuleKey, RuleBucket
from harness import universe as U
from harness.c03 import lfp_oracle
from harness.c14 import any_class_from_repr, clock, truly_empty

NPROC = 16
COUNTS = Counter()
_LAST = {}
ROOT = 0
STEP_CONTRACT_MAX_KEYS = 60
MAX_LEVELS = 60
NONVERIF = (RuleBucket.NORMAL, RuleBucket.EQUIV, RuleBucket.REVERSE)
BNAME = {RuleBucket.NORMAL: "N", RuleBucket.EQUIV: "E", RuleBucket.REVERSE: "R", RuleBucket.VERIFICATION: "V"}
BFROM = {v: k for k, v in BNAME.items()}


def _note(check, what):
    _LAST.setdefault("check", check)
    _LAST.setdefault("what", what)
    return False


def prod(keys, root=ROOT):
    f = lfp_oracle([(k.parent, k.children, k.shifts) for k in keys])
    return root in f and f[root] is None


def _short(keys):
    return [(k.parent, k.children, k.shifts, BNAME.get(k.bucket, "?")) for k in keys]


# --------------------------------------------------------------------------------------------------------------
# Contracts
# --------------------------------------------------------------------------------------------------------------


def _post_subuniverse(tb, result):
    COUNTS["TableMethod.pumping_subuniverse"] += 1
    f = lfp_oracle([(k.parent, k.children, k.shifts) for k in tb._h_inserted])
    inf = {l for l, v in f.items() if v is None}
    exp = [k for k in tb._h_inserted if k.parent in inf and inf.issuperset(k.children)]
    if Counter(result) != Counter(exp):
        return _note("pumping_subuniverse-vs-oracle", f"inserted {_short(tb._h_inserted)}: got {_short(result)}, oracle {_short(exp)}")
    return True


def _post_is_productive(ext, keys, result):
    if getattr(ext, "_h_light", False):
        return True
    COUNTS["ForestRuleExtractor._is_productive"] += 1
    exp = prod(keys, ext.root_label)
    if bool(result) != exp:
        return _note("_is_productive-vs-oracle", f"_is_productive({_short(keys)}) = {result}, oracle {exp}")
    return True


def _post_minimize_key(ext, key):
    if getattr(ext, "_h_light", False):
        return True
    COUNTS["ForestRuleExtractor._minimize_key"] += 1
    before_needed, before_bucket = ext._h_pre
    if ext.rule_by_bucket[key]:
        return _note("_minimize_key-bucket-emptied", f"bucket {key.name} still holds {_short(ext.rule_by_bucket[key])}")
    if ext.needed_rules[: len(before_needed)] != before_needed:
        return _note("_minimize_key-needed-only-grows", f"needed {_short(before_needed)} became {_short(ext.needed_rules)}")
    added = ext.needed_rules[len(before_needed):]
    if any(k.bucket != key for k in added) or Counter(added) - Counter(before_bucket):
        return _note("_minimize_key-added-from-bucket", f"bucket {key.name} = {_short(before_bucket)} but added {_short(added)}")
    rest = list(ext.needed_rules) + [k for b, ks in ext.rule_by_bucket.items() for k in ks]
    if not prod(rest, ext.root_label):
        return _note("_minimize_key-keeps-productive", f"after bucket {key.name}: needed+remaining {_short(rest)} not productive")
    return True


def extraction_error(inserted, needed, root=ROOT):
    """The statement of the property on (inserted keys, extracted keys); None if it holds."""
    if Counter(needed) - Counter(inserted):
        return "sub-multiset", f"needed {_short(needed)} is not a sub-multiset of the inserted keys"
    if not prod(needed, root):
        return "productive", f"needed {_short(needed)} is not productive for {root} (oracle)"
    lhs = [k.parent for k in needed]
    if len(set(lhs)) != len(lhs):
        return "unique-lhs", f"needed {_short(needed)} has two rules for one class"
    mentioned = set(lhs) | {c for k in needed for c in k.children}
    if mentioned - set(lhs):
        return "closed", f"classes {sorted(mentioned - set(lhs))} mentioned without a rule in {_short(needed)}"
    for i in range(len(needed)):
        if prod(needed[:i] + needed[i + 1:], root):
            return "minimal", f"needed {_short(needed)} stays productive without {_short([needed[i]])}"
    if any(k.bucket == RuleBucket.REVERSE for k in needed):
        if prod([k for k in inserted if k.bucket != RuleBucket.REVERSE], root):
            return "reverse-last", f"needed {_short(needed)} keeps a REVERSE key although the reverse-free universe is productive"
    return None


def _post_init(ext, ruledb):
    COUNTS["ForestRuleExtractor.__init__"] += 1
    inserted = ruledb.table_method._h_inserted
    err = extraction_error(inserted, list(ext.needed_rules), ext.root_label)
    if any(k.bucket == RuleBucket.REVERSE for k in inserted):
        COUNTS["cases-with-reverse-keys"] += 1
        if any(k.bucket == RuleBucket.REVERSE for k in ext.needed_rules):
            COUNTS["cases-keeping-a-reverse-key"] += 1
    real = hasattr(ruledb, "_h_rules")
    if real:
        COUNTS["real:ForestRuleExtractor.__init__"] += 1
        if any(k.bucket == RuleBucket.REVERSE for k in ext.needed_rules):
            COUNTS["real:extractions-keeping-a-REVERSE-key"] += 1
        _LAST["extraction"] = (len(inserted), len(ext.needed_rules))
        if any(k not in _given_keys(ruledb) for k in ext.needed_rules):
            COUNTS["real:extractions-keeping-a-key-of-no-rule-given-to-the-database"] += 1
    shown = f"{len(inserted)} recorded keys" if real and len(inserted) > 12 else _short(inserted)
    if err:
        return _note(err[0], f"universe {shown}: {err[1]}")
    try:
        ext.check()
    except AssertionError:
        return _note("check()", f"universe {shown}: extractor.check() fails on {_short(ext.needed_rules)}")
    return True


def _labels(ext):
    return ext.classdb.get_label, ext.classdb.is_empty


def _given_keys(ruledb):
    """The keys of the rules the database was given (computed by the rules' own forest_key), i.e. not of reverses."""
    return {r.forest_key(ruledb.classdb.get_label, ruledb.classdb.is_empty) for r in ruledb._h_rules}


def _is_reverse(rule):
    return isinstance(rule, ReverseRule) or (
        isinstance(rule, EquivalenceRule) and isinstance(rule.original_rule, ReverseRule))


def _post_find_rule(ext, rule_key, outcome):
    COUNTS["ForestRuleExtractor._find_rule"] += 1
    kind, value = outcome
    if kind == "raised":
        return _note("extracted-key-back-to-rule", f"_find_rule({_short([rule_key])}) raised {type(value).__name__}: "
                     f"{str(value)[:160]!r}; parent {ext.classdb.get_class(rule_key.parent)!r}")
    got = value.forest_key(*_labels(ext))
    if got != rule_key:
        return _note("extracted-key-back-to-rule", f"_find_rule({_short([rule_key])}) returned a rule with key {_short([got])}")
    if rule_key.bucket == RuleBucket.REVERSE:
        COUNTS["real:REVERSE-key-turned-back-into-a-rule"] += 1
    elif isinstance(value, ReverseRule):
        COUNTS["real:reverse-equivalence-key-turned-back-into-a-rule"] += 1
    return True


def _post_rules(ext, rules):
    COUNTS["ForestRuleExtractor.rules"] += 1
    needed = set(ext.needed_rules)
    lhs = []
    for rule in rules:
        key = rule.forest_key(*_labels(ext))
        if key not in needed and isinstance(rule, EquivalenceRule):
            key = rule.original_rule.forest_key(*_labels(ext))
        if key not in needed:
            return _note("rules-have-the-extracted-keys", f"rule with key {_short([key])} handed out, extracted "
                         f"{_short(ext.needed_rules)}")
        lhs.append(key.parent)
    if len(set(lhs)) != len(lhs):
        return _note("rules-have-the-extracted-keys", f"two rules handed out for one class: parents {sorted(lhs)}")
    # the rule "this class is empty" (no children, class empty by brute force) may be left out; nothing else
    owed = sorted(k.parent for k in ext.needed_rules
                  if k.children or not truly_empty(ext.classdb.get_class(k.parent)))
    if set(owed) - set(lhs):
        return _note("rules-have-the-extracted-keys", f"rules handed out for the classes {sorted(lhs)}, but keys were "
                     f"extracted for {owed} (not counting empty classes)")
    ruledb = getattr(ext, "_h_ruledb", None)
    reverses = [r for r in rules if _is_reverse(r)]
    if ruledb is not None and reverses:
        COUNTS["real:rule-sets-handed-out-with-a-reverse-rule"] += 1
        given = _given_keys(ruledb)
        if prod([k for k in ruledb.table_method._h_inserted if k in given], ext.root_label):
            keys = [r.forest_key(*_labels(ext)) for r in reverses]
            return _note("reverse-rule-only-when-needed", f"{len(reverses)} reverse rule(s) handed out, with keys "
                         f"{_short(keys)}, although the keys of the rules given to the database (no reverses) are "
                         f"productive on their own; extracted {_short(ext.needed_rules)}")
    return True


_real = {}


@contextlib.contextmanager
def installed():
    X, T = forest.ForestRuleExtractor, forest.TableMethod
    _real.update(init=X.__init__, is_productive=X._is_productive, minimize_key=X._minimize_key,
                 sub=T.pumping_subuniverse)

    @deal.ensure(lambda self, result: _post_subuniverse(self, result))
    def _sub_list(self):
        return list(_real["sub"](self))

    def pumping_subuniverse(self):
        if not hasattr(self, "_h_inserted"):  # tables built inside the extractor are not under this contract
            return _real["sub"](self)
        return iter(_sub_list(self))

    @deal.ensure(lambda self, keys, result: _post_is_productive(self, keys, result))
    def _is_productive_list(self, keys):
        return _real["is_productive"](self, iter(keys))

    def _is_productive(self, rule_keys):
        return _is_productive_list(self, list(rule_keys))

    @deal.ensure(lambda self, key, result: _post_minimize_key(self, key))
    def _minimize_key(self, key):
        self._h_pre = (list(self.needed_rules), list(self.rule_by_bucket[key]))
        return _real["minimize_key"](self, key)

    @deal.ensure(lambda self, root_label, ruledb, classdb, pack, result: _post_init(self, ruledb))
    def __init__(self, root_label, ruledb, classdb, pack):
        self._h_light = (hasattr(ruledb, "_h_rules")
                         and len(ruledb.table_method._h_inserted) > STEP_CONTRACT_MAX_KEYS)
        if hasattr(ruledb, "_h_rules"):
            self._h_ruledb = ruledb
        return _real["init"](self, root_label, ruledb, classdb, pack)

    # real searches: what the database is given, what it hands to its table method (observers, no contract)
    D = forest.RuleDBForest
    _real.update(add_rule_key=T.add_rule_key, db_add=D.add, find_rule=X._find_rule, rules=X.rules)

    def add_rule_key(self, rule_key):
        if hasattr(self, "_h_inserted"):
            self._h_inserted.append(rule_key)
        return _real["add_rule_key"](self, rule_key)

    def db_add(self, start, ends, rule):
        if hasattr(self, "_h_rules"):
            self._h_rules.append(rule)
        return _real["db_add"](self, start, ends, rule)

    @deal.ensure(lambda self, rule_key, result: _post_find_rule(self, rule_key, result))
    def _find_rule_outcome(self, rule_key):
        try:
            return "rule", _real["find_rule"](self, rule_key)
        except Exception as e:  # pylint: disable=broad-except
            return "raised", e

    def _find_rule(self, rule_key):
        return _find_rule_outcome(self, rule_key)[1]

    @deal.ensure(lambda self, cache, result: _post_rules(self, result))
    def _rules_list(self, cache):
        return list(_real["rules"](self, cache))

    def rules(self, cache):
        if self.classdb is None:
            return _real["rules"](self, cache)
        return iter(_rules_list(self, cache))

    X.__init__, X._is_productive, X._minimize_key, T.pumping_subuniverse = __init__, _is_productive, _minimize_key, pumping_subuniverse
    T.add_rule_key, D.add, X._find_rule, X.rules = add_rule_key, db_add, _find_rule, rules
    try:
        yield
    finally:
        X.__init__, X._is_productive, X._minimize_key = _real["init"], _real["is_productive"], _real["minimize_key"]
        T.pumping_subuniverse = _real["sub"]
        T.add_rule_key, D.add, X._find_rule, X.rules = (_real["add_rule_key"], _real["db_add"], _real["find_rule"],
                                                        _real["rules"])


# --------------------------------------------------------------------------------------------------------------
# One case
# --------------------------------------------------------------------------------------------------------------


class _StubRuleDB:
    def __init__(self, table_method):
        self.table_method = table_method


def run_case(keys):
    """keys: ForestRuleKeys in insertion order (root 0 pumps by the oracle). Returns (violation or None, nontrivial)."""
    _LAST.clear()
    wit = {"keys": [[k.parent, list(k.children), list(k.shifts), BNAME[k.bucket]] for k in keys]}
    try:
        tb = forest.TableMethod()
        for k in keys:
            tb.add_rule_key(k)
        tb._h_inserted = list(keys)
        if not tb.is_pumping(ROOT):
            return {"check": "root-pumps", "what": "oracle says the root pumps, table method disagrees (see C03)",
                    "witness": wit}, True
        ext = forest.ForestRuleExtractor(ROOT, _StubRuleDB(tb), None, None)
    except deal.ContractError:
        return {"check": _LAST.get("check", "contract"), "what": _LAST.get("what", "contract failed"), "witness": wit}, True
    except Exception as e:
        return {"check": "exception", "what": f"{type(e).__name__}: {e}", "witness": wit}, True
    return None, len(ext.needed_rules) < len(keys)


# --------------------------------------------------------------------------------------------------------------
# Part 2: universes recorded by real searches
# --------------------------------------------------------------------------------------------------------------


def _cycle_pack(name, symmetries, initial=None, expansion=None, ver=None):
    return lambda: StrategyPack(
        initial_strats=[U.RemoveFrontOfPrefix()] if initial is None else initial(),
        inferral_strats=[],
        expansion_strats=[[U.ExpansionStrategy()]] if expansion is None else expansion(),
        ver_strats=[U.StatAtomStrategy()] if ver is None else ver(),
        symmetries=symmetries(),
        name=name,
    )


# the symmetry slot holds the generator of a group of order three (and variations); everything else as in the universe
CYCLE_PACKS = {
    "cycle": _cycle_pack("cycle", lambda: [U.CycleSymmetry()]),
    "cycle-inverse": _cycle_pack("cycle-inverse", lambda: [U.CycleSymmetry(inverse=True)]),
    "cycle-both": _cycle_pack("cycle-both", lambda: [U.CycleSymmetry(), U.CycleSymmetry(inverse=True)]),
    "cycle-swap": _cycle_pack("cycle-swap", lambda: [U.CycleSymmetry(), U.SwapSymmetry()]),
    "cycle-noinitial": _cycle_pack(
        "cycle-noinitial", lambda: [U.CycleSymmetry()], initial=lambda: [],
        expansion=lambda: [[U.RemoveFrontOfPrefix(), U.ExpansionStrategy()]]),
    "cycle-reverse": _cycle_pack(
        "cycle-reverse", lambda: [U.CycleSymmetry()],
        expansion=lambda: [[U.ExpansionNotSingle()], [U.LookBackRuleFactory()]],
        ver=lambda: [U.StatAtomStrategy(), U.RootVerified()]),
    "cycle-finite": _cycle_pack(
        "cycle-finite", lambda: [U.CycleSymmetry(inverse=True)],
        ver=lambda: [U.StatAtomStrategy(), U.FiniteVerified()]),
}

_CYCLE_QUICK = [
    ("", [], "abc"),
    ("", ["aa", "bb", "cc"], "abc"),
    ("", ["ab", "bc", "ca"], "abc"),
    ("", ["abc", "bca", "cab"], "abc"),
    ("", ["aa"], "abc"),
    ("", ["ab"], "abc"),
    ("", ["a"], "abc"),
    ("", ["a", "bb"], "abc"),
    ("", ["ac", "ba", "cb"], "abc"),
    ("", ["aba", "bcb", "cac"], "abc"),
    ("", ["aa", "bb"], "abc"),
    ("", ["aaa", "bbb", "ccc"], "abc"),
    ("a", ["aa", "bb", "cc"], "abc"),
    ("b", ["ab", "bc", "ca"], "abc"),
    ("c", ["abc", "bca", "cab"], "abc"),
    ("a", [], "abc"),
    ("b", ["cc"], "abc"),
    ("ab", ["aa", "bb", "cc"], "abc"),
    ("ca", ["ab", "bc", "ca"], "abc"),
    ("", ["aa"], "ab"),
    ("", ["bb", "cc"], "bc"),
    ("", ["ca"], "ac"),
    ("a", ["ab", "ba"], "ab"),
    ("", ["aa"], "a"),
    ("", [], "c"),
]


def cycle_start_classes(tier, seed):
    """quick: a fixed list (alphabets abc, ab, bc, ac, a, c; <= 3 patterns of length <= 3; prefix length <= 2);
    thorough: plus a seeded sample of 150 classes over abc with <= 3 patterns of length <= 3 and prefix length <= 2."""
    res = [U.Av(p, patts, al) for p, patts, al in _CYCLE_QUICK]
    if tier == "quick":
        return res
    rng = random.Random(seed + 77)
    words = ["".join(w) for k in (1, 2, 3) for w in itertools.product("abc", repeat=k)]
    prefixes = [""] + [w for w in words if len(w) <= 2]
    seen = set(res)
    while len(res) < len(_CYCLE_QUICK) + 150:
        c = U.Av(rng.choice(prefixes), rng.sample(words, rng.randint(0, 3)), "abc")
        if c not in seen:
            seen.add(c)
            res.append(c)
    return res


def make_real_pack(name):
    for packs in (CYCLE_PACKS, U.TREE_PACKS, U.PACKS):
        if name in packs:
            return packs[name]()
    raise KeyError(name)


def real_cases(tier, seed):
    """(pack, start, reverse, schedule), enumerated without repetition."""
    cases = []
    words = U.START_CLASSES(tier, seed)
    for name in U.PACKS:
        for start in words:
            if U.pack_applicable(name, start):
                cases.append((name, repr(start)))
    for name in CYCLE_PACKS:
        for start in cycle_start_classes(tier, seed):
            cases.append((name, repr(start)))
    for name in U.TREE_PACKS:
        for start in U.TREE_STARTS(tier, seed):
            cases.append((name, repr(start)))
    variants = [(True, "eager"), (True, "coarse"), (False, "eager")]
    if tier != "quick":
        variants.append((False, "coarse"))
    return [(n, s, rev, sched) for n, s in cases for rev, sched in variants]


def run_real_case(case):
    """One real search with a RuleDBForest; the contracts fire inside auto_search / get_specification_rules.
    Returns (violation or None, info)."""
    name, start_repr, reverse, schedule = case
    _LAST.clear()
    wit = {"pack": name, "start": start_repr, "reverse": reverse, "schedule": schedule}
    info = {"case": list(case), "extractions": []}
    moment = "the search reports a specification"
    try:
        start = any_class_from_repr(start_repr)
        db = forest.RuleDBForest(reverse=reverse)
        db.table_method._h_inserted = []
        db._h_rules = []
        css = CombinatorialSpecificationSearcher(start, make_real_pack(name), ruledb=db)
        U.silence()
        with clock(schedule, zlib.crc32(repr(case).encode())):
            try:
                css.auto_search(max_expansion_time=10**4)
                info["extractions"].append(_LAST.pop("extraction", None))
            except (SpecificationNotFound, ExceededMaxtimeError):
                pass
            moment = "the search has been continued until nothing is left to expand"
            for _ in range(MAX_LEVELS):
                try:
                    css.do_level()
                except NoMoreClassesToExpandError:
                    break
            if db.has_specification():
                handed = list(db.get_specification_rules())
                info["extractions"].append(_LAST.pop("extraction", None))
                info["rules"] = len(handed)
        info["keys"] = len(db.table_method._h_inserted)
    except deal.ContractError:
        return {"check": _LAST.get("check", "contract"), "witness": wit,
                "what": f"when {moment}: " + _LAST.get("what", "contract failed")[:600]}, info
    except Exception as e:  # pylint: disable=broad-except
        return {"check": "exception", "witness": wit, "what": f"when {moment}: {type(e).__name__}: {str(e)[:300]}"}, info
    return None, info


def _real_worker(task):
    _, cases, _seed = task
    U.silence()
    COUNTS.clear()
    viols, infos = [], []
    with installed():
        for case in cases:
            v, info = run_real_case(case)
            if v is not None:
                viols.append(v)
            infos.append(info)
    return {"viols": viols, "infos": infos, "counts": dict(COUNTS)}


# --------------------------------------------------------------------------------------------------------------
# Families
# --------------------------------------------------------------------------------------------------------------


def random_universe(rng, nclasses, nrules, max_arity=3, shifts=(-2, -1, 0, 1, 2, 3)):
    rules = []
    for _ in range(nrules):
        p = rng.randrange(nclasses)
        r = rng.random()
        if r < 0.22:
            rules.append((p, (), ()))
            continue
        a = rng.randint(1, max_arity)
        ch = tuple(rng.randrange(nclasses) for _ in range(a))
        sh = tuple(rng.choice(shifts) for _ in range(a))
        rules.append((p, ch, sh))
    return rules


def _worker(task):
    _, nclasses_max, nrules_max, n, seed = task
    rng = random.Random(seed)
    COUNTS.clear()
    viols, evals, nontriv, tried, samples = [], 0, 0, 0, []
    seen = set()
    with installed():
        while tried < n:
            tried += 1
            nclasses = rng.randint(2, nclasses_max)
            rules = random_universe(rng, nclasses, rng.randint(2, nrules_max))
            f = lfp_oracle(rules)
            if f.get(ROOT, 0) is not None:
                continue  # the root does not pump: outside the property's quantifier
            idx = [i for i, r in enumerate(rules) if r[1]]
            if len(idx) <= 4:
                assignments = list(itertools.product(NONVERIF, repeat=len(idx)))
            else:
                assignments = [tuple(rng.choice(NONVERIF) for _ in idx) for _ in range(10)]
                assignments.append(tuple(RuleBucket.REVERSE for _ in idx))
                assignments.append(tuple(RuleBucket.NORMAL for _ in idx))
            for asg in assignments:
                buckets = [RuleBucket.VERIFICATION] * len(rules)
                for i, b in zip(idx, asg):
                    buckets[i] = b
                keys = [ForestRuleKey(p, ch, sh, b) for (p, ch, sh), b in zip(rules, buckets)]
                rng.shuffle(keys)
                tk = tuple(keys)
                if tk in seen:
                    continue
                seen.add(tk)
                v, nt = run_case(keys)
                evals += 1
                nontriv += bool(nt)
                if v is not None and len(viols) < 6:
                    viols.append(v)
                if nt and not samples:
                    samples.append([[k.parent, list(k.children), list(k.shifts), BNAME[k.bucket]] for k in keys])
    return {"viols": viols, "evals": evals, "nontriv": nontriv, "tried": tried, "counts": dict(COUNTS),
            "samples": samples}


def _dispatch(task):
    return _real_worker(task) if task[0] == "real" else _worker(task)


def run(tier, seed):
    cases = real_cases(tier, seed)
    nchunks = NPROC * (8 if tier == "quick" else 32)
    real_tasks = [("real", cases[i::nchunks], seed) for i in range(nchunks)]
    if tier == "quick":
        tasks = [("rnd", 5, 8, 260, seed * 1000 + i) for i in range(64)]
        n_univ = 64 * 260
    else:
        tasks = [("rnd", 5, 8, 1200, seed * 1000 + i) for i in range(128)] + \
                [("rnd", 6, 10, 300, seed * 1000 + 500 + i) for i in range(64)]
        n_univ = 128 * 1200 + 64 * 300
    bound = (f"SEEDED: {n_univ} random integer universes (2..5 classes, 2..8 rules"
             + ("" if tier == "quick" else "; a slice with 2..6 classes, 2..10 rules")
             + "; arity 0..3 with repeated children, shifts -2..3, arity-0 rules in bucket VERIFICATION), kept when the oracle "
             "says class 0 pumps; for each kept universe EVERY assignment of NORMAL/EQUIV/REVERSE to its non-verification "
             "rules when there are <=4 of them, otherwise 10 seeded assignments + all-REVERSE + all-NORMAL; one seeded "
             "insertion order per case.  REAL SEARCHES: "
             f"{len(cases)} searches with a RuleDBForest = (the {len(U.PACKS)} packs of the word universe x "
             f"{len(U.START_CLASSES(tier, seed))} start classes; {len(CYCLE_PACKS)} packs with the order-three letter "
             f"renaming a->b->c->a as symmetry x {len(cycle_start_classes(tier, seed))} classes over subsets of abc, <= 3 "
             f"patterns of length <= 3, prefix length <= 2; {len(U.TREE_PACKS)} plane-tree packs x "
             f"{len(U.TREE_STARTS(tier, seed))} tree classes) x (reverse=True: 2 clock schedules, a specification is looked "
             "for after every work packet / after the queue is drained; reverse=False: "
             + ("the first schedule" if tier == "quick" else "both") + "); rules "
             "extracted when the search first reports a specification and again after the search has run out of classes "
             f"(<= {MAX_LEVELS} further levels); step contracts skipped on recorded universes of more than "
             f"{STEP_CONTRACT_MAX_KEYS} keys")
    ctx = multiprocessing.get_context("fork")
    with ctx.Pool(NPROC) as pool:
        results = pool.map(_dispatch, tasks + real_tasks, chunksize=1)
    counts = Counter()
    viols, evals, nontriv, tried, samples = [], 0, 0, 0, []
    real_infos = []
    for r in results:
        counts.update(r["counts"])
        viols.extend(r["viols"])
        if "infos" in r:
            real_infos.extend(r["infos"])
            continue
        evals += r["evals"]
        nontriv += r["nontriv"]
        tried += r["tried"]
        samples.extend(r["samples"])
    real_infos.sort(key=lambda i: str(i["case"]))
    real_nontriv = sum(1 for i in real_infos if any(e and e[1] < e[0] for e in i["extractions"]))
    viols.sort(key=lambda v: (v["check"], "pack" in v["witness"], len(v["witness"].get("keys", ())),
                              len(v["witness"].get("start", "")), str(v["witness"])))
    out, per = [], Counter()
    for v in viols:
        if per[v["check"]] < 3:
            per[v["check"]] += 1
            out.append(v)
    return {
        "bound": bound,
        "evaluations": evals + len(real_infos),
        "distinct_nontrivial": nontriv + real_nontriv,
        "universes_generated": tried,
        "integer_universe_evaluations": evals,
        "real_search_evaluations": len(real_infos),
        "real_search_extractions": sum(len(i["extractions"]) for i in real_infos),
        "rule": ("evaluation = one extraction (real ForestRuleExtractor on a real TableMethod fed one ordered, bucketed "
                 "universe in which class 0 pumps); cases deduplicated per worker as ordered key tuples; non-trivial = the "
                 "extractor had to discard at least one inserted key.  Real searches: evaluation = one search (pack, "
                 "start, reverse, schedule), enumerated without repetition, with up to two extractions; non-trivial = a "
                 "specification was reported and an extraction discarded at least one recorded key"),
        "exhaustive": False,
        "contracts_evaluated": dict(counts),
        "samples": samples[:3] + samples[-2:] + [i for i in real_infos if i["extractions"]][:: max(1, len(real_infos) // 4)][:4],
        "violations": out[:20],
    }


def replay(violation):
    if "pack" in violation["witness"]:
        w = violation["witness"]
        COUNTS.clear()
        with installed():
            v, _ = run_real_case((w["pack"], w["start"], w["reverse"], w["schedule"]))
        return v is not None and v["check"] == violation["check"]
    keys = [ForestRuleKey(p, tuple(ch), tuple(sh), BFROM[b]) for p, ch, sh, b in violation["witness"]["keys"]]
    COUNTS.clear()
    with installed():
        v, _ = run_case(keys)
    return v is not None
