"""C11 bounded stand-in: forest extraction returns a minimal, closed, productive rule set.

Real code under contract (never re-implemented): ``comb_spec_searcher.rule_db.forest.ForestRuleExtractor``
(constructor -> ``_sorted_stable_rules`` -> ``_minimize`` -> ``_minimize_key``, ``_is_productive``, ``check``,
``needed_rules``) on top of the real ``TableMethod`` (``pumping_subuniverse``).  The extractor is built on a stub rule
database exposing only ``.table_method`` (classdb/pack are ``None``: the parts exercised never touch them; turning keys
back into pack rules is exercised by the toy-universe searches of C02, not here).

Oracle: the Kleene least-fixed-point computation of ``harness.c03.lfp_oracle`` (independent of the table method),
``Prod(R)`` := root has value infinity in lfp(R).

Contracts (deal) on sidecar wrappers:
* ``TableMethod.pumping_subuniverse()``   == the stored keys whose parent and children are all infinite in the oracle
* ``ForestRuleExtractor._is_productive(R)`` == Prod(R)
* ``ForestRuleExtractor._minimize_key(b)``  afterwards rule_by_bucket[b] is empty, needed_rules only grew, by keys of
                                            bucket b taken from that bucket's list, and Prod(needed + remaining buckets)
* ``ForestRuleExtractor.__init__`` (the whole extraction; statement of the property):
    sub-multiset   needed_rules is a sub-multiset of the inserted keys
    productive     Prod(needed_rules)
    unique-lhs     one rule per left-hand side
    closed         every class mentioned (parent or child) has a rule
    minimal        removing any single rule makes the root non-pumping
    reverse-last   if the universe without its REVERSE keys is productive, no REVERSE key is kept
    check()        the extractor's own self-check passes
"""
import contextlib
import itertools
import multiprocessing
import random
from collections import Counter

import deal

import comb_spec_searcher.rule_db.forest as forest
from comb_spec_searcher.typing import ForestRuleKey, RuleBucket
from harness.c03 import lfp_oracle

NPROC = 16
COUNTS = Counter()
_LAST = {}
ROOT = 0
NONVERIF = (RuleBucket.NORMAL, RuleBucket.EQUIV, RuleBucket.REVERSE)
BNAME = {RuleBucket.NORMAL: "N", RuleBucket.EQUIV: "E", RuleBucket.REVERSE: "R", RuleBucket.VERIFICATION: "V"}
BFROM = {v: k for k, v in BNAME.items()}


def _note(check, what):
    _LAST.setdefault("check", check)
    _LAST.setdefault("what", what)
    return False


def prod(keys, root=ROOT):
    f = lfp_oracle([(k.parent, k.children, k.shifts) for k in keys])
    return root in f and f[root] is None


def _short(keys):
    return [(k.parent, k.children, k.shifts, BNAME.get(k.bucket, "?")) for k in keys]


# --------------------------------------------------------------------------------------------------------------
# Contracts
# --------------------------------------------------------------------------------------------------------------


def _post_subuniverse(tb, result):
    COUNTS["TableMethod.pumping_subuniverse"] += 1
    f = lfp_oracle([(k.parent, k.children, k.shifts) for k in tb._h_inserted])
    inf = {l for l, v in f.items() if v is None}
    exp = [k for k in tb._h_inserted if k.parent in inf and inf.issuperset(k.children)]
    if Counter(result) != Counter(exp):
        return _note("pumping_subuniverse-vs-oracle", f"inserted {_short(tb._h_inserted)}: got {_short(result)}, oracle {_short(exp)}")
    return True


def _post_is_productive(ext, keys, result):
    COUNTS["ForestRuleExtractor._is_productive"] += 1
    exp = prod(keys, ext.root_label)
    if bool(result) != exp:
        return _note("_is_productive-vs-oracle", f"_is_productive({_short(keys)}) = {result}, oracle {exp}")
    return True


def _post_minimize_key(ext, key):
    COUNTS["ForestRuleExtractor._minimize_key"] += 1
    before_needed, before_bucket = ext._h_pre
    if ext.rule_by_bucket[key]:
        return _note("_minimize_key-bucket-emptied", f"bucket {key.name} still holds {_short(ext.rule_by_bucket[key])}")
    if ext.needed_rules[: len(before_needed)] != before_needed:
        return _note("_minimize_key-needed-only-grows", f"needed {_short(before_needed)} became {_short(ext.needed_rules)}")
    added = ext.needed_rules[len(before_needed):]
    if any(k.bucket != key for k in added) or Counter(added) - Counter(before_bucket):
        return _note("_minimize_key-added-from-bucket", f"bucket {key.name} = {_short(before_bucket)} but added {_short(added)}")
    rest = list(ext.needed_rules) + [k for b, ks in ext.rule_by_bucket.items() for k in ks]
    if not prod(rest, ext.root_label):
        return _note("_minimize_key-keeps-productive", f"after bucket {key.name}: needed+remaining {_short(rest)} not productive")
    return True


def extraction_error(inserted, needed, root=ROOT):
    """The statement of the property on (inserted keys, extracted keys); None if it holds."""
    if Counter(needed) - Counter(inserted):
        return "sub-multiset", f"needed {_short(needed)} is not a sub-multiset of the inserted keys"
    if not prod(needed, root):
        return "productive", f"needed {_short(needed)} is not productive for {root} (oracle)"
    lhs = [k.parent for k in needed]
    if len(set(lhs)) != len(lhs):
        return "unique-lhs", f"needed {_short(needed)} has two rules for one class"
    mentioned = set(lhs) | {c for k in needed for c in k.children}
    if mentioned - set(lhs):
        return "closed", f"classes {sorted(mentioned - set(lhs))} mentioned without a rule in {_short(needed)}"
    for i in range(len(needed)):
        if prod(needed[:i] + needed[i + 1:], root):
            return "minimal", f"needed {_short(needed)} stays productive without {_short([needed[i]])}"
    if any(k.bucket == RuleBucket.REVERSE for k in needed):
        if prod([k for k in inserted if k.bucket != RuleBucket.REVERSE], root):
            return "reverse-last", f"needed {_short(needed)} keeps a REVERSE key although the reverse-free universe is productive"
    return None


def _post_init(ext, ruledb):
    COUNTS["ForestRuleExtractor.__init__"] += 1
    inserted = ruledb.table_method._h_inserted
    err = extraction_error(inserted, list(ext.needed_rules), ext.root_label)
    if any(k.bucket == RuleBucket.REVERSE for k in inserted):
        COUNTS["cases-with-reverse-keys"] += 1
        if any(k.bucket == RuleBucket.REVERSE for k in ext.needed_rules):
            COUNTS["cases-keeping-a-reverse-key"] += 1
    if err:
        return _note(err[0], f"universe {_short(inserted)}: {err[1]}")
    try:
        ext.check()
    except AssertionError:
        return _note("check()", f"universe {_short(inserted)}: extractor.check() fails on {_short(ext.needed_rules)}")
    return True


_real = {}


@contextlib.contextmanager
def installed():
    X, T = forest.ForestRuleExtractor, forest.TableMethod
    _real.update(init=X.__init__, is_productive=X._is_productive, minimize_key=X._minimize_key,
                 sub=T.pumping_subuniverse)

    @deal.ensure(lambda self, result: _post_subuniverse(self, result))
    def _sub_list(self):
        return list(_real["sub"](self))

    def pumping_subuniverse(self):
        if not hasattr(self, "_h_inserted"):  # tables built inside the extractor are not under this contract
            return _real["sub"](self)
        return iter(_sub_list(self))

    @deal.ensure(lambda self, keys, result: _post_is_productive(self, keys, result))
    def _is_productive_list(self, keys):
        return _real["is_productive"](self, iter(keys))

    def _is_productive(self, rule_keys):
        return _is_productive_list(self, list(rule_keys))

    @deal.ensure(lambda self, key, result: _post_minimize_key(self, key))
    def _minimize_key(self, key):
        self._h_pre = (list(self.needed_rules), list(self.rule_by_bucket[key]))
        return _real["minimize_key"](self, key)

    @deal.ensure(lambda self, root_label, ruledb, classdb, pack, result: _post_init(self, ruledb))
    def __init__(self, root_label, ruledb, classdb, pack):
        return _real["init"](self, root_label, ruledb, classdb, pack)

    X.__init__, X._is_productive, X._minimize_key, T.pumping_subuniverse = __init__, _is_productive, _minimize_key, pumping_subuniverse
    try:
        yield
    finally:
        X.__init__, X._is_productive, X._minimize_key = _real["init"], _real["is_productive"], _real["minimize_key"]
        T.pumping_subuniverse = _real["sub"]


# --------------------------------------------------------------------------------------------------------------
# One case
# --------------------------------------------------------------------------------------------------------------


class _StubRuleDB:
    def __init__(self, table_method):
        self.table_method = table_method


def run_case(keys):
    """keys: ForestRuleKeys in insertion order (root 0 pumps by the oracle). Returns (violation or None, nontrivial)."""
    _LAST.clear()
    wit = {"keys": [[k.parent, list(k.children), list(k.shifts), BNAME[k.bucket]] for k in keys]}
    try:
        tb = forest.TableMethod()
        for k in keys:
            tb.add_rule_key(k)
        tb._h_inserted = list(keys)
        if not tb.is_pumping(ROOT):
            return {"check": "root-pumps", "what": "oracle says the root pumps, table method disagrees (see C03)",
                    "witness": wit}, True
        ext = forest.ForestRuleExtractor(ROOT, _StubRuleDB(tb), None, None)
    except deal.ContractError:
        return {"check": _LAST.get("check", "contract"), "what": _LAST.get("what", "contract failed"), "witness": wit}, True
    except Exception as e:
        return {"check": "exception", "what": f"{type(e).__name__}: {e}", "witness": wit}, True
    return None, len(ext.needed_rules) < len(keys)


# --------------------------------------------------------------------------------------------------------------
# Families
# --------------------------------------------------------------------------------------------------------------


def random_universe(rng, nclasses, nrules, max_arity=3, shifts=(-2, -1, 0, 1, 2, 3)):
    rules = []
    for _ in range(nrules):
        p = rng.randrange(nclasses)
        r = rng.random()
        if r < 0.22:
            rules.append((p, (), ()))
            continue
        a = rng.randint(1, max_arity)
        ch = tuple(rng.randrange(nclasses) for _ in range(a))
        sh = tuple(rng.choice(shifts) for _ in range(a))
        rules.append((p, ch, sh))
    return rules


def _worker(task):
    _, nclasses_max, nrules_max, n, seed = task
    rng = random.Random(seed)
    COUNTS.clear()
    viols, evals, nontriv, tried, samples = [], 0, 0, 0, []
    seen = set()
    with installed():
        while tried < n:
            tried += 1
            nclasses = rng.randint(2, nclasses_max)
            rules = random_universe(rng, nclasses, rng.randint(2, nrules_max))
            f = lfp_oracle(rules)
            if f.get(ROOT, 0) is not None:
                continue  # the root does not pump: outside the property's quantifier
            idx = [i for i, r in enumerate(rules) if r[1]]
            if len(idx) <= 4:
                assignments = list(itertools.product(NONVERIF, repeat=len(idx)))
            else:
                assignments = [tuple(rng.choice(NONVERIF) for _ in idx) for _ in range(10)]
                assignments.append(tuple(RuleBucket.REVERSE for _ in idx))
                assignments.append(tuple(RuleBucket.NORMAL for _ in idx))
            for asg in assignments:
                buckets = [RuleBucket.VERIFICATION] * len(rules)
                for i, b in zip(idx, asg):
                    buckets[i] = b
                keys = [ForestRuleKey(p, ch, sh, b) for (p, ch, sh), b in zip(rules, buckets)]
                rng.shuffle(keys)
                tk = tuple(keys)
                if tk in seen:
                    continue
                seen.add(tk)
                v, nt = run_case(keys)
                evals += 1
                nontriv += bool(nt)
                if v is not None and len(viols) < 6:
                    viols.append(v)
                if nt and not samples:
                    samples.append([[k.parent, list(k.children), list(k.shifts), BNAME[k.bucket]] for k in keys])
    return {"viols": viols, "evals": evals, "nontriv": nontriv, "tried": tried, "counts": dict(COUNTS),
            "samples": samples}


def run(tier, seed):
    if tier == "quick":
        tasks = [("rnd", 5, 8, 260, seed * 1000 + i) for i in range(64)]
        n_univ = 64 * 260
    else:
        tasks = [("rnd", 5, 8, 1200, seed * 1000 + i) for i in range(128)] + \
                [("rnd", 6, 10, 300, seed * 1000 + 500 + i) for i in range(64)]
        n_univ = 128 * 1200 + 64 * 300
    bound = (f"SEEDED: {n_univ} random integer universes (2..5 classes, 2..8 rules"
             + ("" if tier == "quick" else "; a slice with 2..6 classes, 2..10 rules")
             + "; arity 0..3 with repeated children, shifts -2..3, arity-0 rules in bucket VERIFICATION), kept when the oracle "
             "says class 0 pumps; for each kept universe EVERY assignment of NORMAL/EQUIV/REVERSE to its non-verification "
             "rules when there are <=4 of them, otherwise 10 seeded assignments + all-REVERSE + all-NORMAL; one seeded "
             "insertion order per case")
    ctx = multiprocessing.get_context("fork")
    with ctx.Pool(NPROC) as pool:
        results = pool.map(_worker, tasks, chunksize=1)
    counts = Counter()
    viols, evals, nontriv, tried, samples = [], 0, 0, 0, []
    for r in results:
        counts.update(r["counts"])
        viols.extend(r["viols"])
        evals += r["evals"]
        nontriv += r["nontriv"]
        tried += r["tried"]
        samples.extend(r["samples"])
    viols.sort(key=lambda v: (v["check"], len(v["witness"]["keys"]), str(v["witness"])))
    out, per = [], Counter()
    for v in viols:
        if per[v["check"]] < 3:
            per[v["check"]] += 1
            out.append(v)
    return {
        "bound": bound,
        "evaluations": evals,
        "distinct_nontrivial": nontriv,
        "universes_generated": tried,
        "rule": ("evaluation = one extraction (real ForestRuleExtractor on a real TableMethod fed one ordered, bucketed "
                 "universe in which class 0 pumps); cases deduplicated per worker as ordered key tuples; non-trivial = the "
                 "extractor had to discard at least one inserted key"),
        "exhaustive": False,
        "contracts_evaluated": dict(counts),
        "samples": samples[:3] + samples[-2:],
        "violations": out[:20],
    }


def replay(violation):
    keys = [ForestRuleKey(p, tuple(ch), tuple(sh), BFROM[b]) for p, ch, sh, b in violation["witness"]["keys"]]
    COUNTS.clear()
    with installed():
        v, _ = run_case(keys)
    return v is not None
