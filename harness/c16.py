"""C16 bounded stand-in: the work queue schedules every class completely, once, in order, and terminates.

Real code under contract (never re-implemented): ``comb_spec_searcher.class_queue.DefaultQueue`` (``add``,
``set_stop_yielding``, ``set_verified``, ``set_not_inferrable``, ``__next__``, ``do_level``), built from a real
``StrategyPack``; strategies are opaque distinct objects (the queue only stores and hands them out, it never calls them).

The oracle is the property statement itself evaluated on the observed stream of packets (no model of the queue's
internals).  Contracts (deal) on sidecar wrappers:

* ``__next__``  every packet handed out (also through ``do_level``):
    no-work-after-stop    its label was not told to stop (set_stop_yielding / set_verified) earlier in the history
    no-duplicate          the same (label, strategy) was never handed out before (an inferral packet carries the whole
                          inferral tuple and counts once per label)
    packet-shape          inferral packets carry exactly the pack's inferral tuple; other packets exactly one strategy of
                          the initial list or of an expansion set; the label was added at some point
    exhaustion-persists   once StopIteration was signalled, it is signalled again until something is added
* ``do_level``  (consumed completely) yields packets until ``levels_completed`` advances; it raises
                NoMoreClassesToExpandError iff the queue ran dry before the level advanced (then next() is exhausted)
* ``drain``     (driver: next() until StopIteration, at most 400 packets) afterwards, for every label that was added
                and never told to stop, the packets handed out for it over the whole history are EXACTLY
                   [inferral tuple  (iff the pack has inferral strategies and the label was not marked not-inferrable
                                     before its first packet)]
                   + each initial strategy in order + each expansion set in order, each strategy in order;
                StopIteration persists on three further next(); after add(fresh label) the queue resumes, hands out
                exactly that label's complete work and is exhausted again.
"""
import contextlib
import itertools
import multiprocessing
import random
from collections import Counter

import deal

import comb_spec_searcher.class_queue as class_queue
from comb_spec_searcher.exception import NoMoreClassesToExpandError
from comb_spec_searcher.strategies.strategy_pack import StrategyPack

NPROC = 16
COUNTS = Counter()
_LAST = {}
DRAIN_CAP = 400
FRESH = 9


def _note(check, what):
    _LAST.setdefault("check", check)
    _LAST.setdefault("what", what)
    return False


class _S:
    """An opaque strategy (never called by the queue)."""

    def __init__(self, name):
        self.name = name

    def __repr__(self):
        return self.name


def make_pack(shape):
    ninf, nini, sets = shape
    inf = [_S(f"inf{i}") for i in range(ninf)]
    ini = [_S(f"ini{i}") for i in range(nini)]
    exp = [[_S(f"exp{j}.{i}") for i in range(n)] for j, n in enumerate(sets)]
    return StrategyPack(initial_strats=ini, inferral_strats=inf, expansion_strats=exp, ver_strats=[], name="h")


SET_SHAPES = [(), (1,), (2,), (1, 1), (1, 2), (2, 1), (2, 2)]
ALL_SHAPES = [(a, b, s) for a in range(3) for b in range(3) for s in SET_SHAPES]
DEEP_SHAPES = [(1, 1, (1,)), (0, 0, (2,)), (2, 2, (2, 1)), (1, 0, ()), (0, 1, (1, 2)), (2, 0, (1, 1))]


# --------------------------------------------------------------------------------------------------------------
# History record (what the statement talks about) and contracts
# --------------------------------------------------------------------------------------------------------------


class Record:
    def __init__(self, q):
        self.inf = q.inferral_strategies
        self.ini = q.initial_strategies
        self.exp = q.expansion_strats
        self.single = {id(s) for s in self.ini} | {id(s) for st in self.exp for s in st}
        self.added = set()
        self.stopped = set()
        self.notinf_first = set()  # labels marked not-inferrable before their first packet
        self.packets = {}  # label -> list of keys in hand-out order
        self.dry = False

    def expected(self, label):
        e = []
        if self.inf and label not in self.notinf_first:
            e.append("INF")
        e += [id(s) for s in self.ini]
        for st in self.exp:
            e += [id(s) for s in st]
        return e

    def names(self, keys):
        table = {id(s): s.name for s in self.ini}
        table.update({id(s): s.name for st in self.exp for s in st})
        return [table.get(k, k) for k in keys]


def _post_next(q, outcome):
    rec = getattr(q, "_h", None)
    if rec is None:
        return True
    COUNTS["DefaultQueue.__next__"] += 1
    tag, wp = outcome
    if tag == "stop":
        rec.dry = True
        return True
    if tag == "exc":
        return _note("next-raises", f"next() raised {type(wp).__name__}: {wp}")
    if rec.dry:
        return _note("exhaustion-persists", f"next() handed out {wp} after StopIteration although nothing was added")
    label = wp.label
    if label in rec.stopped:
        return _note("no-work-after-stop", f"packet {wp} for label {label} which was told to stop")
    if label not in rec.added:
        return _note("packet-shape", f"packet {wp} for label {label} which was never added")
    if wp.inferral:
        if tuple(wp.strategies) != tuple(rec.inf) or not rec.inf:
            return _note("packet-shape", f"inferral packet {wp} does not carry the inferral tuple {rec.inf}")
        key = "INF"
    else:
        if len(wp.strategies) != 1 or id(wp.strategies[0]) not in rec.single:
            return _note("packet-shape", f"packet {wp} is not one initial/expansion strategy")
        key = id(wp.strategies[0])
    got = rec.packets.setdefault(label, [])
    if key in got:
        return _note("no-duplicate", f"({label}, {wp.strategies}) handed out twice")
    got.append(key)
    return True


def _post_do_level(q, outcome):
    rec = getattr(q, "_h", None)
    if rec is None:
        return True
    COUNTS["DefaultQueue.do_level"] += 1
    before, n, raised = outcome
    after = q.levels_completed
    if raised is None:
        if after <= before:
            return _note("do_level-until-level-advances", f"do_level stopped after {n} packets, level still {after}")
        return True
    if not isinstance(raised, NoMoreClassesToExpandError):
        return _note("do_level-raises", f"do_level raised {type(raised).__name__}: {raised}")
    if after != before:
        return _note("do_level-error-only-when-dry", f"NoMoreClassesToExpandError although the level advanced {before}->{after}")
    if not rec.dry:
        return _note("do_level-error-only-when-dry", "NoMoreClassesToExpandError although next() had not signalled exhaustion")
    return True


def _post_drain(q, outcome):
    rec = q._h
    COUNTS["drain"] += 1
    n, finished = outcome
    if not finished:
        return _note("terminates", f"still handing out packets after {n} calls of next()")
    for label in sorted(rec.added - rec.stopped):
        exp = rec.expected(label)
        got = rec.packets.get(label, [])
        if got != exp:
            return _note("complete-in-order", f"label {label}: handed out {rec.names(got)}, expected {rec.names(exp)}")
    return True


_real = {}


@contextlib.contextmanager
def installed():
    Q = class_queue.DefaultQueue
    _real["next"], _real["do_level"] = Q.__next__, Q.do_level

    @deal.ensure(lambda self, result: _post_next(self, result))
    def _next(self):
        try:
            return ("ok", _real["next"](self))
        except StopIteration:
            return ("stop", None)
        except Exception as e:  # judged by the contract
            return ("exc", e)

    def __next__(self):
        tag, val = _next(self)
        if tag == "ok":
            return val
        if tag == "stop":
            raise StopIteration
        raise val

    @deal.ensure(lambda self, result: _post_do_level(self, result))
    def do_level_all(self):
        """Consume the real do_level() completely: (level before, number of packets, exception or None)."""
        before, n = self.levels_completed, 0
        try:
            for _ in _real["do_level"](self):
                n += 1
                if n > DRAIN_CAP:
                    return before, n, RuntimeError("do_level does not stop")
        except Exception as e:  # judged by the contract (includes NoMoreClassesToExpandError)
            return before, n, e
        return before, n, None

    Q.__next__ = __next__
    Q._h_do_level_all = do_level_all
    try:
        yield
    finally:
        Q.__next__ = _real["next"]
        del Q._h_do_level_all


@deal.ensure(lambda q, result: _post_drain(q, result))
def drain(q):
    n = 0
    while n < DRAIN_CAP:
        n += 1
        try:
            next(q)
        except StopIteration:
            return n, True
    return n, False


# --------------------------------------------------------------------------------------------------------------
# Histories
# --------------------------------------------------------------------------------------------------------------


def _apply(q, rec, op):
    name = op[0]
    if name == "add":
        rec.added.add(op[1])
        rec.dry = False
        q.add(op[1])
    elif name == "stop":
        rec.stopped.add(op[1])
        q.set_stop_yielding(op[1])
    elif name == "ver":
        rec.stopped.add(op[1])
        q.set_verified(op[1])
    elif name == "notinf":
        if op[1] not in rec.packets:
            rec.notinf_first.add(op[1])
        q.set_not_inferrable(op[1])
    elif name == "next":
        try:
            next(q)
        except StopIteration:
            pass
    elif name == "level":
        q._h_do_level_all()
    else:
        raise ValueError(op)


def run_history(shape, ops):
    """Returns (violation or None, nontrivial)."""
    _LAST.clear()
    wit = {"shape": [shape[0], shape[1], list(shape[2])], "ops": [list(o) for o in ops]}
    q = class_queue.DefaultQueue(make_pack(shape))
    rec = Record(q)
    q._h = rec
    step = -1
    try:
        for step, op in enumerate(ops):
            _apply(q, rec, op)
        step = len(ops)
        drain(q)
        for _ in range(3):
            try:
                next(q)
            except StopIteration:
                continue
        if not rec.dry:
            _note("exhaustion-persists", "queue not exhausted after the drain")
            raise deal.ContractError()
        # something is added: the queue must resume with exactly that label's work and be exhausted again
        _apply(q, rec, ("add", FRESH))
        drain(q)
    except deal.ContractError:
        wit["step"] = step
        return {"check": _LAST.get("check", "contract"), "what": _LAST.get("what", "contract failed"), "witness": wit}, True
    except Exception as e:
        wit["step"] = step
        return {"check": "exception", "what": f"{type(e).__name__}: {e}", "witness": wit}, True
    live = rec.added - rec.stopped - {FRESH}
    return None, bool(live) and bool(rec.stopped or rec.notinf_first) and any(rec.expected(l) for l in live)


def alphabet(nlabels, with_verified):
    ops = []
    for l in range(nlabels):
        ops += [("add", l), ("stop", l), ("notinf", l)]
        if with_verified:
            ops.append(("ver", l))
    ops += [("next",), ("level",)]
    return ops


def _worker(task):
    kind = task[0]
    COUNTS.clear()
    viols, evals, nontriv, samples = [], 0, 0, []
    with installed():
        if kind == "exh":
            _, shapes, nlabels, with_ver, length, shard, nshards = task
            ops = alphabet(nlabels, with_ver)
            n = 0
            for shape in shapes:
                for head in itertools.product(ops, repeat=min(2, length)):
                    n += 1
                    if n % nshards != shard:
                        continue
                    for tail in itertools.product(ops, repeat=length - len(head)):
                        h = head + tail
                        v, nt = run_history(shape, h)
                        evals += 1
                        nontriv += nt
                        if v is not None and len(viols) < 8:
                            viols.append(v)
                        if nt and not samples and evals % 13 == 0:
                            samples.append({"shape": [shape[0], shape[1], list(shape[2])], "ops": [list(o) for o in h]})
        else:
            _, nlabels, maxlen, n, seed = task
            rng = random.Random(seed)
            ops = alphabet(nlabels, True)
            weights = [3.0 if o[0] == "add" else 6.0 if o[0] == "next" else 1.5 if o[0] == "level" else 1.0 for o in ops]
            seen = set()
            for _ in range(n):
                shape = rng.choice(ALL_SHAPES)
                h = tuple(rng.choices(ops, weights, k=rng.randint(7, maxlen)))
                if (shape, h) in seen:
                    continue
                seen.add((shape, h))
                v, nt = run_history(shape, h)
                evals += 1
                nontriv += nt
                if v is not None and len(viols) < 8:
                    viols.append(v)
                if nt and not samples:
                    samples.append({"shape": [shape[0], shape[1], list(shape[2])], "ops": [list(o) for o in h]})
    return {"viols": viols, "evals": evals, "nontriv": nontriv, "counts": dict(COUNTS), "samples": samples}


def run(tier, seed):
    tasks = []
    if tier == "quick":
        tasks += [("exh", DEEP_SHAPES[:4], 2, False, 6, s, 96) for s in range(96)]
        tasks += [("exh", DEEP_SHAPES, 3, False, 5, s, 96) for s in range(96)]
        tasks += [("exh", ALL_SHAPES, 2, True, 4, s, 48) for s in range(48)]
        tasks += [("exh", ALL_SHAPES, 3, True, 3, s, 16) for s in range(16)]
        tasks += [("exh", ALL_SHAPES, 3, True, L, 0, 1) for L in (1, 2)]
        tasks += [("rnd", 3, 25, 1000, seed * 1000 + i) for i in range(32)]
        bound = ("operations {add(l), set_stop_yielding(l), set_not_inferrable(l), next(), do_level() [consumed completely]} "
                 "(+ set_verified(l) where stated), every history followed by a drain, 3 more next(), add(fresh label) and a "
                 "second drain. EXHAUSTIVE: all 63 pack shapes (0..2 inferral, 0..2 initial, 0..2 expansion sets of 1..2 "
                 "strategies) x every history of <=3 operations over 3 labels and of exactly 4 operations over 2 labels (with "
                 f"set_verified); 6 representative shapes {DEEP_SHAPES} x every history of exactly 5 operations over 3 labels "
                 "and the first 4 of them x every history of exactly 6 operations over 2 labels (without set_verified, which "
                 "is an alias of set_stop_yielding); "
                 "SEEDED: 32000 histories of 7..25 operations over 3 labels on random shapes")
    else:
        tasks += [("exh", DEEP_SHAPES, 2, False, 7, s, 512) for s in range(512)]
        tasks += [("exh", DEEP_SHAPES, 3, False, 6, s, 512) for s in range(512)]
        tasks += [("exh", ALL_SHAPES, 2, True, 5, s, 256) for s in range(256)]
        tasks += [("exh", ALL_SHAPES, 3, True, 4, s, 256) for s in range(256)]
        tasks += [("exh", DEEP_SHAPES, 2, False, 6, s, 96) for s in range(96)]
        tasks += [("exh", DEEP_SHAPES, 3, False, 5, s, 96) for s in range(96)]
        tasks += [("exh", ALL_SHAPES, 3, True, L, 0, 1) for L in (1, 2, 3)]
        tasks += [("rnd", 3, 25, 8000, seed * 1000 + i) for i in range(128)]
        bound = ("operations {add(l), set_stop_yielding(l), set_not_inferrable(l), next(), do_level() [consumed completely]} "
                 "(+ set_verified(l) where stated), every history followed by a drain, 3 more next(), add(fresh label) and a "
                 "second drain. EXHAUSTIVE: all 63 pack shapes (0..2 inferral, 0..2 initial, 0..2 expansion sets of 1..2 "
                 "strategies) x every history of <=4 operations over 3 labels and of exactly 5 operations over 2 labels (with "
                 f"set_verified); 6 representative shapes {DEEP_SHAPES} x every history of 5..6 operations over 3 labels and "
                 "of 6..7 operations over 2 labels (without set_verified, an alias of set_stop_yielding); SEEDED: 1024000 "
                 "histories of 7..25 operations over 3 labels on random shapes")
    ctx = multiprocessing.get_context("fork")
    with ctx.Pool(NPROC) as pool:
        results = pool.map(_worker, tasks, chunksize=1)
    counts = Counter()
    viols, evals, nontriv, samples = [], 0, 0, []
    for r in results:
        counts.update(r["counts"])
        viols.extend(r["viols"])
        evals += r["evals"]
        nontriv += r["nontriv"]
        samples.extend(r["samples"])
    viols.sort(key=lambda v: (v["check"], len(v["witness"]["ops"]), str(v["witness"])))
    out, per = [], Counter()
    for v in viols:
        if per[v["check"]] < 3:
            per[v["check"]] += 1
            out.append(v)
    return {
        "bound": bound,
        "evaluations": evals,
        "distinct_nontrivial": nontriv,
        "rule": ("evaluation = one (pack shape, history) replayed on a fresh DefaultQueue and drained; cases enumerated "
                 "without repetition (seeded ones deduplicated per worker); non-trivial = some added label with work to do "
                 "survives to the end while another label was stopped or marked not-inferrable in the same history"),
        "exhaustive": False,
        "contracts_evaluated": dict(counts),
        "samples": samples[:2] + samples[len(samples) // 2: len(samples) // 2 + 2] + samples[-2:],
        "violations": out[:20],
    }


def replay(violation):
    w = violation["witness"]
    COUNTS.clear()
    with installed():
        v, _ = run_history((w["shape"][0], w["shape"][1], tuple(w["shape"][2])), [tuple(o) for o in w["ops"]])
    return v is not None
