"""Bounded stand-in of C02: returned specifications are closed, one-rule-per-class, genuine and productive.

Same family of searches as c01 (start classes x packs x rule databases x options x clock schedules x RNG seeds of
harness.universe / harness.c01).  Contracts (deal) on sidecar wrappers of the real functions:

    CombinatorialSpecification.__init__   pre : the rules handed over have pairwise distinct left-hand sides
    CombinatorialSpecificationSearcher.auto_search (every searcher, also the nested ones of verification strategies)
        post "start-has-rule"   : the start class is the left-hand side of a rule
        post "closed"           : every class on a right-hand side is a left-hand side, or is empty according to the
                                  brute-force oracle; the rule stored under a class has that class as parent
        post "genuine"          : every rule (members of equivalence paths included) equals, in (parent, children,
                                  shifts, constructor type), a form derived from a rule that a strategy of the pack
                                  produces when re-applied to a class of the search: the rule itself, its reverse for
                                  a child index, its equivalence form, the reverse / equivalence of those
        post "productive"       : an independent Kleene iteration over (parent, children, shifts) only sends every
                                  class of the specification to infinity -- judged twice: with the shifts the rules
                                  declare, and with shifts derived HERE from (constructor kind, minimum sizes of the
                                  classes by brute force), without calling any shifts() of the library
        post "shifts-vs-oracle" : the triple handed to that judgement is the real one: the shifts a rule declares
                                  equal the independently derived ones (union-like forms: 0; product: sum of the
                                  minimum sizes of the other factors; quotient counting factor i of P = prod F_j:
                                  -(sum_{j != i} min F_j) for P and min F_i - min F_j for the sibling F_j)

The family is that of c01, including its local packs (renamed statistics inside equivalence paths; one-way unary rules
closing a directed cycle -- a rule set in which such a cycle is used as the rule of its classes is not productive;
products with the non-atom factor first; local statistic names).
"""
from __future__ import annotations

import contextlib
import itertools
import traceback
from collections import Counter
from typing import Dict, List, Optional, Tuple

import deal

from comb_spec_searcher import CombinatorialSpecification, CombinatorialSpecificationSearcher
from comb_spec_searcher.exception import StrategyDoesNotApply
from comb_spec_searcher.strategies.constructor import (
    CartesianProduct,
    Complement,
    DisjointUnion,
    Quotient,
)
from comb_spec_searcher.strategies.rule import (
    AbstractRule,
    EquivalencePathRule,
    EquivalenceRule,
    ReverseRule,
    Rule,
    VerificationRule,
)
from comb_spec_searcher.strategies.strategy import (
    AbstractStrategy,
    EmptyStrategy,
    StrategyFactory,
)
from comb_spec_searcher.utils import TermsCache

from harness import c01
from harness.universe import (
    START_CLASSES,
    brute_objects,
    class_from_repr,
    silence,
)

FIRED: Counter = Counter()
DETAIL: Dict[str, str] = {}

_real_auto_search = CombinatorialSpecificationSearcher.auto_search
_real_init = CombinatorialSpecification.__init__

# --------------------------------------------------------------------------------------------------------------
# oracles
# --------------------------------------------------------------------------------------------------------------


def oracle_empty(comb_class) -> bool:
    """A class of the universe is non-empty iff it contains its own prefix (brute force, no library code)."""
    return not brute_objects(comb_class, len(comb_class.prefix))


INF = float("inf")


def kleene_productive(rules: List[Tuple[object, Tuple[object, ...], Tuple[int, ...]]]):
    """rules: (parent, children, shifts), one per parent.  f(c) = number of terms of c that can be computed
    (sizes 0..f-1).  A rule gives term n of its parent once child i has its terms up to n - shift_i, hence
    f(parent) = min_i(f(child_i) + shift_i) (no children: infinity).  Least fixed point by Kleene iteration from 0.
    A finite value of the least fixed point is a sum of shifts along a repetition-free chain of rules ending at a
    class stuck at 0, so it is at most the sum of the positive shifts; a value above cap = 2 * (sum |shifts| +
    number of classes + 1) is therefore infinite.  Classes without a rule never get a term.
    Returns {class: f(class)}."""
    index: Dict[object, int] = {}
    for parent, children, _ in rules:
        index.setdefault(parent, len(index))
        for child in children:
            index.setdefault(child, len(index))
    irules = [
        (index[p], tuple(index[c] for c in children), tuple(shifts))
        for p, children, shifts in rules
    ]
    assert all(len(c) == len(s) for _, c, s in irules)
    value: List[float] = [0] * len(index)
    cap = 2 * (sum(abs(s) for _, _, shifts in irules for s in shifts) + len(index) + 1)
    changed = True
    while changed:
        changed = False
        for parent, children, shifts in irules:
            new = INF
            for c, s in zip(children, shifts):
                v = value[c] + s
                if v < new:
                    new = v
            if new > cap:
                new = INF
            if new > value[parent]:
                value[parent] = new
                changed = True
    return {c: value[i] for c, i in index.items()}


def oracle_min_size(comb_class) -> Optional[int]:
    """Smallest size of a word of the class by brute force (every word starts with the prefix); None when empty."""
    n = len(comb_class.prefix)
    return n if brute_objects(comb_class, n) else None


def oracle_shifts(rule) -> Optional[Tuple[int, ...]]:
    """The reliance of a rule on its children, derived from the kind of its constructor and the brute-force minimum
    sizes only (no shifts() of the library is called).  Term n of the parent needs child i up to size n - shift_i.
    None when the derivation does not apply (an empty factor)."""
    if isinstance(rule, VerificationRule):
        # a verification rule with children (dependencies): in this universe class = {front} x child, so the reliance on the
        # child is the difference of the brute-force minimum sizes
        pm = oracle_min_size(rule.comb_class)
        mins = [oracle_min_size(c) for c in rule.children]
        if rule.children and (pm is None or None in mins):
            return None
        return tuple(pm - m for m in mins)
    if isinstance(rule, (EquivalencePathRule, EquivalenceRule)):
        return tuple(0 for _ in rule.children)
    cons = rule.constructor
    if isinstance(cons, (DisjointUnion, Complement)):
        return tuple(0 for _ in rule.children)
    if isinstance(cons, CartesianProduct):
        mins = [oracle_min_size(c) for c in rule.children]
        if None in mins:
            return None
        return tuple(sum(mins) - m for m in mins)
    if isinstance(cons, Quotient) and isinstance(rule, ReverseRule):
        factors = rule.original_rule.children
        idx = rule.idx
        mins = [oracle_min_size(c) for c in factors]
        if None in mins:
            return None
        # P_N = sum over compositions of prod F_j; solving for (F_idx)_n uses P_{n + s}, s = sum of the other minima,
        # and F_j up to size n + s - (sum of the minima of the factors other than F_j) = n - (min F_idx - min F_j)
        others = sum(mins) - mins[idx]
        return (-others,) + tuple(mins[idx] - m for j, m in enumerate(mins) if j != idx)
    raise ValueError(f"no shift oracle for {type(rule).__name__} with {type(cons).__name__}")


# --------------------------------------------------------------------------------------------------------------
# re-deriving rules from the pack
# --------------------------------------------------------------------------------------------------------------

_CANDIDATES: Dict[tuple, List[tuple]] = {}


def _constructor_name(rule) -> str:
    if isinstance(rule, VerificationRule):
        return "verification:" + type(rule.strategy).__name__
    return type(rule.constructor).__name__


def fingerprint(rule) -> tuple:
    return (rule.comb_class, tuple(rule.children), tuple(rule.shifts()), _constructor_name(rule))


def _forms(rule) -> List:
    """The rule and every form the library derives from it."""
    res = [rule]
    if not isinstance(rule, Rule):
        return res
    if rule.is_equivalence() and len(rule.children) > 1:
        res.append(rule.to_equivalence_rule())
    if rule.is_reversible():
        for i in range(len(rule.children)):
            rev = rule.to_reverse_rule(i)
            res.append(rev)
            if rev.is_equivalence() and len(rev.children) > 1:
                res.append(rev.to_equivalence_rule())
    return res


def candidate_fingerprints(pack, comb_class) -> List[tuple]:
    """Fingerprints of all forms of all rules the pack produces when pointed at comb_class (cached per worker)."""
    key = (pack.name, comb_class)
    if key not in _CANDIDATES:
        rules = []
        for strat in itertools.chain([EmptyStrategy()], pack):
            if isinstance(strat, StrategyFactory):
                produced = list(strat(comb_class))
            else:
                produced = [strat]
            for x in produced:
                if isinstance(x, AbstractStrategy):
                    try:
                        rule = x(comb_class)
                        rule.children  # pylint: disable=pointless-statement
                    except StrategyDoesNotApply:
                        continue
                else:
                    rule = x
                rules.append(rule)
        fps = []
        for rule in rules:
            for form in _forms(rule):
                fps.append(fingerprint(form))
        _CANDIDATES[key] = fps
    return _CANDIDATES[key]


def flat_rules(spec) -> List:
    res = []
    for rule in spec.rules_dict.values():
        if isinstance(rule, EquivalencePathRule):
            res.extend(rule.rules)
        else:
            res.append(rule)
    return res


# --------------------------------------------------------------------------------------------------------------
# the clauses
# --------------------------------------------------------------------------------------------------------------


def clause_one_rule_per_class(rules) -> bool:
    FIRED["__init__: distinct left-hand sides"] += 1
    parents = [rule.comb_class for rule in rules]
    dup = [p for p, k in Counter(parents).items() if k > 1]
    if dup:
        DETAIL["one-rule-per-class"] = f"{len(dup)} classes with several rules, e.g. {dup[0]!r}"
    return not dup


def clause_start_has_rule(searcher, spec) -> bool:
    FIRED["auto_search: start class has a rule"] += 1
    start = searcher.start_class
    ok = start in spec.rules_dict and spec.rules_dict[start].comb_class == start
    if not ok:
        DETAIL["start-has-rule"] = f"no rule with left-hand side {start!r}"
    return ok


def clause_closed(searcher, spec) -> bool:
    FIRED["auto_search: closed"] += 1
    for comb_class, rule in list(spec.rules_dict.items()):
        if rule.comb_class != comb_class:
            DETAIL["closed"] = f"rule stored under {comb_class!r} has parent {rule.comb_class!r}"
            return False
        for child in rule.children:
            if child not in spec.rules_dict and not oracle_empty(child):
                DETAIL["closed"] = (
                    f"non-empty class {child!r} on the right of {comb_class!r} has no rule"
                )
                return False
            if child in spec.rules_dict and isinstance(
                spec.rules_dict[child].strategy, EmptyStrategy
            ):
                if not oracle_empty(child):
                    DETAIL["closed"] = f"empty rule for the non-empty class {child!r}"
                    return False
    return True


def clause_genuine(searcher, spec) -> bool:
    FIRED["auto_search: genuine"] += 1
    pack = searcher.strategy_pack
    pool = [searcher.classdb.get_class(label) for label in searcher.classdb]
    index = None
    for rule in flat_rules(spec):
        FIRED["rules re-derived"] += 1
        fp = fingerprint(rule)
        # cheap attempt first: strategies pointed at the classes of the rule itself
        local = [rule.comb_class, *rule.children]
        if any(fp in candidate_fingerprints(pack, c) for c in local):
            continue
        if index is None:
            index = set()
            for c in pool:
                index.update(candidate_fingerprints(pack, c))
        if fp not in index:
            DETAIL["genuine"] = (
                f"{type(rule).__name__} {rule.comb_class!r} -> {rule.children!r} shifts {rule.shifts()} "
                f"({_constructor_name(rule)}; {rule.formal_step}) is not produced by the pack"
            )
            return False
    return True


def _not_productive(spec, triples) -> List:
    value = kleene_productive(triples)
    return [
        (c, value[c])
        for c in value
        if value[c] != INF and (c in spec.rules_dict or not oracle_empty(c))
    ]


def clause_productive(searcher, spec) -> bool:
    FIRED["auto_search: productive"] += 1
    declared = [
        (rule.comb_class, tuple(rule.children), tuple(rule.shifts()))
        for rule in spec.rules_dict.values()
    ]
    bad = _not_productive(spec, declared)
    if bad:
        DETAIL["productive"] = (
            f"{len(bad)} classes never get all their terms, e.g. {bad[0][0]!r} gets {bad[0][1]}"
        )
        return False
    FIRED["auto_search: productive (own shifts)"] += 1
    own = []
    for rule in spec.rules_dict.values():
        shifts = oracle_shifts(rule)
        if shifts is None:  # a product with an empty factor: the parent is empty, nothing relies on the rule
            shifts = tuple(rule.shifts())
        own.append((rule.comb_class, tuple(rule.children), shifts))
    bad = _not_productive(spec, own)
    if bad:
        DETAIL["productive"] = (
            f"with independently derived shifts {len(bad)} classes never get all their terms, e.g. "
            f"{bad[0][0]!r} gets {bad[0][1]}"
        )
    return not bad


def clause_shifts(searcher, spec) -> bool:
    FIRED["auto_search: shifts-vs-oracle"] += 1
    for rule in flat_rules(spec):
        FIRED["shifts derived independently"] += 1
        own = oracle_shifts(rule)
        if own is not None and tuple(rule.shifts()) != own:
            DETAIL["shifts-vs-oracle"] = (
                f"{type(rule).__name__} {rule.comb_class!r} -> {rule.children!r} ({_constructor_name(rule)}) "
                f"declares shifts {tuple(rule.shifts())}, derived from the minimum sizes: {own}"
            )
            return False
    return True


@deal.ensure(lambda self, result, **kw: clause_shifts(self, result), message="shifts-vs-oracle")
@deal.ensure(lambda self, result, **kw: clause_productive(self, result), message="productive")
@deal.ensure(lambda self, result, **kw: clause_genuine(self, result), message="genuine")
@deal.ensure(lambda self, result, **kw: clause_closed(self, result), message="closed")
@deal.ensure(
    lambda self, result, **kw: clause_start_has_rule(self, result), message="start-has-rule"
)
def auto_search(self, **kwargs):
    return _real_auto_search(self, **kwargs)


@deal.pre(
    lambda self, root, rules, group_equiv=True: clause_one_rule_per_class(rules),
    message="one-rule-per-class",
)
def _contracted_init(self, root, rules, group_equiv=True):
    _real_init(self, root, rules, group_equiv)


def spec_init(self, root, rules, group_equiv=True):
    _contracted_init(self, root, list(rules), group_equiv)


@contextlib.contextmanager
def contracts_installed():
    CombinatorialSpecificationSearcher.auto_search = auto_search
    CombinatorialSpecification.__init__ = spec_init
    try:
        yield
    finally:
        CombinatorialSpecificationSearcher.auto_search = _real_auto_search
        CombinatorialSpecification.__init__ = _real_init


# --------------------------------------------------------------------------------------------------------------
# driver
# --------------------------------------------------------------------------------------------------------------

CONFIGS_PER_COMBO = {"quick": 4, "thorough": 8}
CHECKS = ("one-rule-per-class", "start-has-rule", "closed", "genuine", "productive", "shifts-vs-oracle")


def run_case(case) -> dict:
    start_repr, pack_name, db_name, option, schedule, rng_seed = case
    start = class_from_repr(start_repr)
    out = {"case": case, "spec": None, "violations": [], "fired": None, "shape": None}
    FIRED.clear()
    DETAIL.clear()
    with contracts_installed(), c01.patched(tuple(schedule), rng_seed), c01.time_limit(
        c01.CASE_TIMEOUT_S
    ):
        try:
            spec, _, _ = c01.search(start, pack_name, db_name, option, tuple(schedule))
        except deal.ContractError as e:
            check = next((c for c in CHECKS if str(e).startswith(c)), "contract")
            out["violations"].append(
                {
                    "check": check,
                    "witness": c01.witness_of(case),
                    "what": DETAIL.get(check, str(e))[:400],
                }
            )
            spec = None
        except Exception as e:  # pylint: disable=broad-except
            out["violations"].append(
                {
                    "check": "search-crash",
                    "witness": c01.witness_of(case),
                    "what": f"{type(e).__name__}: {str(e)[:300]} @ "
                    + traceback.format_exc(limit=-2).replace("\n", " | ")[-300:],
                }
            )
            spec = None
        if spec is not None:
            out["spec"] = c01.spec_signature(spec)
            kinds = Counter(type(r).__name__ for r in flat_rules(spec))
            out["shape"] = dict(kinds)
    out["fired"] = dict(FIRED)
    TermsCache.ALL_CACHES.clear()
    return out


def run(tier: str, seed: int) -> dict:
    cases = c01.enumerate_cases(tier, seed, CONFIGS_PER_COMBO[tier])
    fired: Counter = Counter()
    kinds: Counter = Counter()
    violations: List[dict] = []
    specs = set()
    returned = 0
    samples = []
    for out in c01.map_cases(run_case, cases):
        fired.update(out["fired"] or {})
        violations.extend(out["violations"])
        if out["spec"] is not None:
            returned += 1
            kinds.update(out["shape"])
            if out["spec"][0] >= 3:
                specs.add((out["case"][0], out["spec"]))
            if len(samples) < 5 and returned % 1499 == 1:
                samples.append(
                    {
                        "case": c01.witness_of(out["case"]),
                        "rules_in_spec": out["spec"][0],
                        "rule_kinds": out["shape"],
                    }
                )
    n_starts = len(START_CLASSES(tier, seed))
    return {
        "bound": (
            f"the C01 family: {n_starts} start classes x {len(c01.ALL_PACKS)} packs (the universe's and c01's local "
            f"{sorted(c01.LOCAL_PACKS)}) x 3 rule databases, each with "
            f"{CONFIGS_PER_COMBO[tier]} of {len(c01.OPTIONS) * len(c01.SCHEDULES) * 3} (option, clock schedule, "
            f"rng seed) configurations drawn by seed {seed}; every specification returned by any searcher (nested "
            "searchers of verification strategies included); Kleene iteration capped at "
            "10*(sum|shifts| + #classes + 1) terms"
        ),
        "evaluations": len(cases),
        "distinct_nontrivial": len(specs),
        "rule": (
            "case = one search of the C01 family; distinct = distinct (start class, returned rule set); "
            f"non-trivial = >= 3 rules.  {returned} specifications returned; kinds of rules re-derived: "
            f"{dict(kinds)}"
        ),
        "exhaustive": False,
        "contracts_evaluated": dict(fired),
        "samples": samples,
        "violations": c01.dedupe(violations),
    }


def replay(violation: dict) -> bool:
    silence()
    out = run_case(c01.case_of(violation["witness"]))
    return any(v["check"] == violation["check"] for v in out["violations"])
