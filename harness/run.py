"""Entry point of the bounded stand-ins (runs under /verif/.venv312, /repo on sys.path)."""
import argparse
import importlib
import json
import logging
import os
import sys
import time


def main():
    ap = argparse.ArgumentParser()
    ap.add_argument("pid")
    ap.add_argument("--tier", default="quick")
    ap.add_argument("--seed", type=int, default=0)
    ap.add_argument("--out", default=None)
    ap.add_argument("--replay", default=None)
    a = ap.parse_args()
    try:
        import logzero
        logzero.loglevel(logging.CRITICAL)
    except Exception:
        pass
    mod = importlib.import_module(f"harness.{a.pid.lower()}")
    if a.replay:
        d = json.load(open(a.replay))
        ok = mod.replay(d)
        print("reproduced" if ok else "not reproduced")
        return 1 if ok else 0
    t0 = time.time()
    res = mod.run(a.tier, a.seed)
    res["wall_s"] = round(time.time() - t0, 2)
    if a.out:
        json.dump(res, open(a.out, "w"), default=str)
    else:
        print(json.dumps(res, indent=1, default=str)[:4000])
    return 1 if res.get("violations") else 0


if __name__ == "__main__":
    sys.exit(main())
