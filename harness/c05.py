"""C05 bounded stand-in: pruning-based detection and proof-tree search are exact.

Real code under contract (never re-implemented): ``comb_spec_searcher.tree_searcher`` (``prune``, ``iterative_prune``,
``random_proof_tree``, ``smallish_random_proof_tree``, ``proof_tree_generator_dfs``, ``proof_tree_generator_bfs``,
``iterative_proof_tree_finder``, ``Node``) and ``comb_spec_searcher.rule_db.base.RuleDB`` (``add``,
``has_specification``/``pruned_dict``, ``_get_specification_node``, ``_get_smallest_node``, ``_get_iterative_node``).

Part A (tree searcher on integer rule dictionaries).  Contracts (deal) on sidecar wrappers:
  prune(d)                       == greatest fixed point (independent computation), in place
  iterative_prune(d, root)       == bottom-up derivable rules with ``root`` assumed; input not mutated
  random_proof_tree(d, root)     valid tree (every outcome of choice/shuffle ENUMERATED by a scripted RNG, capped)
  smallish_random_proof_tree     valid tree, size = min of the sizes of the random trees drawn (fake clock)
  proof_tree_generator_dfs/bfs   every tree valid; the set of specifications yielded == all specifications (brute force
                                 over one-rule-per-label choice functions); dfs(maximum=m): sizes <= m, non-empty iff
                                 a specification of size <= m exists
  iterative_proof_tree_finder    valid iterative tree (recursion only to the root label) iff root is derivable
A tree is VALID for (d, root) when: its root is ``root``; every node with children carries a recorded rule of its label
(children compared as sorted tuples); all expanded occurrences of one label carry the SAME rule (one rule per label);
a label that only occurs as a leaf has the rule ``()`` recorded (no label without a rule).

Part B (RuleDB with stub rules/searcher, recursive and iterative packs, start label possibly different from its
union-find representative through two-way single-child rules).  Contract on ``has_specification`` after EVERY ``add``
(so the pruned-dict cache invalidation is exercised): equals the oracle on the history of added rules:
  equivalence classes = strongly connected components (Floyd-Warshall) of single-child rules (two-way: both directions)
  rules up to equivalence = {(cls(s), sorted cls(e))}, single-child rules inside one class dropped (they are the
  equivalences themselves)
  recursive: cls(start) survives the greatest fixed point; iterative: cls(start) derivable bottom-up with cls(start)
  itself assumed.
When a specification exists the nodes returned by ``_get_specification_node``, ``_get_smallest_node`` (size == brute-force
minimum) and ``_get_iterative_node`` are checked for validity against the oracle's rules up to equivalence.
"""
import contextlib
import copy
import itertools
import math
import multiprocessing
import random
import time as _time
from collections import Counter, defaultdict

import logging

import deal
import logzero

import comb_spec_searcher.rule_db.base as base
import comb_spec_searcher.tree_searcher as ts
from comb_spec_searcher.exception import InvalidOperationError

NPROC = 16
COUNTS = Counter()
_LAST = {}


def _note(check, what):
    _LAST.setdefault("check", check)
    _LAST.setdefault("what", what)
    return False


# --------------------------------------------------------------------------------------------------------------
# Oracles
# --------------------------------------------------------------------------------------------------------------


def o_gfp(d):
    alive = set(d)
    changed = True
    while changed:
        changed = False
        for k in sorted(alive):
            if not any(all(c in alive for c in r) for r in d[k]):
                alive.discard(k)
                changed = True
    return {k: {r for r in d[k] if all(c in alive for c in r)} for k in alive}


def o_iterative(d, root):
    ver = set() if root is None else {root}
    derived = set()
    changed = True
    while changed:
        changed = False
        for k in d:
            if k not in derived and any(all(c in ver for c in r) for r in d[k]):
                derived.add(k)
                ver.add(k)
                changed = True
    return {k: {r for r in d[k] if all(c in ver for c in r)} for k in derived}


def o_specs(d, root):
    """All specifications of root in the PRUNED dict d: frozensets {(label, rule)} closed from root, one rule/label."""
    if root not in d:
        return set()
    labels = sorted(d)
    out = set()
    for ch in itertools.product(*[sorted(d[l]) for l in labels]):
        sigma = dict(zip(labels, ch))
        reach, stack = set(), [root]
        while stack:
            l = stack.pop()
            if l not in reach:
                reach.add(l)
                stack.extend(sigma[l])
        out.add(frozenset((l, sigma[l]) for l in reach))
    return out


def spec_size(spec):
    return 1 + sum(len(r) for _, r in spec)


def tree_facts(tree):
    internal, leaves, n = defaultdict(set), set(), 0
    stack = [tree]
    while stack:
        node = stack.pop()
        n += 1
        if n > 5000:
            raise RuntimeError("tree too large")
        if node.children:
            internal[node.label].add(tuple(sorted(c.label for c in node.children)))
            stack.extend(node.children)
        else:
            leaves.add(node.label)
    return internal, leaves, n


def tree_error(tree, d, root, iterative=False, lab=lambda x: x):
    """None if ``tree`` is a valid proof tree of root for the rule dict d (``lab`` maps tree labels to d's labels)."""
    if not isinstance(tree, ts.Node):
        return "not-a-node", f"returned {tree!r}"
    if lab(tree.label) != root:
        return "tree-root", f"tree root {tree.label}, expected {root}"
    internal0, leaves0, n = tree_facts(tree)
    internal = defaultdict(set)
    for l, rs in internal0.items():
        for r in rs:
            internal[lab(l)].add(tuple(sorted(lab(c) for c in r)))
    leaves = {lab(l) for l in leaves0}
    for l, rs in internal.items():
        if len(rs) != 1:
            return "one-rule-per-label", f"label {l} is given the rules {sorted(rs)} in tree {tree}"
        (r,) = rs
        if r not in d.get(l, ()):
            return "only-recorded-rules", f"label {l} uses {r}, recorded {sorted(d.get(l, ()))} in tree {tree}"
    for l in leaves:
        if l in internal:
            if iterative and l != root:
                return "iterative-recursion-to-root-only", f"leaf {l} refers back to an expanded node, tree {tree}"
            continue
        if () not in d.get(l, ()):
            return "no-label-without-rule", f"leaf {l} has no rule () and is expanded nowhere in tree {tree}"
    if n != len(tree):
        return "node-len", f"len(tree)={len(tree)} but it has {n} nodes"
    return None


def tree_spec(tree):
    internal, leaves, _ = tree_facts(tree)
    spec = {(l, next(iter(rs))) for l, rs in internal.items()}
    spec.update((l, ()) for l in leaves if l not in internal)
    return frozenset(spec)


# --------------------------------------------------------------------------------------------------------------
# Controlled randomness / clock
# --------------------------------------------------------------------------------------------------------------


class ScriptRNG:
    """choice/shuffle driven by a script of decisions; used to enumerate every outcome (odometer in all_runs)."""

    def __init__(self, script):
        self.script, self.log = script, []

    def _pick(self, n):
        i = len(self.log)
        k = self.script[i] if i < len(self.script) else 0
        self.log.append((k, n))
        return k

    def choice(self, seq):
        return seq[self._pick(len(seq))]

    def shuffle(self, lst):
        if len(lst) > 1:
            k = self._pick(math.factorial(len(lst)))
            lst[:] = list(itertools.permutations(lst))[k]


def all_runs(fn, cap):
    """Run fn() under every script of RNG decisions (at most cap runs). Yields (result, complete?)."""
    script, runs = [], 0
    while True:
        rng = ScriptRNG(script)
        ts.choice, ts.shuffle = rng.choice, rng.shuffle
        res = fn()
        runs += 1
        log = rng.log
        j = len(log) - 1
        while j >= 0 and log[j][0] + 1 >= log[j][1]:
            j -= 1
        done = j < 0
        yield res, done
        if done or runs >= cap:
            return
        script = [k for k, _ in log[:j]] + [log[j][0] + 1]


class FakeClock:
    def __init__(self):
        self.t = 0.0

    def time(self):
        self.t += 1.0
        return self.t


# --------------------------------------------------------------------------------------------------------------
# Contract wrappers
# --------------------------------------------------------------------------------------------------------------

_real = {}
_STATE = {"iterative": False, "sizes": None}
_TS_NAMES = ["prune", "iterative_prune", "random_proof_tree", "smallish_random_proof_tree", "proof_tree_generator_dfs",
             "proof_tree_generator_bfs", "iterative_proof_tree_finder"]
_BASE_NAMES = ["prune", "iterative_prune", "smallish_random_proof_tree", "proof_tree_generator_dfs",
               "iterative_proof_tree_finder"]


def _freeze(d):
    return {k: set(v) for k, v in d.items()}


def _post_prune(rdict):
    COUNTS["prune"] += 1
    exp = o_gfp(_STATE["pre_prune"])
    if _freeze(rdict) != exp:
        return _note("prune-vs-gfp", f"prune({_show(_STATE['pre_prune'])}) = {_show(rdict)}, greatest fixed point {_show(exp)}")
    return True


def _post_iterative_prune(rules_dict, root, result):
    COUNTS["iterative_prune"] += 1
    if _freeze(rules_dict) != _STATE["pre_iter"]:
        return _note("iterative_prune-mutates-input", f"input {_show(_STATE['pre_iter'])} became {_show(rules_dict)}")
    exp = o_iterative(_STATE["pre_iter"], root)
    got = {k: set(v) for k, v in result.items() if v}
    if got != exp:
        return _note("iterative_prune-vs-bottom-up", f"iterative_prune({_show(rules_dict)}, root={root}) = {_show(got)}, oracle {_show(exp)}")
    return True


def _post_random(rules_dict, root, result):
    COUNTS["random_proof_tree"] += 1
    if _STATE["sizes"] is not None:
        _STATE["sizes"].append(len(result))
    err = tree_error(result, rules_dict, root)
    if err:
        return _note("random_proof_tree-" + err[0], f"{_show(rules_dict)} root {root}: {err[1]}")
    return True


def _post_smallish(rules_dict, root, result):
    COUNTS["smallish_random_proof_tree"] += 1
    sizes, _STATE["sizes"] = _STATE["sizes"], None
    err = tree_error(result, rules_dict, root)
    if err:
        return _note("smallish-" + err[0], f"{_show(rules_dict)} root {root}: {err[1]}")
    if not sizes or len(result) != min(sizes):
        return _note("smallish-not-min-of-draws", f"returned size {len(result)}, sizes drawn {sizes}")
    return True


def _post_gen(name, rules_dict, root, maximum, result):
    COUNTS[name] += 1
    pruned = o_gfp(_freeze(rules_dict))
    if pruned != _freeze(rules_dict):
        return True  # precondition (pruned input) not met: nothing promised
    specs = o_specs(pruned, root)
    got = set()
    for t in result:
        err = tree_error(t, pruned, root)
        if err:
            return _note(f"{name}-{err[0]}", f"{_show(rules_dict)} root {root}: {err[1]}")
        if maximum is not None and len(t) > maximum:
            return _note(f"{name}-maximum", f"{_show(rules_dict)} root {root} maximum {maximum}: tree {t} has size {len(t)}")
        got.add(tree_spec(t))
    if not got <= specs:
        return _note(f"{name}-unknown-specification", f"{_show(rules_dict)} root {root}: yields {sorted(map(sorted, got - specs))}")
    want = specs if maximum is None else {s for s in specs if spec_size(s) <= maximum}
    if maximum is None and got != want:
        return _note(f"{name}-not-exhaustive", f"{_show(rules_dict)} root {root}: misses {sorted(map(sorted, want - got))[:2]}")
    if maximum is not None and bool(want) != bool(got):
        return _note(f"{name}-maximum-existence", f"{_show(rules_dict)} root {root} maximum {maximum}: "
                     f"{len(want)} specifications of that size exist, generator yields {len(got)}")
    return True


def _post_iter_finder(rules_dict, root, result, raised):
    COUNTS["iterative_proof_tree_finder"] += 1
    derivable = root in o_iterative(_freeze(rules_dict), root)
    if raised is not None:
        if derivable or not isinstance(raised, ValueError):
            return _note("iterative-finder-raises", f"{_show(rules_dict)} root {root}: {type(raised).__name__} although derivable={derivable}")
        return True
    if not derivable:
        return _note("iterative-finder-underivable", f"{_show(rules_dict)} root {root}: returned {result} but root not derivable")
    err = tree_error(result, rules_dict, root, iterative=True)
    if err:
        return _note("iterative-finder-" + err[0], f"{_show(rules_dict)} root {root}: {err[1]}")
    return True


def _show(d):
    return {k: sorted(v) for k, v in sorted(d.items())}


@contextlib.contextmanager
def installed():
    for n in _TS_NAMES:
        _real[n] = getattr(ts, n)
    _real["choice"], _real["shuffle"], _real["time"] = ts.choice, ts.shuffle, ts.time
    _real["has_specification"] = base.RuleDBBase.has_specification

    @deal.ensure(lambda rdict, result: _post_prune(rdict))
    def prune(rdict):
        _STATE["pre_prune"] = _freeze(rdict)
        return _real["prune"](rdict)

    @deal.ensure(lambda rules_dict, root=None, result=None: _post_iterative_prune(rules_dict, root, result))
    def iterative_prune(rules_dict, root=None):
        _STATE["pre_iter"] = _freeze(rules_dict)
        return _real["iterative_prune"](rules_dict, root)

    @deal.ensure(lambda rules_dict, root, result: _post_random(rules_dict, root, result))
    def random_proof_tree(rules_dict, root):
        return _real["random_proof_tree"](rules_dict, root)

    @deal.ensure(lambda rules_dict, root, minimization_time_limit, result: _post_smallish(rules_dict, root, result))
    def smallish_random_proof_tree(rules_dict, root, minimization_time_limit):
        _STATE["sizes"] = []  # filled by the random_proof_tree contract, read and reset by the post-condition
        return _real["smallish_random_proof_tree"](rules_dict, root, minimization_time_limit)

    @deal.ensure(lambda rules_dict, root, maximum=None, result=None: _post_gen("proof_tree_generator_dfs", rules_dict, root, maximum, result))
    def _dfs_list(rules_dict, root, maximum=None):
        return list(_real["proof_tree_generator_dfs"](rules_dict, root, maximum))

    def proof_tree_generator_dfs(rules_dict, root, maximum=None):
        return iter(_dfs_list(rules_dict, root, maximum))

    @deal.ensure(lambda rules_dict, root, result: _post_gen("proof_tree_generator_bfs", rules_dict, root, None, result))
    def _bfs_list(rules_dict, root):
        return list(_real["proof_tree_generator_bfs"](rules_dict, root))

    def proof_tree_generator_bfs(rules_dict, root):
        return iter(_bfs_list(rules_dict, root))

    @deal.ensure(lambda rules_dict, root, result: _post_iter_finder(rules_dict, root, result[0], result[1]))
    def _iter_finder(rules_dict, root):
        try:
            return _real["iterative_proof_tree_finder"](rules_dict, root), None
        except Exception as e:  # judged by the contract
            return None, e

    def iterative_proof_tree_finder(rules_dict, root):
        res, exc = _iter_finder(rules_dict, root)
        if exc is not None:
            raise exc
        return res

    @deal.ensure(lambda self, result: _post_has_spec(self, result))
    def has_specification(self):
        return _real["has_specification"](self)

    loc = locals()
    for n in _TS_NAMES:
        setattr(ts, n, loc[n])
    for n in _BASE_NAMES:
        setattr(base, n, loc[n])
    base.RuleDBBase.has_specification = has_specification
    clock = FakeClock()
    ts.time = clock
    try:
        yield
    finally:
        for n in _TS_NAMES:
            setattr(ts, n, _real[n])
        for n in _BASE_NAMES:
            setattr(base, n, _real[n])
        base.RuleDBBase.has_specification = _real["has_specification"]
        ts.choice, ts.shuffle, ts.time = _real["choice"], _real["shuffle"], _real["time"]


# --------------------------------------------------------------------------------------------------------------
# Part A driver
# --------------------------------------------------------------------------------------------------------------

RNG_CAP = 48


def check_dict(d, seed):
    """All tree-searcher checks on one integer rule dictionary. Returns (violation or None, evaluations, nontrivial)."""
    evals = 0
    labels = sorted(set(d) | {c for rs in d.values() for r in rs for c in r})
    wit = {"part": "A", "dict": {str(k): sorted(map(list, v)) for k, v in sorted(d.items())}, "seed": seed}

    def fail(extra=None):
        w = dict(wit)
        if extra:
            w.update(extra)
        return {"check": _LAST.get("check", "contract"), "what": _LAST.get("what", "contract failed"), "witness": w}

    _LAST.clear()
    side = []
    try:
        pruned = copy.deepcopy(d)
        ts.prune(pruned)
        evals += 1
        for root in [None] + labels:
            it = ts.iterative_prune(copy.deepcopy(d), root)
            evals += 1
            if root is not None:
                try:
                    ts.iterative_proof_tree_finder(it, root)
                except ValueError:
                    pass  # documented answer for an underivable root; judged by the contract
                evals += 1
        nontrivial = False
        for root in labels:
            if root not in pruned:
                # generators must stay silent on labels that did not survive
                if list(ts.proof_tree_generator_dfs(pruned, root)) or list(ts.proof_tree_generator_bfs(pruned, root)):
                    _note("generator-on-pruned-label", f"{_show(pruned)} root {root}: a tree was yielded")
                    return fail({"root": root}), evals, False
                continue
            nontrivial = True
            wit["root"] = root
            list(ts.proof_tree_generator_dfs(pruned, root))
            try:
                list(ts.proof_tree_generator_bfs(pruned, root))
            except deal.ContractError:
                # remembered, but the remaining finders are still exercised on this dictionary
                side.append(fail({"root": root}))
                _LAST.clear()
            evals += 2
            best = min(spec_size(s) for s in o_specs(pruned, root))
            for m in range(0, best + 3):
                list(ts.proof_tree_generator_dfs(pruned, root, m))
                evals += 1
            complete = False
            for _, complete in all_runs(lambda: ts.random_proof_tree(pruned, root), RNG_CAP):
                evals += 1
            rnd = random.Random(seed)
            reps = 2 if complete else 12
            for _ in range(reps):
                ts.choice, ts.shuffle = rnd.choice, rnd.shuffle
                ts.time.t = 0.0
                ts.smallish_random_proof_tree(pruned, root, rnd.choice([0, 2, 5, 9]))
                evals += 1
        return (side[0] if side else None), evals, nontrivial
    except deal.ContractError:
        return fail(), evals, True
    except Exception as e:
        _LAST.clear()
        _note("exception", f"{type(e).__name__}: {e}")
        return fail(), evals, True


# --------------------------------------------------------------------------------------------------------------
# Part B: RuleDB with stubs
# --------------------------------------------------------------------------------------------------------------


class _Strat:
    pass


class _Rule:
    def __init__(self, n, two):
        self.children = [None] * n
        self.possibly_empty = False
        self.strategy = _Strat()
        self._two = two

    def is_two_way(self):
        return self._two


class _Pack:
    def __init__(self, iterative):
        self.iterative = iterative


class _Searcher:
    classdb = None

    def __init__(self, start, iterative):
        self.start_label = start
        self.strategy_pack = _Pack(iterative)


def o_history(history, start):
    """(rules up to equivalence keyed by class id = smallest member, class id of start, class map)."""
    labels = sorted({start} | {s for s, _, _ in history} | {e for _, ends, _ in history for e in ends})
    reach = {a: {b: a == b for b in labels} for a in labels}
    for s, ends, two in history:
        if len(ends) == 1:
            reach[s][ends[0]] = True
            if two:
                reach[ends[0]][s] = True
    for k in labels:
        for a in labels:
            if reach[a][k]:
                for b in labels:
                    if reach[k][b]:
                        reach[a][b] = True
    cls = {a: min(b for b in labels if reach[a][b] and reach[b][a]) for a in labels}
    d = defaultdict(set)
    for s, ends, _ in history:
        if len(ends) == 1 and cls[s] == cls[ends[0]]:
            continue
        d[cls[s]].add(tuple(sorted(cls[e] for e in ends)))
    return dict(d), cls[start], cls


def o_has_spec(history, start, iterative):
    d, root, _ = o_history(history, start)
    if iterative:
        return root in o_iterative(d, root)
    return root in o_gfp(d)


def _post_has_spec(db, result):
    hist = getattr(db, "_h_history", None)
    if hist is None:
        return True
    COUNTS["RuleDB.has_specification"] += 1
    exp = o_has_spec(hist, db.root_label, db.iterative)
    if bool(result) != exp:
        return _note("has_specification-vs-oracle",
                     f"history {hist} start {db.root_label} iterative={db.iterative}: oracle {exp}, has_specification {result}")
    return True


def run_history(history, start, iterative, seed):
    """history: list of (start, ends, two_way). Returns (violation or None, evaluations, nontrivial)."""
    wit = {"part": "B", "history": [[s, list(e), bool(t)] for s, e, t in history], "start": start,
           "iterative": iterative, "seed": seed}

    def fail(check=None, what=None):
        return {"check": check or _LAST.get("check", "contract"), "what": what or _LAST.get("what", "contract failed"),
                "witness": wit}

    _LAST.clear()
    evals = 0
    try:
        db = base.RuleDB()
        db.link_searcher(_Searcher(start, iterative))
        db._h_history = []
        has = db.has_specification()
        for s, ends, two in history:
            db._h_history.append((s, tuple(ends), two))
            db.add(s, tuple(ends), _Rule(len(ends), two))
            has = db.has_specification()
            evals += 1
        if not has:
            return None, evals, False
        d, root, cls = o_history(db._h_history, start)
        lab = lambda x: cls[x]  # noqa: E731  tree labels are union-find representatives
        rnd = random.Random(seed)
        ts.choice, ts.shuffle = rnd.choice, rnd.shuffle
        ts.time.t = 0.0
        if iterative:
            node = db._get_specification_node(2, False)
            evals += 1
            err = tree_error(node, o_iterative(d, root), root, iterative=True, lab=lab)
            if err:
                return fail("ruledb-iterative-node-" + err[0], f"history {history} start {start}: {err[1]}"), evals, True
            try:
                db._get_specification_node(2, True)
                return fail("ruledb-iterative-smallest-allowed", "smallest=True accepted in iterative mode"), evals, True
            except InvalidOperationError:
                pass
        else:
            pruned = o_gfp(d)
            node = db._get_specification_node(rnd.choice([0, 3]), False)
            evals += 1
            err = tree_error(node, pruned, root, lab=lab)
            if err:
                return fail("ruledb-smallish-node-" + err[0], f"history {history} start {start}: {err[1]}"), evals, True
            ts.time.t = 0.0
            node = db._get_specification_node(rnd.choice([0, 3]), True)
            evals += 1
            err = tree_error(node, pruned, root, lab=lab)
            if err:
                return fail("ruledb-smallest-node-" + err[0], f"history {history} start {start}: {err[1]}"), evals, True
            best = min(spec_size(s) for s in o_specs(pruned, root))
            COUNTS["RuleDB._get_smallest_node"] += 1
            if len(node) != best:
                return fail("smallest-not-minimum", f"history {history} start {start}: smallest node {node} has size "
                            f"{len(node)}, minimum over all specifications {best}"), evals, True
        return None, evals, True
    except deal.ContractError:
        return fail(), evals, True
    except Exception as e:
        return fail("exception", f"{type(e).__name__}: {e}"), evals, True


# --------------------------------------------------------------------------------------------------------------
# Families
# --------------------------------------------------------------------------------------------------------------


def int_rules(nlabels, max_arity):
    out = []
    for p in range(nlabels):
        for a in range(max_arity + 1):
            for ch in itertools.combinations_with_replacement(range(nlabels), a):
                out.append((p, ch))
    return out


def stub_rules(nlabels, max_arity):
    out = []
    for p, ch in int_rules(nlabels, max_arity):
        if len(ch) == 1:
            out.append((p, ch, False))
            out.append((p, ch, True))
        else:
            out.append((p, ch, False))
    return out


def _to_dict(rules):
    d = defaultdict(set)
    for p, ch in rules:
        d[p].add(tuple(ch))
    return dict(d)


def _rand_rule(rng, nlabels, max_arity, p_leaf):
    p = rng.randrange(nlabels)
    if rng.random() < p_leaf:
        return (p, ())
    a = rng.randint(1, max_arity)
    return (p, tuple(sorted(rng.randrange(nlabels) for _ in range(a))))


def _quiet():
    # importing comb_spec_searcher resets logzero to INFO; the finders log every call
    logzero.loglevel(logging.CRITICAL)


def _worker(task):
    kind = task[0]
    _quiet()
    COUNTS.clear()
    viols, evals, nontriv, cases, samples = [], 0, 0, 0, []
    seen = set()

    def record(v, e, nt, sample):
        nonlocal evals, nontriv, cases
        evals += e
        cases += 1
        nontriv += bool(nt)
        if v is not None and len(viols) < 6:
            viols.append(v)
        if nt and len(samples) < 1:
            samples.append(sample)

    with installed():
        if kind == "A-exh":
            _, nlabels, max_arity, k, shard, nshards, seed = task
            rules = int_rules(nlabels, max_arity)
            for n, combo in enumerate(itertools.combinations(rules, k)):
                if n % nshards != shard:
                    continue
                d = _to_dict(combo)
                v, e, nt = check_dict(d, seed)
                record(v, e, nt, {"part": "A", "dict": _show(d)})
        elif kind == "A-rnd":
            _, nlabels, max_arity, kmax, n, seed = task
            rng = random.Random(seed)
            for _ in range(n):
                k = rng.randint(2, kmax)
                rs = frozenset(_rand_rule(rng, nlabels, max_arity, 0.3) for _ in range(k))
                if rs in seen:
                    continue
                seen.add(rs)
                d = _to_dict(rs)
                v, e, nt = check_dict(d, rng.randrange(10 ** 6))
                record(v, e, nt, {"part": "A", "dict": _show(d)})
        elif kind == "B-exh":
            _, nlabels, max_arity, k, shard, nshards, seed = task
            rules = stub_rules(nlabels, max_arity)
            for n, rs in enumerate(itertools.combinations(rules, k)):
                if n % nshards != shard:
                    continue
                for order in itertools.permutations(rs):
                    for start in range(nlabels):
                        for iterative in (False, True):
                            v, e, nt = run_history(list(order), start, iterative, seed)
                            record(v, e, nt, {"part": "B", "history": [list(map(_j, r)) for r in order],
                                              "start": start, "iterative": iterative})
        elif kind == "B-rnd":
            _, nlabels, max_arity, kmax, n, seed = task
            rng = random.Random(seed)
            for _ in range(n):
                k = rng.randint(2, kmax)
                hist = []
                for _ in range(k):
                    p, ch = _rand_rule(rng, nlabels, max_arity, 0.25)
                    if len(ch) != 1 and rng.random() < 0.45:  # bias towards equivalences
                        ch = (rng.randrange(nlabels),)
                    hist.append((p, ch, len(ch) == 1 and rng.random() < 0.6))
                key = tuple(hist)
                if key in seen:
                    continue
                seen.add(key)
                start = rng.randrange(nlabels)
                for iterative in (False, True):
                    v, e, nt = run_history(hist, start, iterative, rng.randrange(10 ** 6))
                    record(v, e, nt, {"part": "B", "history": [list(map(_j, r)) for r in hist], "start": start,
                                      "iterative": iterative})
    return {"viols": viols, "evals": evals, "nontriv": nontriv, "cases": cases, "counts": dict(COUNTS),
            "samples": samples}


def _j(x):
    return list(x) if isinstance(x, tuple) else x


def _exh(kind, nlabels, max_arity, k, nshards, seed):
    """The sets of k rules are dealt round-robin to nshards tasks (balanced whatever the cost profile)."""
    return [(kind, nlabels, max_arity, k, sh, nshards, seed) for sh in range(nshards)]


def run(tier, seed):
    _quiet()
    tasks = []
    if tier == "quick":
        tasks += _exh("B-exh", 3, 2, 3, 96, seed) + _exh("A-exh", 3, 3, 3, 96, seed)
        tasks += _exh("B-exh", 3, 2, 2, 4, seed) + _exh("A-exh", 3, 3, 2, 4, seed)
        tasks += _exh("B-exh", 3, 2, 1, 1, seed) + _exh("A-exh", 3, 3, 1, 1, seed)
        for i in range(32):
            tasks.append(("A-rnd", 4, 3, 5, 500, seed * 1000 + i))
        for i in range(32):
            tasks.append(("B-rnd", 4, 3, 5, 600, seed * 1000 + 100 + i))
        bound = ("Part A (tree_searcher on integer rule dictionaries, every root): EXHAUSTIVE sets of <=3 rules over 3 labels, "
                 "arity 0..3 (repeated children allowed); SEEDED 16000 dictionaries of 2..5 rules over 4 labels, arity 0..3; "
                 "random_proof_tree under every choice/shuffle outcome (odometer, capped at 48 runs per dictionary/root), "
                 "smallish under seeded RNG + fake clock (0..9 ticks), dfs generator with maximum 0..min+2. "
                 "Part B (RuleDB with stub rules, has_specification after every add): EXHAUSTIVE sets of <=3 rules over 3 "
                 "labels, arity 0..2, single-child rules one-way and two-way, EVERY insertion order, every start label, "
                 "recursive and iterative pack; SEEDED 19200 histories of 2..5 rules over 4 labels, arity 0..3, both packs")
    else:
        tasks += _exh("A-exh", 3, 2, 5, 512, seed) + _exh("B-exh", 3, 1, 4, 256, seed)
        tasks += _exh("A-exh", 3, 2, 4, 128, seed) + _exh("A-exh", 4, 2, 3, 128, seed)
        tasks += _exh("B-exh", 3, 2, 3, 96, seed) + _exh("A-exh", 3, 3, 3, 96, seed)
        for k in (1, 2):
            tasks += _exh("B-exh", 3, 2, k, 4, seed) + _exh("A-exh", 3, 3, k, 4, seed) + _exh("A-exh", 4, 2, k, 4, seed)
        for i in range(64):
            tasks.append(("A-rnd", 4, 3, 6, 2000, seed * 1000 + i))
        for i in range(64):
            tasks.append(("B-rnd", 4, 3, 6, 5000, seed * 1000 + 100 + i))
        bound = ("Part A (tree_searcher on integer rule dictionaries, every root): EXHAUSTIVE sets of <=3 rules over 3 labels with "
                 "arity 0..3, of 4..5 rules over 3 labels and of <=3 rules over 4 labels with arity 0..2 (repeated children "
                 "allowed); SEEDED 128000 dictionaries of 2..6 rules over 4 labels, arity 0..3; random_proof_tree under every choice/shuffle outcome (odometer, capped at 48 runs per "
                 "dictionary/root), smallish under seeded RNG + fake clock, dfs generator with maximum 0..min+2. "
                 "Part B (RuleDB with stub rules, has_specification after every add): EXHAUSTIVE sets of <=3 rules over 3 "
                 "labels with arity 0..2 and of 4 rules with arity 0..1, single-child rules one-way and two-way, EVERY "
                 "insertion order, every start label, recursive and iterative pack; SEEDED 320000 histories of 2..6 rules over 4 labels, arity 0..3, both packs")
    ctx = multiprocessing.get_context("fork")
    with ctx.Pool(NPROC) as pool:
        results = pool.map(_worker, tasks, chunksize=1)
    counts = Counter()
    viols, evals, nontriv, cases, samples = [], 0, 0, 0, []
    for r in results:
        counts.update(r["counts"])
        viols.extend(r["viols"])
        evals += r["evals"]
        nontriv += r["nontriv"]
        cases += r["cases"]
        samples.extend(r["samples"])
    return {
        "bound": bound,
        "evaluations": evals,
        "distinct_nontrivial": nontriv,
        "cases": cases,
        "rule": ("evaluation = one call of a real function under contract (part A) or one add+has_specification step / finder "
                 "call (part B); cases are distinct rule dictionaries (A) or distinct (ordered history, start, pack mode) "
                 "(B), enumerated without repetition or deduplicated per worker; non-trivial = some root survives pruning "
                 "so finders run (A) / a specification is reported so nodes are extracted and checked (B)"),
        "exhaustive": False,
        "contracts_evaluated": dict(counts),
        "samples": samples[:2] + samples[len(samples) // 2: len(samples) // 2 + 2] + samples[-2:],
        "violations": _dedupe(viols),
    }


def _wsize(v):
    w = v["witness"]
    if w["part"] == "A":
        return sum(len(x) for x in w["dict"].values())
    return len(w["history"])


def _dedupe(viols):
    viols = sorted(viols, key=lambda v: (v["check"], _wsize(v), str(v["witness"])))
    out, per = [], Counter()
    for v in viols:
        if per[v["check"]] >= 2:
            continue
        per[v["check"]] += 1
        out.append(v)
    return out[:20]


def replay(violation):
    w = violation["witness"]
    _quiet()
    COUNTS.clear()
    with installed():
        if w["part"] == "A":
            d = {int(k): {tuple(r) for r in v} for k, v in w["dict"].items()}
            v, _, _ = check_dict(d, w.get("seed", 0))
        else:
            hist = [(s, tuple(e), bool(t)) for s, e, t in w["history"]]
            v, _, _ = run_history(hist, w["start"], w["iterative"], w.get("seed", 0))
    return v is not None
