"""C04 bounded stand-in: the rule universe built by the searcher is faithful to the strategies.

Real code under contract (never re-implemented): ``RuleDBBase.add`` (also used by ``RuleDBForgetStrategy``),
``RuleDBBase._clean_labels``, ``RuleDBForest.add`` and ``ClassDB.get_label / get_class``, all observed while the real
``CombinatorialSpecificationSearcher`` runs real searches over the packs of the toy universe (plain strategies,
factories yielding strategies and ready rules, rules whose parent differs from the expanded class, symmetries,
inferral chains, atom and non-atom verification).

Contracts (deal, on sidecar wrappers installed on the class attributes by ``installed()``), evaluated at EVERY call:

* ``ClassDB.get_label(key)``  -- the label equals the one of an INDEPENDENT dictionary kept by the harness
  (``Av.key()`` -> first-appearance rank); ``get_class(label)`` gives the class back.  Equal classes therefore get the
  same label, unequal ones different labels (the model is injective by construction).
* ``add(start, ends, rule)`` precondition (what the searcher hands over):
    - ``start`` is the model label of ``rule.comb_class``; ``ends`` are the model labels of ``rule.children`` in
      order; cross-checked with ``classdb.get_label/get_class``;
    - the rule is not a self-equivalence;
    - the strategy of the rule applies to its parent (``decomposition_function`` is not None / ``verified`` is true,
      no ``StrategyDoesNotApply``) and gives exactly ``rule.children``;
    - the rule is genuine: some strategy of the pack (initial, inferral, expansion, verification, symmetry, or the
      output of a factory of the pack) re-applied by the harness to ``get_class(start)`` gives the same children.
      The only other rule accepted is the explicit empty rule of the forest database, and only for a truly empty
      class that is a child of a possibly-empty rule being inserted.
* ``RuleDBBase._clean_labels`` / ``RuleDBBase.add`` postcondition: the key stored is ``(start, sorted(labels of the
  children that are not (truly empty and strategy possibly_empty)))``; it is in exactly the store the statement
  names; no other key appeared, only the documented ones disappeared; a verification rule marks ``start`` verified.
  "Truly empty" is the brute-force oracle of the universe, not ``is_empty`` of the class under the database.
* ``RuleDBForest.add`` postcondition: the keys appended to the table are, in order, the explicit empty rules of
  truly empty children of a possibly-empty rule (each label at most once), the key ``start -> ends`` with ALL
  children in order, and (``reverse`` and reversible rule) one key per child with the roles exchanged.

After each search the whole class database is compared with the independent dictionary (bijection).
"""
import contextlib
import multiprocessing
import random
import sys
import zlib
from collections import Counter

import deal

import comb_spec_searcher.class_db as class_db_mod
import comb_spec_searcher.rule_db.base as base_mod
import comb_spec_searcher.rule_db.forest as forest_mod
import comb_spec_searcher.tree_searcher as tree_searcher
from comb_spec_searcher import CombinatorialSpecificationSearcher
from comb_spec_searcher.exception import (
    ExceededMaxtimeError,
    NoMoreClassesToExpandError,
    SpecificationNotFound,
    StrategyDoesNotApply,
)
from comb_spec_searcher.strategies.rule import VerificationRule
from comb_spec_searcher.strategies.strategy import (
    AbstractStrategy,
    EmptyStrategy,
    StrategyFactory,
    VerificationStrategy,
)
from harness.universe import (
    PACKS,
    RULEDBS,
    START_CLASSES,
    Av,
    brute_objects,
    class_from_repr,
    pack_applicable,
    silence,
)

NPROC = 16
COUNTS = Counter()
_LAST = {}
_real = {}
_EXPANDED_FOR = {}  # id(rule) -> key of the class that was being expanded when the searcher produced the rule


def _note(check, what):
    if "check" not in _LAST:
        _LAST["check"] = check
        _LAST["what"] = what
    return False


# --------------------------------------------------------------------------------------------------------------
# Oracles
# --------------------------------------------------------------------------------------------------------------


def truly_empty(cls: Av) -> bool:
    """Brute force: a class of the universe is non-empty iff its prefix is one of its words."""
    return not brute_objects(cls, len(cls.prefix))


def _keys(classes):
    return tuple(c.key() for c in classes)


def _apply(strat, cls):
    """Children (as keys) of the strategy applied by the harness to the class, None if it does not apply."""
    try:
        if isinstance(strat, VerificationStrategy):
            return () if strat.verified(cls) else None
        children = strat.decomposition_function(cls)
    except StrategyDoesNotApply:
        return None
    return None if children is None else _keys(children)


def _pack_members(pack):
    members = list(pack.initial_strats) + list(pack.inferral_strats)
    for strats in pack.expansion_strats:
        members.extend(strats)
    members.extend(pack.ver_strats)
    members.extend(pack.symmetries)
    return members


def _factory_output(factory, cls):
    """(strategies, ready rules) a factory yields on a class."""
    strategies, rules = [], []
    for x in factory(cls):
        if isinstance(x, AbstractStrategy):
            strategies.append(x)
        else:
            rules.append(x)
            strategies.append(x.strategy)
    return strategies, rules


def genuine(pack, classdb, cls, children_keys):
    """Does some strategy of the pack, re-applied to `cls`, give these children?  Returns the kind of the match."""
    members = _pack_members(pack)
    factories = [m for m in members if isinstance(m, StrategyFactory)]
    for m in members:
        if isinstance(m, AbstractStrategy) and _apply(m, cls) == children_keys:
            return "pack-strategy"
    for f in factories:
        strategies, rules = _factory_output(f, cls)
        for r in rules:
            if r.comb_class.key() == cls.key() and _apply(r.strategy, cls) == children_keys:
                return "factory-rule"
        for s in strategies:
            if _apply(s, cls) == children_keys:
                return "factory-strategy"
    # strategies the factories of the pack produce anywhere in the universe labelled so far
    model = classdb.__dict__.get("_h_keys", [])
    for label in range(len(model)):
        other = _real["get_class"](classdb, label)
        for f in factories:
            strategies, rules = _factory_output(f, other)
            for r in rules:
                if r.comb_class.key() == cls.key() and _apply(r.strategy, cls) == children_keys:
                    return "factory-rule-foreign-parent"
            for s in strategies:
                if _apply(s, cls) == children_keys:
                    return "factory-strategy-elsewhere"
    return None


# --------------------------------------------------------------------------------------------------------------
# Independent label dictionary + contracts on ClassDB
# --------------------------------------------------------------------------------------------------------------


def _model(classdb):
    d = classdb.__dict__
    if "_h_model" not in d:
        d["_h_model"] = {}
        d["_h_keys"] = []
    return d["_h_model"]


def _model_see(classdb, key):
    if isinstance(key, Av):
        model = _model(classdb)
        k = key.key()
        if k not in model:
            model[k] = len(model)
            classdb.__dict__["_h_keys"].append(k)


def _post_get_label(self, key, result):
    COUNTS["ClassDB.get_label"] += 1
    model = _model(self)
    if isinstance(key, Av):
        exp = model.get(key.key())
        if result != exp:
            return _note("label-vs-independent-dictionary", f"get_label({key!r}) = {result}, first-appearance rank {exp}")
        back = _real["get_class"](self, result)
        if back.key() != key.key():
            return _note("label-class-roundtrip", f"get_class(get_label({key!r})) = {back!r}")
    else:
        if result != key or not 0 <= key < len(model):
            return _note("label-of-label", f"get_label({key}) = {result} with {len(model)} classes")
    return True


def _post_get_class(self, key, result):
    COUNTS["ClassDB.get_class"] += 1
    model = _model(self)
    keys = self.__dict__["_h_keys"]
    if isinstance(key, Av):
        if result.key() != key.key():
            return _note("class-of-class", f"get_class({key!r}) = {result!r}")
    else:
        if not 0 <= key < len(keys) or result.key() != keys[key]:
            return _note("class-vs-independent-dictionary", f"get_class({key}) = {result!r}, dictionary has "
                         f"{keys[key] if 0 <= key < len(keys) else None}")
        if model[result.key()] != key:
            return _note("class-vs-independent-dictionary", f"get_class({key}) = {result!r} has rank {model[result.key()]}")
    return True


def check_classdb(classdb):
    """Whole-database comparison with the independent dictionary (after a search)."""
    COUNTS["classdb-bijection"] += 1
    model = _model(classdb)
    keys = classdb.__dict__["_h_keys"]
    n = len(classdb.label_to_info)
    if n != len(keys):
        return _note("classdb-size", f"{n} labels, {len(keys)} distinct classes seen")
    seen = set()
    for label in range(n):
        cls = _real["get_class"](classdb, label)
        if cls.key() != keys[label] or model[cls.key()] != label:
            return _note("classdb-bijection", f"label {label} holds {cls!r}, dictionary {keys[label]}")
        if _real["get_label"](classdb, cls) != label:
            return _note("classdb-bijection", f"get_label(get_class({label})) = {_real['get_label'](classdb, cls)}")
        seen.add(cls.key())
    if len(seen) != n:
        return _note("classdb-injective", "two labels hold equal classes")
    return True


# --------------------------------------------------------------------------------------------------------------
# Contracts on add
# --------------------------------------------------------------------------------------------------------------


def _frames(db):
    return db.__dict__.setdefault("_h_frames", [])


def _kind(pack, rule):
    strat = rule.strategy
    if isinstance(strat, EmptyStrategy):
        return "empty-rule"
    if isinstance(rule, VerificationRule):
        return "verification-atom" if rule.comb_class.is_atom() else "verification-non-atom"
    if any(strat is s or strat == s for s in pack.symmetries):
        return "symmetry"
    if any(strat is s or strat == s for s in pack.inferral_strats):
        return "inferral"
    if any(isinstance(m, AbstractStrategy) and (strat is m or strat == m) for m in _pack_members(pack)):
        return "plain-strategy"
    return "from-factory"


def _pre_add(self, start, ends, rule):
    """Clauses on what the searcher hands over.  Also snapshots the database for the postcondition."""
    COUNTS["add"] += 1
    classdb = self.classdb
    model = _model(classdb)
    pack = self.strategy_pack
    frames = _frames(self)
    frame = {"outer": frames[-1] if frames else None}
    frames.append(frame)
    try:
        parent = rule.comb_class
        children = rule.children
    except StrategyDoesNotApply:
        return _note("recorded-rule-does-not-apply", f"rule recorded for label {start} raises StrategyDoesNotApply")
    pkey, ckeys = parent.key(), _keys(children)
    # labels
    if model.get(pkey) != start:
        return _note("start-is-label-of-parent", f"start {start}, independent label of {parent!r} is {model.get(pkey)}")
    if _real["get_label"](classdb, parent) != start or _real["get_class"](classdb, start).key() != pkey:
        return _note("start-is-label-of-parent", f"classdb disagrees on label {start} / {parent!r}")
    if len(ends) != len(children):
        return _note("ends-are-labels-of-children", f"{len(ends)} labels for {len(children)} children")
    for i, (label, child) in enumerate(zip(ends, children)):
        if model.get(child.key()) != label:
            return _note("ends-are-labels-of-children",
                         f"child {i} {child!r}: label {label}, independent label {model.get(child.key())}")
        if _real["get_class"](classdb, label).key() != child.key() or _real["get_label"](classdb, child) != label:
            return _note("ends-are-labels-of-children", f"classdb disagrees on label {label} / {child!r}")
    if len(children) == 1 and ckeys[0] == pkey:
        return _note("self-equivalence-recorded", f"{start} -> ({ends[0]},) with equal classes")
    # the strategy of the rule applies and gives these children
    strat = rule.strategy
    if isinstance(strat, EmptyStrategy):
        applied = () if truly_empty(parent) else None
    else:
        applied = _apply(strat, parent)
    if applied is None:
        return _note("recorded-rule-does-not-apply", f"{strat!r} does not apply to {parent!r} (label {start})")
    if applied != ckeys:
        return _note("rule-children-vs-strategy", f"{strat!r} on {parent!r}: rule has {ckeys}, strategy gives {applied}")
    # genuine: some strategy of the pack gives the same children on get_class(start)
    kind = _kind(pack, rule)
    if kind == "empty-rule":
        outer = frame["outer"]
        ok = (
            isinstance(self, forest_mod.RuleDBForest)
            and outer is not None
            and outer["possibly_empty"]
            and start in outer["ends"]
            and truly_empty(parent)
        )
        if not ok:
            return _note("empty-rule-only-for-truly-empty-child",
                         f"empty rule for label {start} {parent!r}; outer rule {outer and outer['desc']}")
        COUNTS["add:empty-rule"] += 1
    else:
        how = genuine(pack, classdb, _real["get_class"](classdb, start), ckeys)
        if how is None:
            return _note("rule-genuine", f"no strategy of the pack gives {ckeys} on {parent!r} (label {start}); "
                         f"recorded strategy {strat!r}")
        COUNTS["add:" + kind] += 1
        COUNTS["genuine:" + how] += 1
    empties = tuple(truly_empty(c) for c in children)
    if any(empties):
        COUNTS["add:with-empty-child"] += 1
    if _EXPANDED_FOR.get(id(rule), (rule, pkey))[1] != pkey:
        COUNTS["add:foreign-parent"] += 1
    frame.update(
        possibly_empty=bool(rule.possibly_empty), ends=tuple(ends), empties=empties,
        desc=f"{start} -> {tuple(ends)} by {strat!r}",
        expected=tuple(sorted(l for l, e in zip(ends, empties) if not (rule.possibly_empty and e))),
    )
    # snapshot
    if isinstance(self, base_mod.RuleDBBase):
        frame["rules"] = set(self.rule_to_strategy)
        frame["eqv"] = set(self.eqv_rule_to_strategy)
    else:
        frame["nrules"] = len(self.table_method._rules)
        frame["already_empty"] = set(self._already_empty)
    return True


def _post_add_base(self, start, ends, rule, result):
    frame = _frames(self).pop()
    COUNTS["RuleDBBase.add"] += 1
    exp = frame["expected"]
    key = (start, exp)
    rules, eqv = set(self.rule_to_strategy), set(self.eqv_rule_to_strategy)
    dropped = [l for l in ends if l not in exp]
    if dropped:
        COUNTS["child-omitted"] += 1
    two_way = len(exp) == 1 and rule.is_two_way()
    if two_way:
        if key not in eqv or key in rules or (exp[0], (start,)) in rules:
            return _note("stored-key", f"two-way {frame['desc']}: expected {key} in the equivalence store only; "
                         f"in eqv {key in eqv}, in rules {key in rules}")
        gone_ok = {key, (exp[0], (start,))}
    else:
        if key not in rules:
            stored = sorted(k for k in rules - frame["rules"])
            return _note("stored-key", f"{frame['desc']} with empties {frame['empties']} possibly_empty="
                         f"{frame['possibly_empty']}: expected key {key}, new keys {stored}")
        gone_ok = set()
    if not self.contains(start, exp) or not self.contains(start, tuple(reversed(exp))):
        return _note("stored-key", f"contains({start}, {exp}) is False after the insertion")
    new = (rules - frame["rules"]) | (eqv - frame["eqv"])
    if not new <= {key}:
        return _note("stored-key", f"{frame['desc']}: unexpected new keys {sorted(new - {key})}")
    gone = (frame["rules"] - rules) | (frame["eqv"] - eqv)
    if not gone <= gone_ok:
        return _note("stored-key", f"{frame['desc']}: keys disappeared {sorted(gone - gone_ok)}")
    if isinstance(rule, VerificationRule) and not self.is_verified(start):
        return _note("verification-marks-verified", f"label {start} not verified after {frame['desc']}")
    return True


def _post_clean(self, ends, rule, result):
    COUNTS["RuleDBBase._clean_labels"] += 1
    exp = tuple(sorted(
        l for l, c in zip(ends, rule.children) if not (rule.possibly_empty and truly_empty(c))))
    if tuple(result) != exp:
        return _note("child-omitted-only-if-truly-empty-and-possibly-empty",
                     f"_clean_labels({tuple(ends)}) = {tuple(result)}, expected {exp} "
                     f"(possibly_empty={rule.possibly_empty}, children {[repr(c) for c in rule.children]})")
    return True


def _post_add_forest(self, start, ends, rule, result):
    frame = _frames(self).pop()
    COUNTS["RuleDBForest.add"] += 1
    new = list(self.table_method._rules[frame["nrules"]:])
    exp_empty = []
    if frame["possibly_empty"]:
        for l, e in zip(ends, frame["empties"]):
            if e and l not in frame["already_empty"] and l not in exp_empty:
                exp_empty.append(l)
    got_empty = [k for k in new[: len(exp_empty)]]
    if [(k.parent, k.children) for k in got_empty] != [(l, ()) for l in exp_empty]:
        return _note("forest-empty-rules", f"{frame['desc']} empties {frame['empties']}: expected empty rules for "
                     f"{exp_empty}, table got {[tuple(k)[:2] for k in new]}")
    if set(self._already_empty) - frame["already_empty"] != set(exp_empty):
        return _note("forest-empty-rules", f"{frame['desc']}: _already_empty grew by "
                     f"{sorted(set(self._already_empty) - frame['already_empty'])}, expected {exp_empty}")
    if exp_empty:
        COUNTS["forest-explicit-empty-rule"] += len(exp_empty)
    rest = new[len(exp_empty):]
    exp_keys = [(start, tuple(ends))]
    if self.reverse and rule.is_reversible():
        for i in range(len(ends)):
            exp_keys.append((ends[i], (start,) + tuple(ends[:i]) + tuple(ends[i + 1:])))
    if [(k.parent, k.children) for k in rest] != exp_keys:
        return _note("forest-keys", f"{frame['desc']}: expected keys {exp_keys}, table got "
                     f"{[(k.parent, k.children) for k in rest]}")
    if isinstance(rule, VerificationRule) and not self.is_verified(start):
        return _note("verification-marks-verified", f"label {start} not pumping after {frame['desc']}")
    return True


@contextlib.contextmanager
def installed():
    """Install the contract wrappers on the real classes (restored afterwards)."""
    B, F, C = base_mod.RuleDBBase, forest_mod.RuleDBForest, class_db_mod.ClassDB
    _real.update(base_add=B.add, forest_add=F.add, clean=B._clean_labels, get_label=C.get_label, get_class=C.get_class)

    @deal.pre(lambda self, start, ends, rule: _pre_add(self, start, ends, rule))
    @deal.ensure(lambda self, start, ends, rule, result: _post_add_base(self, start, ends, rule, result))
    def base_add(self, start, ends, rule):
        return _real["base_add"](self, start, ends, rule)

    @deal.pre(lambda self, start, ends, rule: _pre_add(self, start, ends, rule))
    @deal.ensure(lambda self, start, ends, rule, result: _post_add_forest(self, start, ends, rule, result))
    def forest_add(self, start, ends, rule):
        return _real["forest_add"](self, start, ends, rule)

    @deal.ensure(lambda self, ends, rule, result: _post_clean(self, ends, rule, result))
    def _clean_labels(self, ends, rule):
        return _real["clean"](self, ends, rule)

    @deal.ensure(lambda self, key, result: _post_get_label(self, key, result))
    def get_label(self, key):
        _model_see(self, key)
        return _real["get_label"](self, key)

    @deal.ensure(lambda self, key, result: _post_get_class(self, key, result))
    def get_class(self, key):
        _model_see(self, key)
        return _real["get_class"](self, key)

    # observer (no contract): which class was being expanded when a rule was produced
    S = CombinatorialSpecificationSearcher
    _real["expand"] = S._expand_class_with_strategy

    def _expand_class_with_strategy(self, comb_class, strategy_generator, label=None, initial=False):
        for triple in _real["expand"](self, comb_class, strategy_generator, label, initial):
            _EXPANDED_FOR[id(triple[2])] = (triple[2], comb_class.key())  # the rule is kept alive: ids stay unique
            yield triple

    B.add, F.add, B._clean_labels, C.get_label, C.get_class = base_add, forest_add, _clean_labels, get_label, get_class
    S._expand_class_with_strategy = _expand_class_with_strategy
    try:
        yield
    finally:
        B.add, F.add, B._clean_labels = _real["base_add"], _real["forest_add"], _real["clean"]
        C.get_label, C.get_class = _real["get_label"], _real["get_class"]
        S._expand_class_with_strategy = _real["expand"]


# --------------------------------------------------------------------------------------------------------------
# Driver
# --------------------------------------------------------------------------------------------------------------

EXTRA_LEVELS = 2
SEED = [0]
CSS_MODULE = sys.modules[CombinatorialSpecificationSearcher.__module__]


class FakeClock:
    """Deterministic stand-in for the `time` module inside comb_spec_searcher.comb_spec_searcher (harness process only).
    eager : time advances by one tick per reading made in `_expand_classes_for` and stands still elsewhere, so every
            time slice is one work packet and the search stops at the first packet after which a specification exists;
    coarse: time advances by one tick per reading, so the first slice is one packet and the following ones 200
            packets (practically: the queue is drained before the specification is looked for again).
    A tick is a millisecond (the time the library then grants to the minimisation of the proof tree stays tiny)."""

    TICK = 0.001

    def __init__(self, mode):
        self.mode = mode
        self.ticks = 0

    def time(self):
        if self.mode == "coarse" or sys._getframe(1).f_code.co_name == "_expand_classes_for":
            self.ticks += 1
        return self.ticks * self.TICK


@contextlib.contextmanager
def clock(mode, seed=0):
    """Deterministic clock for the searcher and a seeded generator for the random proof-tree choice of
    comb_spec_searcher.tree_searcher (both rebound in the harness process only, restored afterwards)."""
    real = CSS_MODULE.time
    rng = random.Random(seed)
    real_choice, real_shuffle, real_ts_time = tree_searcher.choice, tree_searcher.shuffle, tree_searcher.time
    CSS_MODULE.time = FakeClock(mode)
    tree_searcher.choice, tree_searcher.shuffle, tree_searcher.time = rng.choice, rng.shuffle, FakeClock("coarse")
    try:
        yield
    finally:
        CSS_MODULE.time = real
        tree_searcher.choice, tree_searcher.shuffle, tree_searcher.time = real_choice, real_shuffle, real_ts_time


def run_case(case):
    """One real search under contract.  case = (pack name, repr(start), ruledb name, expand_verified).
    Returns (violation or None, info)."""
    pack_name, start_repr, db_name, expand_verified, schedule = case
    start = class_from_repr(start_repr)
    witness = {"pack": pack_name, "start": start_repr, "ruledb": db_name, "expand_verified": expand_verified,
               "schedule": schedule}
    _LAST.clear()
    _EXPANDED_FOR.clear()
    before = Counter(COUNTS)
    css = None

    def viol(check, what):
        return {"check": check, "witness": witness, "what": what[:600]}

    try:
        css = CombinatorialSpecificationSearcher(
            start, PACKS[pack_name](), ruledb=RULEDBS[db_name](), expand_verified=expand_verified)
        silence()
        try:
            with clock(schedule, zlib.crc32(repr(case).encode()) ^ SEED[0]):
                css.auto_search(max_expansion_time=10**4)
        except (SpecificationNotFound, ExceededMaxtimeError):
            pass
        try:
            for _ in range(EXTRA_LEVELS):
                css.do_level()
        except NoMoreClassesToExpandError:
            pass
        if not check_classdb(css.classdb):
            return viol(_LAST["check"], _LAST["what"]), {}
    except deal.ContractError:
        return viol(_LAST.get("check", "contract"), _LAST.get("what", "contract failed")), {}
    except Exception as e:  # pylint: disable=broad-except
        return viol("exception", f"{type(e).__name__}: {e}"), {}
    delta = Counter(COUNTS)
    delta.subtract(before)
    interesting = sum(delta[k] for k in (
        "add:from-factory", "add:symmetry", "add:inferral", "add:verification-non-atom", "add:with-empty-child",
        "add:empty-rule", "add:foreign-parent"))
    with_children = delta["add"] - delta["add:verification-atom"] - delta["add:verification-non-atom"]
    info = {"adds": delta["add"], "nontrivial": bool(with_children > 0 and interesting > 0),
            "classes": len(css.classdb.label_to_info)}
    return None, info


def _worker(args):
    cases, SEED[0] = args
    silence()
    COUNTS.clear()
    viols, infos = [], []
    with installed():
        for case in cases:
            v, info = run_case(case)
            if v is not None:
                viols.append(v)
            else:
                infos.append((case, info))
    return viols, infos, dict(COUNTS)


# a few more start classes exercising inferral chains (redundant patterns AND vanishing / duplicate statistics) and
# classes that are their own mirror image (the symmetry rule is a self-equivalence and must be filtered)
EXTRA_STARTS = [
    ("", ["b", "bb"], "ab", ("nb", "na")),
    ("", ["aa", "aab"], "ab", ("nb", "na")),
    ("", ["a", "aa", "aaa"], "ab", ("na", "na2")),
    ("", ["ab", "ba"], "ab", ()),
    ("a", ["b", "bab"], "ab", ("nb",)),
]


def _cases(tier, seed):
    starts = START_CLASSES(tier, seed) + [Av(p, pt, al, False, st) for p, pt, al, st in EXTRA_STARTS]
    cases = []
    for pack_name in PACKS:
        pack = PACKS[pack_name]()
        non_atom_ver = len(pack.ver_strats) > 1
        for start in starts:
            if not pack_applicable(pack_name, start):
                continue
            for db_name in RULEDBS:
                cases.append((pack_name, repr(start), db_name, False))
                if non_atom_ver:
                    cases.append((pack_name, repr(start), db_name, True))
    # the clock of the searcher is replaced by a deterministic one; the two schedules alternate over the cases
    cases = [c + (("eager", "coarse")[i % 2],) for i, c in enumerate(cases)]
    return cases, len(starts)


def run(tier, seed):
    cases, nstarts = _cases(tier, seed)
    nchunks = NPROC * 8
    chunks = [cases[i::nchunks] for i in range(nchunks)]
    ctx = multiprocessing.get_context("fork")
    with ctx.Pool(NPROC) as pool:
        results = pool.map(_worker, [(c, seed) for c in chunks], chunksize=1)
    counts = Counter()
    viols, infos = [], []
    for v, i, c in results:
        viols.extend(v)
        infos.extend(i)
        counts.update(c)
    infos.sort(key=lambda x: x[0])
    nontrivial = sum(1 for _, i in infos if i["nontrivial"])
    samples = [
        {"pack": c[0], "start": c[1], "ruledb": c[2], "expand_verified": c[3], "schedule": c[4], "insertions": i["adds"],
         "classes_labelled": i["classes"]}
        for c, i in infos[:: max(1, len(infos) // 6)][:6]
    ]
    return {
        "bound": (f"{len(cases)} real searches = {len(PACKS)} packs of the toy universe x {nstarts} start classes "
                  f"(alphabets a, b, ab; <= 2 patterns of length <= 3; prefix length <= 2; 0-2 statistics; "
                  f"{'fixed list' if tier == 'quick' else 'fixed list + seeded sample of the full family'}) x 3 rule "
                  "databases (RuleDB, RuleDBForgetStrategy, RuleDBForest), plus expand_verified=True for packs with a "
                  "non-atom verification strategy; each search = auto_search to its end under a deterministic clock "
                  "(alternating: specification looked for after every work packet / only once the queue is drained) "
                  f"followed by {EXTRA_LEVELS} more levels; contracts at EVERY ClassDB.get_label/get_class and EVERY add"),
        "evaluations": len(cases),
        "distinct_nontrivial": nontrivial,
        "rule": ("one evaluation = one search (pack, start class, rule database, expand_verified), enumerated without "
                 "repetition; non-trivial when at least one rule with children was inserted AND at least one inserted "
                 "rule came from a factory, a symmetry, an inferral strategy, a non-atom verification strategy, or had "
                 "a truly empty child or a parent other than the class being expanded"),
        "exhaustive": False,
        "contracts_evaluated": dict(counts),
        "samples": samples,
        "violations": _dedupe(viols),
    }


def _dedupe(viols):
    viols = sorted(viols, key=lambda v: (v["check"], len(v["witness"]["start"]), str(v["witness"])))
    out, per = [], Counter()
    for v in viols:
        if per[v["check"]] >= 3:
            continue
        per[v["check"]] += 1
        out.append(v)
    return out[:20]


def replay(violation):
    w = violation["witness"]
    silence()
    COUNTS.clear()
    with installed():
        v, _ = run_case((w["pack"], w["start"], w["ruledb"], w.get("expand_verified", False),
                         w.get("schedule", "coarse")))
    return v is not None
