"""C19 bounded stand-in: expanding verified classes preserves the enumeration and finishes the job.

Real code under contract (never re-implemented): ``CombinatorialSpecification.expand_verified`` (and through it
``expand_comb_class``, ``unexpanded_verified_classes``, the forest rule database with its rule cache).

Family: specifications found by REAL searches (every rule database that can produce them) that contain >= 1
strategy-verified class whose verification strategy supplies a pack:

  universe packs  longverif (k=2), longverif1 (k=1: the root's children, or the root itself, are verified), reverse and
                  quotient (found by the forest database only; the original contains Complement / Quotient reverse
                  rules);
  picky           the verification strategy refuses classes with a redundant pattern and an inferral strategy removes
                  it: the ROOT is the left end of an equivalence path that ends in a verified class;
  picky2          same, the redundancy is removed by a later expansion set: INTERIOR classes reach their verified
                  class through an equivalence path (2 verified classes, each behind a path);
  weakverif       the verification strategy's pack can reach the class only as a child of a product rule:
                  ``expand_comb_class`` fails without reverse rules and ``expand_verified`` must retry with
                  ``reverse=True`` (then goes on expanding the class verified on the way).
  borrowed        as weakverif, but the rule that has to be reversed is produced by expanding ANOTHER class, one the
                  specification at hand already gives a rule to (class(xp), verified by a second strategy): the pack
                  supplied for class(p) only makes class(xp) known (expansion of class(x)) and factorises prefixes, so
                  in the retry ``class(xp) = {x} x class(p)`` appears only if the search keeps expanding classes that
                  already are specified (``continue_expanding_verified``), and class(p) = class(xp) / {x} completes it.

Contract (deal ``ensure`` on a sidecar wrapper installed on ``CombinatorialSpecification.expand_verified``):

  same-root             the result is rooted at the class the original is rooted at, which is the start class;
  counts                terms / counts of the result equal brute force (hence the original's) for n <= 7;
  closed                every class on a right hand side (also inside equivalence paths) owns a rule or is truly empty,
                        every rule is reachable from the root, counting terminated (productive);
  none-left             ``unexpanded_verified_classes()`` is empty AND (independently) no rule of the result, also inside
                        equivalence paths, is a VerificationRule whose strategy's ``pack`` answers;
  no-shared-rule        no rule object of the result (also inside equivalence paths) is (``id``) a rule object of the
                        original;
  original-unchanged    the original has the same ``rules_dict`` keys in the same order holding the same rule objects,
                        the same root, still equals a snapshot of its description, and still counts / generates the
                        same (n <= 8 counts, n <= 5 objects; one size more than ever computed before the expansion);
  expansion-succeeds    ``SpecificationNotFound`` only where the supplied pack really cannot specify the class: packs
                        weakverif / borrowed, and for some verified class(p) of the original no letter x gives the
                        factorisation class(xp) = {x} x class(p) (decided here, from the prefix and the patterns, and
                        confirmed by brute force) -- where such a letter exists class(p) = class(xp) / {x} with
                        class(xp) verified completes a specification, so the expansion must succeed; no other
                        exception.  When the exception is the
                        forest extractor's "Can't find a rule for ..." the witness carries ``kind``:
                        "foreign-parent-factory-rule" if every rule produced under that key came from a
                        StrategyFactory expanding a class that is neither its parent nor one of its children (the
                        extractor, like RecomputingDict, replays the pack only on the classes of the key), else "other".
"""
import contextlib
import multiprocessing
import random
import signal
import sys
import zlib
from collections import Counter

import deal

import comb_spec_searcher.rule_db.forest as forest_mod
import comb_spec_searcher.specification as spec_mod
import comb_spec_searcher.tree_searcher as tree_searcher
from comb_spec_searcher import CombinatorialSpecificationSearcher
from comb_spec_searcher import StrategyFactory, StrategyPack, VerificationStrategy
from comb_spec_searcher.exception import InvalidOperationError, SpecificationNotFound, StrategyDoesNotApply
from comb_spec_searcher.strategies.rule import EquivalencePathRule, ReverseRule, VerificationRule
from harness.universe import PACKS as UNIVERSE_PACKS
from harness.universe import (
    RULEDBS,
    START_CLASSES,
    Av,
    ExpansionStrategy,
    LongPrefixVerified,
    RemoveFrontOfPrefix,
    RemoveRedundantPatterns,
    StatAtomStrategy,
    brute_objects,
    brute_terms,
    class_from_repr,
    find_spec,
    silence,
    spec_check,
)

NPROC = 16
NMAX = 7
COUNTS = Counter()
_LAST = {}
_real = {}
_ORIGINS = {}  # (parent key, children keys) -> ["foreign-factory" | "ordinary", ...] for every rule the searchers produced
TIMEOUT = 60


def _note(check, what):
    if "check" not in _LAST:
        _LAST["check"] = check
        _LAST["what"] = what
    return False


def truly_empty(cls: Av) -> bool:
    return not brute_objects(cls, len(cls.prefix))


# deterministic clock / random source for every searcher of a case (harness process only)
CSS_MODULE = sys.modules[CombinatorialSpecificationSearcher.__module__]
SEED = [0]


class FakeClock:
    """One millisecond per reading made in `_expand_classes_for` (`eager`) or per reading (`coarse`)."""

    def __init__(self, mode):
        self.mode = mode
        self.ticks = 0

    def time(self):
        if self.mode == "coarse" or sys._getframe(1).f_code.co_name == "_expand_classes_for":
            self.ticks += 1
        return self.ticks * 0.001


@contextlib.contextmanager
def clock(seed):
    real = CSS_MODULE.time
    rng = random.Random(seed)
    saved = tree_searcher.choice, tree_searcher.shuffle, tree_searcher.time
    CSS_MODULE.time = FakeClock("eager")
    tree_searcher.choice, tree_searcher.shuffle, tree_searcher.time = rng.choice, rng.shuffle, FakeClock("coarse")
    try:
        yield
    finally:
        CSS_MODULE.time = real
        tree_searcher.choice, tree_searcher.shuffle, tree_searcher.time = saved


# --------------------------------------------------------------------------------------------------------------
# More verification strategies and packs (harness code, honest)
# --------------------------------------------------------------------------------------------------------------


def _minimal(cls):
    return not any(q != p and q in p for p in cls.patterns for q in cls.patterns)


class PickyLongPrefixVerified(LongPrefixVerified):
    """LongPrefixVerified that refuses classes with a redundant pattern."""

    def verified(self, comb_class):
        return super().verified(comb_class) and _minimal(comb_class)

    def formal_step(self):
        return f"prefix of length at least {self.k}, no redundant pattern"

    def __repr__(self):
        return f"PickyLongPrefixVerified(k={self.k})"


class PrependProductFactory(StrategyFactory):
    """For a class C with a one-letter prefix p and another letter x: the (valid) rule class(xp) = {x} x C, when the
    prefix factorisation of class(xp) is exactly that, preceded by the expansion rule of class(x).  C is never a
    parent."""

    def __call__(self, comb_class):
        if comb_class.just_prefix or comb_class.is_empty() or len(comb_class.prefix) != 1:
            return
        front = RemoveFrontOfPrefix()
        for letter in comb_class.alphabet:
            if letter == comb_class.prefix:
                continue
            longer = comb_class.derive(prefix=letter + comb_class.prefix)
            children = front.decomposition_function(longer)
            if children is not None and children[1] == comb_class:
                # the expansion of class(x) makes class(xp) known to the searcher as a CHILD (children are the
                # classes the searcher tries to verify)
                yield ExpansionStrategy()(comb_class.derive(prefix=letter))
                yield front(longer)

    def __str__(self):
        return "PrependProductFactory"

    def __repr__(self):
        return "PrependProductFactory()"

    @classmethod
    def from_dict(cls, d):
        return cls()


def _weak_pack():
    return StrategyPack(
        initial_strats=[], inferral_strats=[], expansion_strats=[[PrependProductFactory()]],
        ver_strats=[StatAtomStrategy(), LongPrefixVerified(k=2)], name="weak pack (class only met as a child)")


class WeakPackVerified(VerificationStrategy):
    """Verifies the non-empty, non-atom classes whose prefix is the single letter 'a'; enumerates them directly; the
    pack it supplies only ever meets the class as the child of a product rule."""

    def verified(self, comb_class):
        return not comb_class.just_prefix and comb_class.prefix == "a" and not comb_class.is_empty()

    def pack(self, comb_class):
        return _weak_pack()

    def get_terms(self, comb_class, n):
        if not self.verified(comb_class):
            raise StrategyDoesNotApply("The combinatorial class is not verified")
        return comb_class.get_terms(n)

    def get_objects(self, comb_class, n):
        if not self.verified(comb_class):
            raise StrategyDoesNotApply("The combinatorial class is not verified")
        return comb_class.get_objects(n)

    def formal_step(self):
        return "prefix is the letter a"

    @classmethod
    def from_dict(cls, d):
        return cls(**d)

    def __repr__(self):
        return "WeakPackVerified()"


class PrependExpansionFactory(StrategyFactory):
    """For a class C with a one-letter prefix p and another letter x such that class(xp) = {x} x C is the prefix
    factorisation of class(xp): yields the expansion rule of class(x) only (class(xp) becomes known as a child)."""

    def __call__(self, comb_class):
        if comb_class.just_prefix or comb_class.is_empty() or len(comb_class.prefix) != 1:
            return
        front = RemoveFrontOfPrefix()
        for letter in comb_class.alphabet:
            if letter == comb_class.prefix:
                continue
            longer = comb_class.derive(prefix=letter + comb_class.prefix)
            children = front.decomposition_function(longer)
            if children is not None and children[1] == comb_class:
                yield ExpansionStrategy()(comb_class.derive(prefix=letter))

    def __str__(self):
        return "PrependExpansionFactory"

    def __repr__(self):
        return "PrependExpansionFactory()"

    @classmethod
    def from_dict(cls, d):
        return cls()


def _borrow_pack():
    return StrategyPack(
        initial_strats=[], inferral_strats=[], expansion_strats=[[PrependExpansionFactory(), RemoveFrontOfPrefix()]],
        ver_strats=[StatAtomStrategy(), LongPrefixVerified(k=2)],
        name="borrow pack (the rule to reverse belongs to a class that is already specified)")


class BorrowPackVerified(WeakPackVerified):
    """As WeakPackVerified; the supplied pack produces class(xp) = {x} x class(p) only when class(xp) is expanded."""

    def pack(self, comb_class):
        return _borrow_pack()

    def formal_step(self):
        return "prefix is the letter a (borrowing pack)"

    def __repr__(self):
        return "BorrowPackVerified()"


def prepend_factorisation(comb_class):
    """A letter x such that class(xp) = {x} x class(p) (p the one-letter prefix of comb_class), or None.  Harness
    arithmetic on prefix and patterns, confirmed by brute force for n <= 6."""
    if comb_class.just_prefix or len(comb_class.prefix) != 1:
        return None
    for letter in comb_class.alphabet:
        if letter == comb_class.prefix:
            continue
        longer = comb_class.derive(prefix=letter + comb_class.prefix)
        if longer.is_empty() or RemoveFrontOfPrefix.index_safe_to_remove_up_to(longer) != 1:
            continue
        assert all(brute_objects(longer, n + 1) == [letter + w for w in brute_objects(comb_class, n)] for n in range(6))
        return letter
    return None


def weak_pack_suffices(spec):
    """Every class of the specification verified by WeakPackVerified / BorrowPackVerified has a prepend factorisation
    (then its pack, with reverse rules, specifies it: class(p) = class(xp) / {x}, class(xp) verified)."""
    return all(prepend_factorisation(r.comb_class) is not None for r in all_rules(spec)
               if isinstance(r, VerificationRule) and isinstance(r.strategy, WeakPackVerified))


def _pack(name, initial, inferral, expansion, ver):
    return StrategyPack(initial_strats=initial, inferral_strats=inferral, expansion_strats=expansion, ver_strats=ver,
                        name=name)


PACKS = {k: UNIVERSE_PACKS[k] for k in ("longverif", "longverif1", "reverse", "quotient") if k in UNIVERSE_PACKS}
PACKS["picky"] = lambda: _pack(
    "picky", [RemoveFrontOfPrefix()], [RemoveRedundantPatterns()], [[ExpansionStrategy()]],
    [StatAtomStrategy(), PickyLongPrefixVerified(k=2)])
PACKS["picky2"] = lambda: _pack(
    "picky2", [], [], [[ExpansionStrategy()], [RemoveRedundantPatterns()]],
    [StatAtomStrategy(), PickyLongPrefixVerified(k=1)])
PACKS["weakverif"] = lambda: _pack(
    "weakverif", [RemoveFrontOfPrefix()], [], [[ExpansionStrategy()]], [StatAtomStrategy(), WeakPackVerified()])

PACKS["borrowed"] = lambda: _pack(
    "borrowed", [], [], [[ExpansionStrategy()]], [StatAtomStrategy(), BorrowPackVerified(), LongPrefixVerified(k=2)])
CAN_FAIL_PACKS = ("weakverif", "borrowed")  # packs whose verification strategy supplies a pack that may be too weak

_EXTRA = {
    "longverif": [("ab", ["aba"], "ab", ()), ("aa", ["aaa"], "ab", ("na",)), ("", ["aba", "bab"], "ab", ()),
                  ("", ["aaa", "bbb"], "ab", ("na", "nb")), ("ab", ["aba", "bab"], "ab", ("nb",))],
    "longverif1": [("a", ["aba"], "ab", ()), ("b", ["bb"], "ab", ("nb",)), ("", ["aba", "bab"], "ab", ())],
    "reverse": [("a", ["aba"], "ab", ()), ("b", ["bab", "aa"], "ab", ()), ("a", ["aa"], "ab", ("na",))],
    "quotient": [("a", ["bb"], "ab", ()), ("a", ["aba"], "ab", ("nb",)), ("b", ["bab"], "ab", ())],
    "picky": [("ab", ["bb", "abb"], "ab", ()), ("ab", ["aba", "abab"], "ab", ("na",)), ("ba", ["aa", "baa"], "ab", ()),
              ("aa", ["aaa", "aaab"], "ab", ()), ("", ["aa", "aab"], "ab", ()), ("ab", ["bb"], "ab", ())],
    "picky2": [("", ["aa", "aab"], "ab", ()), ("", ["bb", "abb"], "ab", ("nb",)), ("", ["ab", "aba"], "ab", ()),
               ("", ["aba", "abab"], "ab", ()), ("", ["b", "bb"], "ab", ()), ("", ["aa", "baa"], "ab", ("na", "nb"))],
    "weakverif": [("", ["aba"], "ab", ()), ("", ["aab"], "ab", ()), ("", ["aba", "bab"], "ab", ("na",)),
                  ("", ["aa"], "ab", ()), ("", ["aa", "bb"], "ab", ("nb",)), ("", ["abb"], "ab", ()),
                  ("b", ["aba"], "ab", ()), ("", ["bb"], "ab", ()), ("", [], "ab", ())],
    "borrowed": [("", ["aba"], "ab", ()), ("", ["aab"], "ab", ()), ("", ["aba", "bab"], "ab", ("na",)),
                 ("", ["aa"], "ab", ()), ("", ["aa", "bb"], "ab", ("nb",)), ("", ["abb"], "ab", ()),
                 ("b", ["aba"], "ab", ()), ("", ["ab"], "ab", ()), ("a", ["aa"], "ab", ()), ("", ["aa", "aab"], "ab", ())],
}


# --------------------------------------------------------------------------------------------------------------
# Contract
# --------------------------------------------------------------------------------------------------------------


def all_rules(spec):
    for rule in spec.rules_dict.values():
        yield rule
        if isinstance(rule, EquivalencePathRule):
            yield from rule.rules


def expandable(rule):
    if not isinstance(rule, VerificationRule):
        return False
    try:
        rule.strategy.pack(rule.comb_class)
    except InvalidOperationError:
        return False
    return True


def describe(spec):
    """A description of a specification that does not depend on object identity."""
    return [(c.key(), type(r).__name__, r.formal_step, tuple(ch.key() for ch in r.children))
            for c, r in spec.rules_dict.items()]


def _closed(spec, start):
    lhs = {r.comb_class.key() for r in all_rules(spec)}
    if start.key() not in {c.key() for c in spec.rules_dict}:
        return f"the start class {start!r} owns no rule"
    for rule in all_rules(spec):
        for child in rule.children:
            if child.key() not in lhs and not truly_empty(child):
                return f"{child!r} is a child of the rule of {rule.comb_class!r}, owns no rule and is not empty"
    children_of = {r.comb_class.key(): [c.key() for c in r.children] for r in spec.rules_dict.values()}
    seen, todo = set(), [start.key()]
    while todo:
        k = todo.pop()
        if k in seen or k not in children_of:
            continue
        seen.add(k)
        todo.extend(children_of[k])
    extra = [k for k in children_of if k not in seen]
    if extra:
        return f"rules for classes not reachable from the root: {extra[:2]}"
    return None


def measure(spec, nmax, omax):
    terms = [sorted(spec.get_terms(n).items()) for n in range(nmax + 1)]
    counts = [spec.count_objects_of_size(n) for n in range(nmax + 1)] if not spec.root.extra_parameters else None
    try:
        objects = [sorted((k, sorted(map(str, v))) for k, v in spec.get_objects(n).items() if v)
                   for n in range(omax + 1)]
    except NotImplementedError:  # reverse rules (Complement / Quotient) do not generate objects
        objects = "not implemented"
    return terms, counts, objects


def _pre(self):
    """Snapshot of the original (taken after it has counted and generated once, so that lazily created empty rules
    are already there)."""
    info = self.__dict__.get("_h_c19")
    if info is None:  # not a specification of the harness
        return True
    info["measure"] = measure(self, NMAX, 5)
    info["keys"] = [c.key() for c in self.rules_dict]
    info["ids"] = [id(r) for r in self.rules_dict.values()]
    info["all_ids"] = {id(r) for r in all_rules(self)}
    info["alive"] = list(all_rules(self))  # keeps the objects alive: ids stay unique
    info["describe"] = describe(self)
    info["root"] = self.root.key()
    return True


def _post(self, result):
    info = self.__dict__.get("_h_c19")
    if info is None:
        return True
    COUNTS["expand_verified"] += 1
    start = info["start"]
    # same root
    if result.root.key() != info["root"] or result.root.key() != start.key():
        return _note("same-root", f"result rooted at {result.root!r}, original at {start!r}")
    # closed, counts
    msg = _closed(result, start)
    if msg:
        return _note("closed", f"expanded specification of {start!r}: {msg}")
    try:
        problems = spec_check(result, start, NMAX)
    except Exception as e:  # pylint: disable=broad-except
        return _note("counts", f"expanded specification of {start!r}: counting raised {type(e).__name__}: {str(e)[:200]}")
    if problems:
        return _note("counts", f"expanded specification of {start!r}: {problems[0]}")
    for n in range(NMAX + 1):
        if sorted(result.get_terms(n).items()) != info["measure"][0][n]:
            return _note("counts", f"terms of size {n} differ from the original's: {dict(result.get_terms(n))} vs "
                         f"{dict(info['measure'][0][n])}")
    # none left
    left = list(result.unexpanded_verified_classes())
    if left:
        return _note("none-left", f"unexpanded_verified_classes() = {left[:2]}")
    mine = [r.comb_class for r in all_rules(result) if expandable(r)]
    if mine:
        return _note("none-left", f"verification rules whose strategy supplies a pack remain: {mine[:2]}")
    # no shared rule object
    shared = [r for r in all_rules(result) if id(r) in info["all_ids"]]
    if shared:
        return _note("no-shared-rule", f"{len(shared)} rule object(s) of the result belong to the original, e.g. the "
                     f"rule of {shared[0].comb_class!r} ({type(shared[0]).__name__})")
    if result is self:
        return _note("no-shared-rule", "the result is the original specification object")
    return _original_unchanged(self, info)


def _original_unchanged(self, info):
    COUNTS["original-unchanged"] += 1
    if self.root.key() != info["root"]:
        return _note("original-unchanged", "root of the original changed")
    if [c.key() for c in self.rules_dict] != info["keys"]:
        return _note("original-unchanged", f"rules_dict keys changed: {len(info['keys'])} -> {len(self.rules_dict)}")
    if [id(r) for r in self.rules_dict.values()] != info["ids"]:
        return _note("original-unchanged", "rules_dict holds other rule objects than before")
    if describe(self) != info["describe"]:
        return _note("original-unchanged", "rules of the original changed (class / kind / formal step / children)")
    try:
        again = measure(self, NMAX, 5)
    except Exception as e:  # pylint: disable=broad-except
        return _note("original-unchanged", f"the original raises after the expansion: {type(e).__name__}: {str(e)[:200]}")
    if again != info["measure"]:
        return _note("original-unchanged", "terms / counts / objects of the original changed after the expansion")
    start = info["start"]
    try:
        for n in (NMAX + 1,):
            got = self.get_terms(n)
            truth = brute_terms(start, n)
            if any(got[k] != truth[k] for k in set(got) | set(truth)):
                return _note("original-unchanged", f"after the expansion the original gives get_terms({n}) = {dict(got)}, "
                             f"brute force {dict(truth)}")
    except Exception as e:  # pylint: disable=broad-except
        return _note("original-unchanged", f"the original raises at a new size: {type(e).__name__}: {str(e)[:200]}")
    return True


@contextlib.contextmanager
def installed():
    S = spec_mod.CombinatorialSpecification
    _real.update(expand_verified=S.expand_verified, expand_comb_class=S.expand_comb_class)

    @deal.pre(lambda self: _pre(self))
    @deal.ensure(lambda self, result: _post(self, result))
    def expand_verified(self):
        return _real["expand_verified"](self)

    def expand_comb_class(self, comb_class, pack, reverse, continue_expanding_verified, max_expansion_time=None):
        COUNTS["expand_comb_class"] += 1
        if reverse:
            COUNTS["expand_comb_class:reverse-retry"] += 1
            _LAST["retried"] = True
        return _real["expand_comb_class"](self, comb_class, pack, reverse, continue_expanding_verified,
                                          max_expansion_time)

    # observers (no contract): which class was being expanded when a rule was produced, and which rule key the forest
    # extractor fails to recompute -- used only to label a failure with witness["kind"]
    C = CombinatorialSpecificationSearcher
    X = forest_mod.ForestRuleExtractor
    _real.update(expand=C._expand_class_with_strategy, find_rule=X._find_rule)

    def _expand_class_with_strategy(self, comb_class, strategy_generator, label=None, initial=False):
        from_factory = isinstance(strategy_generator, StrategyFactory)
        for triple in _real["expand"](self, comb_class, strategy_generator, label, initial):
            rule = triple[2]
            members = {rule.comb_class.key()} | {c.key() for c in rule.children}
            foreign = from_factory and comb_class.key() not in members
            _ORIGINS.setdefault((rule.comb_class.key(), tuple(c.key() for c in rule.children)), []).append(
                "foreign-factory" if foreign else "ordinary")
            yield triple

    def _find_rule(self, rule_key):
        try:
            return _real["find_rule"](self, rule_key)
        except RuntimeError:
            key = (self.classdb.get_class(rule_key.parent).key(),
                   tuple(self.classdb.get_class(l).key() for l in rule_key.children))
            origins = _ORIGINS.get(key, [])
            _LAST["find_rule_kind"] = ("foreign-parent-factory-rule"
                                       if origins and all(o == "foreign-factory" for o in origins) else "other")
            raise

    S.expand_verified, S.expand_comb_class = expand_verified, expand_comb_class
    C._expand_class_with_strategy, X._find_rule = _expand_class_with_strategy, _find_rule
    try:
        yield
    finally:
        S.expand_verified, S.expand_comb_class = _real["expand_verified"], _real["expand_comb_class"]
        C._expand_class_with_strategy, X._find_rule = _real["expand"], _real["find_rule"]


# --------------------------------------------------------------------------------------------------------------
# Driver
# --------------------------------------------------------------------------------------------------------------


class _Timeout(Exception):
    pass


def _alarm(signum, frame):
    raise _Timeout()


def run_case(case):
    """case = (pack, repr(start), ruledb).  Returns (violation or None, info)."""
    pack_name, start_repr, db = case
    start = class_from_repr(start_repr)
    witness = {"pack": pack_name, "start": start_repr, "ruledb": db}
    _LAST.clear()
    _ORIGINS.clear()

    def viol(check, what):
        w = dict(witness)
        if _LAST.get("find_rule_kind"):
            w["kind"] = _LAST["find_rule_kind"]
        return {"check": check, "witness": w, "what": what[:600]}

    old = signal.signal(signal.SIGALRM, _alarm)
    signal.alarm(TIMEOUT)
    stack = contextlib.ExitStack()
    stack.enter_context(clock(zlib.crc32(repr(case).encode()) ^ SEED[0]))
    try:
        spec = find_spec(start, PACKS[pack_name](), RULEDBS[db]())
        silence()
        if spec is None:
            return None, {"outcome": "no-specification"}
        nver = sum(1 for r in all_rules(spec) if expandable(r))
        if nver == 0:
            return None, {"outcome": "nothing-to-expand"}
        problems = spec_check(spec, start, NMAX)
        if problems:
            return None, {"outcome": "original-invalid (not C19): " + problems[0]}
        try:
            spec.get_objects(3)
        except NotImplementedError:
            pass
        info = {
            "outcome": "expanded", "verified": nver,
            "root_verified": expandable(spec.rules_dict[spec.root]),
            "behind_path": any(isinstance(r, EquivalencePathRule) and any(
                expandable(v) and v.comb_class == r.children[0] for v in spec.rules_dict.values())
                for r in spec.rules_dict.values()),
            "root_on_path": isinstance(spec.rules_dict[spec.root], EquivalencePathRule),
            "reverse_in_original": any(isinstance(r, ReverseRule) or isinstance(getattr(r, "original_rule", None), ReverseRule)
                                       for r in all_rules(spec)),
        }
        spec.__dict__["_h_c19"] = {"start": start}
        try:
            new = spec.expand_verified()
            info["rules_after"] = new.number_of_rules()
        except deal.ContractError:
            return viol(_LAST.get("check", "contract"), _LAST.get("what", "contract failed")), info
        except SpecificationNotFound:
            COUNTS["expansion-not-possible"] += 1
            info["outcome"] = "pack-cannot-specify"
            info["retried"] = bool(_LAST.get("retried"))
            if pack_name not in CAN_FAIL_PACKS:
                return viol("expansion-succeeds", "expand_verified raised SpecificationNotFound although the supplied "
                            "pack specifies the class on its own"), info
            if weak_pack_suffices(spec):
                return viol("expansion-succeeds", "expand_verified raised SpecificationNotFound although every class "
                            "verified with a weak pack is a factor class(p) = class(xp) / {x} of a class that the "
                            "pack verifies"), info
            if not _original_unchanged(spec, spec.__dict__["_h_c19"]):
                return viol(_LAST["check"], _LAST["what"]), info
            return None, info
        info["retried"] = bool(_LAST.get("retried"))
        return None, info
    except _Timeout:
        return viol("expansion-succeeds", f"no answer within {TIMEOUT} s"), {}
    except Exception as e:  # pylint: disable=broad-except
        return viol("expansion-succeeds", f"{type(e).__name__}: {str(e)[:300]}"), {}
    finally:
        signal.alarm(0)
        signal.signal(signal.SIGALRM, old)
        stack.close()


def _worker(args):
    cases, SEED[0] = args
    silence()
    COUNTS.clear()
    viols, infos = [], []
    with installed():
        for case in cases:
            v, info = run_case(case)
            if v is not None:
                viols.append(v)
            else:
                infos.append((case, info))
    return viols, infos, dict(COUNTS)


def _cases(tier, seed):
    base = START_CLASSES(tier, seed)
    cases = []
    for pack_name in PACKS:
        starts = [Av(p, pt, al, False, st) for p, pt, al, st in _EXTRA.get(pack_name, [])]
        if pack_name in UNIVERSE_PACKS or tier != "quick":
            starts += base
        elif pack_name in CAN_FAIL_PACKS:
            starts += [c for c in base if not c.prefix][:20]
        seen = set()
        for s in starts:
            if s in seen:
                continue
            seen.add(s)
            for db in RULEDBS:
                cases.append((pack_name, repr(s), db))
    return cases


def run(tier, seed):
    cases = _cases(tier, seed)
    nchunks = NPROC * 6
    chunks = [cases[i::nchunks] for i in range(nchunks)]
    ctx = multiprocessing.get_context("fork")
    with ctx.Pool(NPROC) as pool:
        results = pool.map(_worker, [(c, seed) for c in chunks], chunksize=1)
    counts = Counter()
    viols, infos = [], []
    for v, i, c in results:
        viols.extend(v)
        infos.extend(i)
        counts.update(c)
    infos.sort(key=lambda x: x[0])
    done = [(c, i) for c, i in infos if i.get("outcome") in ("expanded", "pack-cannot-specify")]
    outcomes = Counter(i.get("outcome", "").split(":")[0] for _, i in infos)
    profile = Counter()
    for _, i in done:
        profile[f"verified={min(i['verified'], 4)}{'+' if i['verified'] >= 4 else ''}"] += 1
        for k in ("root_verified", "behind_path", "root_on_path", "reverse_in_original", "retried"):
            if i.get(k):
                profile[k] += 1
    samples = [{"pack": c[0], "start": c[1], "ruledb": c[2], **{k: v for k, v in i.items()}}
               for c, i in done[:: max(1, len(done) // 6)][:6]]
    return {
        "bound": (f"{len(cases)} real searches (packs {sorted(PACKS)} x their start classes x 3 rule databases); "
                  f"{len(done)} of them give a specification with >= 1 verified class supplying a pack and are "
                  f"expanded; counts / terms compared with brute force for n <= {NMAX}, objects n <= 5, the original "
                  f"re-measured afterwards and asked one size further (n = {NMAX + 1}); outcomes {dict(outcomes)}; "
                  f"profile of the expanded specifications {dict(profile)}"),
        "evaluations": len(done) + len(viols),
        "distinct_nontrivial": sum(1 for _, i in done if i["verified"] >= 2 or i.get("behind_path") or i.get("retried")
                                   or i.get("root_verified") or i.get("reverse_in_original")),
        "rule": ("one evaluation = expand_verified() on the specification of one search (pack, start class, rule "
                 "database), enumerated without repetition; non-trivial when the specification has >= 2 verified "
                 "classes, or its root is verified, or a verified class sits behind an equivalence path, or the "
                 "original contains reverse rules, or the expansion had to be retried with reverse rules"),
        "exhaustive": False,
        "contracts_evaluated": dict(counts),
        "samples": samples,
        "violations": _dedupe(viols),
    }


def _dedupe(viols):
    viols = sorted(viols, key=lambda v: (v["check"], v["witness"].get("kind", ""), len(v["witness"]["start"]),
                                         str(v["witness"])))
    out, per = [], Counter()
    for v in viols:
        key = (v["check"], v["witness"].get("kind"))
        if per[key] >= 3:
            continue
        per[key] += 1
        out.append(v)
    return out[:20]


def replay(violation):
    w = violation["witness"]
    silence()
    COUNTS.clear()
    with installed():
        v, _ = run_case((w["pack"], w["start"], w["ruledb"]))
    return v is not None
