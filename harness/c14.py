"""C14 bounded stand-in: the default (RuleDB) and the memory-saving (RuleDBForgetStrategy) rule databases are
observationally identical, after every single insertion.

Real code under contract (never re-implemented): ``RuleDBBase.add`` / ``has_specification`` / ``is_verified`` /
``contains`` / ``__iter__`` with both kinds of stores (``dict`` and ``RecomputingDict``), observed in lock step.

How the two databases see identical sequences: a real search runs with a ``RuleDB`` (the primary).  A sidecar
wrapper installed on ``RuleDBBase.add`` forwards EVERY ``add(start, ends, rule)`` of the primary -- same arguments,
same moment, hence same class-database state -- to a ``RuleDBForgetStrategy`` (the shadow) linked to the same
searcher.  Nothing else ever writes to the shadow.  The wrapper on ``RuleDBBase.has_specification`` asks both.

Contract (deal ``ensure`` on the ``add`` wrapper, i.e. after EVERY insertion):

  verified     ``is_verified(l)`` agrees for every label of the class database;
  keys         the stored keys (iteration over each store and over the database) agree as multisets;
  contains     ``contains(start, ends)`` is True in both for every stored key and every permutation of its children,
               and agrees with membership in the key set (hence False in both for keys not stored) for mutated keys:
               child dropped / added / replaced, other parent, no children, unknown labels;
  reproduce    for stored keys of a non-empty class, ``rule_to_strategy[key]`` / ``eqv_rule_to_strategy[key]`` of
               BOTH databases returns (no exception) a strategy that, re-applied to ``get_class(start)``, gives a
               rule with parent label ``start`` and sorted labels of truly non-empty children equal to the key
               (two-way for the equivalence store).  Checked for the key just inserted at every insertion, for all
               keys while the database is small, every 8th insertion otherwise and at the end of the search;
  has-spec     schedule "full": ``has_specification()`` agrees after every insertion, and agrees with a FRESH
               ``RuleDB`` into which the recorded sequence is replayed (no cache can be stale there).  Schedule
               "light": the same three-way comparison, but only at the moments the search itself asks.

A failure of the hand-back clause carries ``witness["kind"]``: "foreign-parent-factory-rule" when every rule recorded
under the failing key was produced by a StrategyFactory while the searcher was expanding a class that is neither
the rule's parent nor one of its children (decided by an observer on ``_expand_class_with_strategy``) AND replaying
the pack on the classes of the key does not give the rule (decided by the harness on classes) -- the KNOWN finding:
RecomputingDict replays the pack only on the classes of the key; "other" for anything else.

Packs: those of the universe, "sibling", "longverif3" and three in which one pair of classes is joined both by a one-way
and by a two-way single-child rule (inserting the two-way rule makes RuleDBBase.add withdraw the one-way entries of the
pair, in either orientation, from the rule store): "swapboth" (OneWaySwap then SwapSymmetry in one expansion set),
"swapboth-sym" (OneWaySwap as expansion strategy, SwapSymmetry as symmetry: the two-way rule arrives first for children,
last for images) and "addstat-drop" (AddStat: class -> class tracking one more statistic, one-way; DropZeroStats brings
the child back to the class by a two-way rule in the opposite orientation when that statistic vanishes).

Second universe (harness.universe, plane trees): TreeClass(degrees, roots, forbidden parent/child degree pairs) with
the packs TREE_PACKS -- root split (a union whose children can be empty because no finite tree has that root degree),
root removal  node x subtree^r  (a product with the SAME child r times: stored keys with repeated labels, the node
first or last), the two-way single-child PruneDegrees as inferral strategy, and a factory of ready rules.  The same
lock-step comparison runs on it unchanged; the mutated keys include a stored key with its repeated children collapsed
to one occurrence and with one child doubled (membership is about multisets of children).

After the search: if a specification exists, the one extracted from the SHADOW (``get_specification_rules``) must
count the start class like brute force (words: n <= 5; trees: n <= 7, and generate the same trees for n <= 5).
"""
import contextlib
import itertools
import multiprocessing
import random
import sys
import zlib
from collections import Counter

import deal

import comb_spec_searcher.rule_db.base as base_mod
import comb_spec_searcher.tree_searcher as tree_searcher
from comb_spec_searcher import CombinatorialSpecificationSearcher
from comb_spec_searcher.exception import (
    ExceededMaxtimeError,
    NoMoreClassesToExpandError,
    SpecificationNotFound,
)
from comb_spec_searcher.rule_db import RuleDB, RuleDBForgetStrategy
from comb_spec_searcher.specification import CombinatorialSpecification
from comb_spec_searcher import StrategyFactory, StrategyPack
from comb_spec_searcher.strategies.rule import VerificationRule
from harness.universe import PACKS as UNIVERSE_PACKS
from harness.universe import (
    START_CLASSES,
    AddStat,
    Av,
    DropZeroStats,
    ExpansionStrategy,
    OneWaySwap,
    SwapSymmetry,
    LongPrefixVerified,
    RemoveFrontOfPrefix,
    StatAtomStrategy,
    brute_objects,
    class_from_repr,
    pack_applicable,
    silence,
    spec_check,
)
from harness.universe import (
    TREE_PACKS,
    TREE_STARTS,
    TreeClass,
    tree_class_from_repr,
    tree_spec_check,
    tree_truly_empty,
)

NPROC = 16
COUNTS = Counter()
_LAST = {}
_real = {}
_EXPANDED_FOR = {}  # id(rule) -> (rule, key of the class being expanded, produced by a StrategyFactory?)
SEED = [0]
CSS_MODULE = sys.modules[CombinatorialSpecificationSearcher.__module__]
SMALL = 12  # all keys are re-read at every insertion while the database has at most this many keys
EVERY = 8


def _note(check, what, kind=None):
    if "check" not in _LAST:
        _LAST["check"] = check
        _LAST["what"] = what
        _LAST["kind"] = kind
    return False


def truly_empty(cls) -> bool:
    if isinstance(cls, TreeClass):
        return tree_truly_empty(cls)
    return not brute_objects(cls, len(cls.prefix))


def any_class_from_repr(text: str):
    if text.startswith("TreeClass("):
        return tree_class_from_repr(text)
    return class_from_repr(text)


def check_specification(spec, start):
    """Disagreements of a specification with brute force on the start class."""
    if isinstance(start, TreeClass):
        return tree_spec_check(spec, start, 7)
    return spec_check(spec, start, 5)


def make_pack(name):
    return (PACKS[name] if name in PACKS else TREE_PACKS[name])()


# --------------------------------------------------------------------------------------------------------------
# Two more packs (harness code, honest strategies)
# --------------------------------------------------------------------------------------------------------------


class ExpansionUnlessSingle(ExpansionStrategy):
    """The expansion, except on classes whose prefix is a single letter."""

    def decomposition_function(self, comb_class):
        if len(comb_class.prefix) == 1:
            return None
        return super().decomposition_function(comb_class)

    def formal_step(self):
        return "append a letter (prefix is not a single letter)"


class SiblingRuleFactory(StrategyFactory):
    """Expanding a class with a one-letter prefix yields the (valid) expansion rules of the classes with the OTHER
    one-letter prefixes: ready rules whose parent is neither the expanded class nor one of its children."""

    def __call__(self, comb_class):
        if comb_class.just_prefix or comb_class.is_empty() or len(comb_class.prefix) != 1:
            return
        for letter in comb_class.alphabet:
            if letter != comb_class.prefix:
                yield ExpansionStrategy()(comb_class.derive(prefix=letter))

    def __str__(self):
        return "SiblingRuleFactory"

    def __repr__(self):
        return "SiblingRuleFactory()"

    @classmethod
    def from_dict(cls, d):
        return cls()


PACKS = dict(UNIVERSE_PACKS)
PACKS["sibling"] = lambda: StrategyPack(
    initial_strats=[RemoveFrontOfPrefix()], inferral_strats=[],
    expansion_strats=[[ExpansionUnlessSingle()], [SiblingRuleFactory()]],
    ver_strats=[StatAtomStrategy()], name="sibling")
# the witness pack of the fixed defect D3: a verification strategy applying to classes the initial strategy expands
PACKS["longverif3"] = lambda: StrategyPack(
    initial_strats=[RemoveFrontOfPrefix()], inferral_strats=[], expansion_strats=[[ExpansionStrategy()]],
    ver_strats=[StatAtomStrategy(), LongPrefixVerified(k=3)], name="longverif3")


# one pair of classes joined by a one-way AND a two-way single-child rule
PACKS["swapboth"] = lambda: StrategyPack(
    initial_strats=[RemoveFrontOfPrefix()], inferral_strats=[],
    expansion_strats=[[OneWaySwap(workable=True), SwapSymmetry(workable=True), ExpansionStrategy()]],
    ver_strats=[StatAtomStrategy()], name="swapboth")
PACKS["swapboth-sym"] = lambda: StrategyPack(
    initial_strats=[RemoveFrontOfPrefix()], inferral_strats=[],
    expansion_strats=[[OneWaySwap(workable=True), ExpansionStrategy()]],
    ver_strats=[StatAtomStrategy()], symmetries=[SwapSymmetry()], name="swapboth-sym")
PACKS["addstat-drop"] = lambda: StrategyPack(
    initial_strats=[AddStat(stat="na"), RemoveFrontOfPrefix()], inferral_strats=[DropZeroStats()],
    expansion_strats=[[ExpansionStrategy()]], ver_strats=[StatAtomStrategy()], name="addstat-drop")


# --------------------------------------------------------------------------------------------------------------
# deterministic clock / random source for the searcher (harness process only)
# --------------------------------------------------------------------------------------------------------------


class FakeClock:
    """eager: one tick per reading in `_expand_classes_for` only (a specification is looked for after every work
    packet); coarse: one tick per reading (looked for after the first packet, then once the queue is drained)."""

    TICK = 0.001

    def __init__(self, mode):
        self.mode = mode
        self.ticks = 0

    def time(self):
        if self.mode == "coarse" or sys._getframe(1).f_code.co_name == "_expand_classes_for":
            self.ticks += 1
        return self.ticks * self.TICK


@contextlib.contextmanager
def clock(mode, seed=0):
    real = CSS_MODULE.time
    rng = random.Random(seed)
    saved = tree_searcher.choice, tree_searcher.shuffle, tree_searcher.time
    CSS_MODULE.time = FakeClock(mode)
    tree_searcher.choice, tree_searcher.shuffle, tree_searcher.time = rng.choice, rng.shuffle, FakeClock("coarse")
    try:
        yield
    finally:
        CSS_MODULE.time = real
        tree_searcher.choice, tree_searcher.shuffle, tree_searcher.time = saved


# --------------------------------------------------------------------------------------------------------------
# The lock-step comparison
# --------------------------------------------------------------------------------------------------------------


def _state(db):
    return db.__dict__["_h"]


def _keyset(db):
    rules = sorted(db.rule_to_strategy)
    eqv = sorted(db.eqv_rule_to_strategy)
    return rules, eqv, sorted(db)


def _mutants(key, nlabels, keyset):
    """Keys derived from a stored key; (variant, expected membership)."""
    start, ends = key
    out = []
    if len(ends) >= 2:
        for perm in itertools.islice(itertools.permutations(ends), 1, 6):
            out.append(((start, perm), True))
    cands = [
        (start, ends + (start,)),
        (start, ends + (nlabels + 3,)),
        (start, ends[:-1]),
        (start, ends[1:]),
        (start, ()),
        (start + 1, ends),
        (nlabels + 5, ends),
        (ends[0], (start,)) if len(ends) == 1 else (start, ends + ends[:1]),
        (start, tuple(e + 1 for e in ends)),
        (start, tuple(sorted(set(ends)))),  # repeated children collapsed (the key itself when there are none)
    ]
    for s, e in cands:
        out.append(((s, e), (s, tuple(sorted(e))) in keyset))
    return out


def _origin_kind(db, key):
    """"foreign-parent-factory-rule" iff EVERY rule recorded under this key was produced by a StrategyFactory while
    the searcher was expanding a class that is neither the rule's parent nor one of its (non-empty) children -- the
    known limitation of RecomputingDict, which only replays the pack on the classes of the key.  Anything else:
    "other"."""
    primary = db if "_h" in db.__dict__ else db.__dict__.get("_h_primary")
    origins = _state(primary)["origins"].get(key, []) if primary is not None else []
    if origins and all(o == "foreign-factory" for o in origins) and not _replayable(primary, key):
        return "foreign-parent-factory-rule"
    return "other"


def _replayable(primary, key):
    """Does replaying the pack on the classes of the key (what RecomputingDict promises to do) give a rule with this
    parent and this multiset of truly non-empty children?  Decided here on classes, without labelling anything."""
    classdb = primary.classdb
    parent = classdb.get_class(key[0])
    wanted = Counter(classdb.get_class(l) for l in key[1])
    for label in (key[0],) + tuple(key[1]):
        comb_class = classdb.get_class(label)
        for strat in primary.searcher.strategy_pack:
            try:
                produced = list(strat(comb_class)) if isinstance(strat, StrategyFactory) else [strat]
                for x in produced:
                    rule = x if hasattr(x, "children") else x(comb_class)
                    if rule.comb_class == parent and Counter(
                            c for c in rule.children if not truly_empty(c)) == wanted:
                        return True
            except Exception:  # pylint: disable=broad-except
                continue  # the strategy does not apply to this class
    return False


def _reproduces(db, name, key, store, classdb):
    """The strategy handed back for a stored key, re-applied to get_class(start), gives the key back."""
    start, ends = key
    parent = classdb.get_class(start)
    if truly_empty(parent):
        return True
    COUNTS[f"reproduce:{name}:{store}"] += 1
    mapping = db.rule_to_strategy if store == "rules" else db.eqv_rule_to_strategy
    try:
        strat = mapping[key]
    except Exception as e:  # pylint: disable=broad-except
        kind = _origin_kind(db, key)
        what = f"{store}[{key}] raised {type(e).__name__}: {str(e)[:200]}"
        if name == "forget" and kind == "foreign-parent-factory-rule":
            # the known finding: recorded once per search, the other clauses keep being checked
            primary = db.__dict__["_h_primary"]
            _state(primary)["known"].setdefault(key, what)
            return True
        return _note(f"{name}-hands-back-a-strategy", what, kind=kind)
    try:
        rule = strat(parent)
        children = rule.children
        got = (classdb.get_label(rule.comb_class),
               tuple(sorted(classdb.get_label(c) for c in children if not truly_empty(c))))
    except Exception as e:  # pylint: disable=broad-except
        return _note(f"{name}-strategy-reproduces-key", f"{store}[{key}] = {strat!r}; re-applying to {parent!r} raised "
                     f"{type(e).__name__}: {str(e)[:200]}")
    if got != key:
        return _note(f"{name}-strategy-reproduces-key", f"{store}[{key}] = {strat!r} gives {got} on {parent!r}")
    if store == "eqv" and not rule.is_two_way():
        return _note(f"{name}-strategy-reproduces-key", f"eqv[{key}] = {strat!r} is not two-way on {parent!r}")
    return True


def _fresh_has_spec(primary):
    """has_specification of a fresh RuleDB fed the recorded sequence (nothing cached)."""
    fresh = RuleDB()
    fresh.link_searcher(primary.searcher)
    for start, ends, rule in _state(primary)["sequence"]:
        _real["add"](fresh, start, ends, rule)
    COUNTS["fresh-replay"] += 1
    return _real["has_specification"](fresh)


def _compare_has_spec(primary, shadow, got_primary=None):
    COUNTS["has-spec-compared"] += 1
    hp = _real["has_specification"](primary) if got_primary is None else got_primary
    hs = _real["has_specification"](shadow)
    if hp != hs:
        return _note("has-specification-agrees", f"RuleDB {hp}, RuleDBForgetStrategy {hs} after "
                     f"{len(_state(primary)['sequence'])} insertions")
    hf = _fresh_has_spec(primary)
    if hp != hf:
        return _note("has-specification-vs-fresh-replay", f"RuleDB {hp} but a fresh RuleDB fed the same "
                     f"{len(_state(primary)['sequence'])} insertions answers {hf}")
    return True


def _compare(primary, final=False):
    st = _state(primary)
    shadow = st["shadow"]
    classdb = primary.classdb
    n = len(classdb.label_to_info)
    step = len(st["sequence"])
    COUNTS["lockstep-comparison"] += 1
    # verified labels
    vp = [l for l in range(n) if primary.is_verified(l)]
    vs = [l for l in range(n) if shadow.is_verified(l)]
    if vp != vs:
        return _note("verified-labels-agree", f"step {step}: RuleDB {vp}, forget {vs}")
    # has_specification
    if st["schedule"] == "full" or final:
        if not _compare_has_spec(primary, shadow):
            return False
    # keys
    kp, ks = _keyset(primary), _keyset(shadow)
    if kp != ks:
        return _note("stored-keys-agree", f"step {step}: RuleDB rules/eqv/iter {kp}, forget {ks}")
    keyset = set(kp[2])
    nkeys = len(keyset)
    # contains (all stored keys at every insertion; their permutations and mutated versions for the keys just
    # inserted, and for all keys while the database is small / periodically / at the end)
    everything = final or nkeys <= SMALL or step % EVERY == 0
    recent = {k for k, _ in st["last_keys"]}
    for key in keyset:
        variants = [(key, True)]
        if everything or key in recent:
            variants += _mutants(key, n, keyset)
        for variant, expected in variants:
            COUNTS["contains"] += 1
            cp, cs = primary.contains(*variant), shadow.contains(*variant)
            if cp != cs or cp != expected:
                return _note("contains-agrees", f"step {step}: contains{variant} RuleDB {cp}, forget {cs}, "
                             f"key stored: {expected}")
    if expected_nontrivial(kp):
        st["nontrivial"] = True
    if any(len(set(ends)) < len(ends) for _, ends in kp[0]):
        COUNTS["comparison-with-a-repeated-child-key-stored"] += 1
        st["nontrivial"] = True
    # value reads
    if everything:
        todo = [(k, "rules") for k in kp[0]] + [(k, "eqv") for k in kp[1]]
    else:
        todo = [(k, s) for k, s in st["last_keys"]]
    labels_before = len(classdb.label_to_info)
    for key, store in todo:
        for db, name in ((primary, "default"), (shadow, "forget")):
            mapping = db.rule_to_strategy if store == "rules" else db.eqv_rule_to_strategy
            if key not in mapping:
                continue
            if not _reproduces(db, name, key, store, classdb):
                return False
    if len(classdb.label_to_info) > labels_before:
        COUNTS["recompute-labelled-new-classes"] += 1
        st["nontrivial"] = True
    return True


def expected_nontrivial(kp):
    return bool(kp[1])


def _post_add(self, start, ends, rule):
    st = self.__dict__.get("_h")
    if st is None or st.get("busy"):
        return True
    st["busy"] = True
    try:
        return _compare(self)
    finally:
        st["busy"] = False


def _link(primary):
    shadow = _state(primary)["shadow"]
    if shadow._searcher is None:  # pylint: disable=protected-access
        shadow.link_searcher(primary.searcher)
    return shadow


def _post_has_spec(self, result):
    st = self.__dict__.get("_h")
    if st is None or st.get("busy") or st["schedule"] == "full":
        return True
    _link(self)
    st["busy"] = True
    try:
        COUNTS["has-spec-asked-by-search"] += 1
        return _compare_has_spec(self, st["shadow"], result)
    finally:
        st["busy"] = False


@contextlib.contextmanager
def installed():
    B = base_mod.RuleDBBase
    _real.update(add=B.add, has_specification=B.has_specification)

    @deal.ensure(lambda self, start, ends, rule, result: _post_add(self, start, ends, rule))
    def add(self, start, ends, rule):
        st = self.__dict__.get("_h")
        if st is None:
            return _real["add"](self, start, ends, rule)
        shadow = _link(self)
        before = (set(self.rule_to_strategy), set(self.eqv_rule_to_strategy))
        res = _real["add"](self, start, ends, rule)
        _real["add"](shadow, start, ends, rule)
        st["sequence"].append((start, ends, rule))
        cleaned = tuple(sorted(l for l, c in zip(ends, rule.children) if not (rule.possibly_empty and truly_empty(c))))
        _, expanded, from_factory = _EXPANDED_FOR.get(id(rule), (rule, rule.comb_class.key(), False))
        members = {rule.comb_class.key()} | {c.key() for l, c in zip(ends, rule.children) if l in cleaned}
        foreign = from_factory and expanded not in members
        st["origins"].setdefault((start, cleaned), []).append("foreign-factory" if foreign else "ordinary")
        if foreign:
            COUNTS["add-foreign-parent-factory-rule"] += 1
        after = (set(self.rule_to_strategy), set(self.eqv_rule_to_strategy))
        st["last_keys"] = [(k, "rules") for k in after[0] - before[0]] + [(k, "eqv") for k in after[1] - before[1]]
        if isinstance(rule, VerificationRule) and not rule.comb_class.is_atom():
            st["nontrivial"] = True
        COUNTS["add-forwarded"] += 1
        return res

    @deal.ensure(lambda self, result: _post_has_spec(self, result))
    def has_specification(self):
        return _real["has_specification"](self)

    # observer (no contract): the class being expanded when the searcher produced a rule
    S = CombinatorialSpecificationSearcher
    _real["expand"] = S._expand_class_with_strategy

    def _expand_class_with_strategy(self, comb_class, strategy_generator, label=None, initial=False):
        from_factory = isinstance(strategy_generator, StrategyFactory)
        for triple in _real["expand"](self, comb_class, strategy_generator, label, initial):
            _EXPANDED_FOR[id(triple[2])] = (triple[2], comb_class.key(), from_factory)
            yield triple

    B.add, B.has_specification = add, has_specification
    S._expand_class_with_strategy = _expand_class_with_strategy
    try:
        yield
    finally:
        B.add, B.has_specification = _real["add"], _real["has_specification"]
        S._expand_class_with_strategy = _real["expand"]


# --------------------------------------------------------------------------------------------------------------
# Driver
# --------------------------------------------------------------------------------------------------------------


def run_case(case):
    pack_name, start_repr, expand_verified, schedule = case
    start = any_class_from_repr(start_repr)
    witness = {"pack": pack_name, "start": start_repr, "expand_verified": expand_verified, "schedule": schedule}
    _LAST.clear()

    def viol(check, what, kind=None):
        w = dict(witness)
        if check.endswith("hands-back-a-strategy"):
            w["kind"] = kind or _LAST.get("kind") or "other"
        return [{"check": check, "witness": w, "what": what[:700]}] + known()

    def known():
        for key, what in sorted(st["known"].items())[:1]:
            w = dict(witness)
            w["kind"] = "foreign-parent-factory-rule"
            return [{"check": "forget-hands-back-a-strategy", "witness": w, "what": what[:700]}]
        return []

    primary = RuleDB()
    shadow = RuleDBForgetStrategy()
    st = {"shadow": shadow, "sequence": [], "schedule": schedule, "last_keys": [], "busy": False, "nontrivial": False,
          "origins": {}, "known": {}}
    primary.__dict__["_h"] = st
    shadow.__dict__["_h_primary"] = primary
    _EXPANDED_FOR.clear()
    try:
        css = CombinatorialSpecificationSearcher(
            start, make_pack(pack_name), ruledb=primary, expand_verified=expand_verified)
        silence()
        spec = None
        with clock("eager" if schedule == "full" else "coarse", zlib.crc32(repr(case).encode()) ^ SEED[0]):
            try:
                spec = css.auto_search(max_expansion_time=10**4)
            except (SpecificationNotFound, ExceededMaxtimeError):
                pass
            try:
                css.do_level()
            except NoMoreClassesToExpandError:
                pass
            if True:  # pylint: disable=using-constant-test
                _link(primary)
                st["busy"] = True
                ok = _compare(primary, final=True)
                st["busy"] = False
                if not ok:
                    return viol(_LAST["check"], _LAST["what"]), st
                if _real["has_specification"](primary):
                    COUNTS["shadow-specification"] += 1
                    try:
                        rules = shadow.get_specification_rules(minimization_time_limit=0)
                        shadow_spec = CombinatorialSpecification(start, rules)
                        problems = check_specification(shadow_spec, start)
                    except Exception as e:  # pylint: disable=broad-except
                        if st["known"] and isinstance(e, RuntimeError) and "Could not recompute" in str(e):
                            COUNTS["shadow-specification-blocked-by-known-finding"] += 1
                            return known(), st
                        return viol("forget-specification", f"extraction from the forget database raised "
                                    f"{type(e).__name__}: {str(e)[:300]}"), st
                    if problems:
                        return viol("forget-specification", f"specification of the forget database: {problems[0]}"), st
        if spec is not None:
            problems = check_specification(spec, start)
            if problems:
                return viol("default-specification", problems[0]), st
    except deal.ContractError:
        return viol(_LAST.get("check", "contract"), _LAST.get("what", "contract failed")), st
    except Exception as e:  # pylint: disable=broad-except
        return viol("exception", f"{type(e).__name__}: {str(e)[:300]}"), st
    return known(), st


def _worker(args):
    cases, SEED[0] = args
    silence()
    COUNTS.clear()
    viols, infos = [], []
    with installed():
        for case in cases:
            v, st = run_case(case)
            viols.extend(v)
            if not v or all(x["witness"].get("kind") == "foreign-parent-factory-rule" for x in v):
                seq = st["sequence"]
                infos.append((case, len(seq), st["nontrivial"],
                              [[s, list(e), repr(r.strategy)] for s, e, r in seq[:4]]))
    return viols, infos, dict(COUNTS)


EXTRA_STARTS = [
    ("", ["aaa"], "ab", ()),  # the witness of the fixed defect D3
    ("", ["b", "bb"], "ab", ("nb", "na")),
    ("", ["ab", "ba"], "ab", ()),
    ("", ["aba", "bab"], "ab", ()),
]


def _cases(tier, seed):
    starts = START_CLASSES(tier, seed) + [Av(p, pt, al, False, st) for p, pt, al, st in EXTRA_STARTS]
    cases = []
    for pack_name in PACKS:
        pack = PACKS[pack_name]()
        non_atom_ver = len(pack.ver_strats) > 1
        for start in starts:
            if not pack_applicable(pack_name, start):
                continue
            for schedule in ("full", "light"):
                cases.append((pack_name, repr(start), False, schedule))
                if non_atom_ver:
                    cases.append((pack_name, repr(start), True, schedule))
    trees = TREE_STARTS(tier, seed)
    for pack_name in TREE_PACKS:
        for start in trees:
            for schedule in ("full", "light"):
                cases.append((pack_name, repr(start), False, schedule))
    return cases, len(starts), len(trees)


def run(tier, seed):
    cases, nstarts, ntrees = _cases(tier, seed)
    nchunks = NPROC * 8
    chunks = [cases[i::nchunks] for i in range(nchunks)]
    ctx = multiprocessing.get_context("fork")
    with ctx.Pool(NPROC) as pool:
        results = pool.map(_worker, [(c, seed) for c in chunks], chunksize=1)
    counts = Counter()
    viols, infos = [], []
    for v, i, c in results:
        viols.extend(v)
        infos.extend(i)
        counts.update(c)
    infos.sort(key=lambda x: x[0])
    samples = [
        {"pack": c[0], "start": c[1], "expand_verified": c[2], "schedule": c[3], "insertions": n,
         "first_insertions": seq}
        for c, n, _, seq in infos[:: max(1, len(infos) // 5)][:5]
    ]
    return {
        "bound": (f"{len(cases)} real searches with a RuleDB whose every add is forwarded to a RuleDBForgetStrategy "
                  f"linked to the same searcher: {len(PACKS)} packs (the universe's, sibling, longverif3, and swapboth / "
                  f"swapboth-sym / addstat-drop, in which one pair of classes is joined by a one-way and by a two-way "
                  f"single-child rule) x {nstarts} start classes (alphabets a, b, ab; "
                  "<= 2 patterns of length <= 3, a few with 3; prefix length <= 2; 0-2 statistics) x 2 schedules "
                  "(full: has_specification compared after every insertion, specification looked for after every "
                  "work packet; light: compared when the search asks, queue drained first) x expand_verified for "
                  f"packs with non-atom verification; plus {len(TREE_PACKS)} tree packs (root split, root removal = "
                  f"node x subtree^r with the same child r <= 3 times, node first / last, PruneDegrees as inferral, a "
                  f"factory of ready rules) x {ntrees} tree classes (degrees within 0..3 with 0, root degrees = degrees "
                  "or <= 2 given ones, <= 5 forbidden parent/child degree pairs, some empty / finite / single-node) x 2 "
                  "schedules; comparison after EVERY insertion and at the end (search "
                  "continued one level after its end); contains queried on every stored key at every insertion; "
                  "<= 5 permutations and 10 mutated keys per key, and every key re-read, for the keys just inserted "
                  f"and for all keys while <= {SMALL} keys, every {EVERY}th insertion and at the end"),
        "evaluations": len(cases),
        "distinct_nontrivial": sum(1 for _, _, nt, _ in infos if nt),
        "insertions_compared": sum(n for _, n, _, _ in infos),
        "rule": ("one evaluation = one search (pack, start, expand_verified, schedule), enumerated without repetition; "
                 "non-trivial when the databases held a two-way equivalence key, or a key with a repeated child, or a "
                 "non-atom verification rule, or re-reading a key of the forget database labelled a class the search "
                 "had not labelled"),
        "exhaustive": False,
        "contracts_evaluated": dict(counts),
        "samples": samples,
        "violations": _dedupe(viols),
    }


def _dedupe(viols):
    viols = sorted(viols, key=lambda v: (v["check"], v["witness"].get("kind", ""), len(v["witness"]["start"]),
                                         str(v["witness"])))
    out, per = [], Counter()
    for v in viols:
        key = (v["check"], v["witness"].get("kind"))
        if per[key] >= 3:
            continue
        per[key] += 1
        out.append(v)
    return out[:20]


def replay(violation):
    w = violation["witness"]
    silence()
    COUNTS.clear()
    with installed():
        v, _ = run_case((w["pack"], w["start"], w.get("expand_verified", False), w.get("schedule", "full")))
    return any(x["check"] == violation["check"] and x["witness"].get("kind") == w.get("kind") for x in v)
