"""C15 bounded stand-in: the class database is a stable bijection between classes and dense labels.

Real code under contract (never re-implemented): ``comb_spec_searcher.class_db.ClassDB`` (``get_label``, ``get_class``,
``__contains__``, ``is_empty``, ``set_empty``, ``add``, ``__iter__``), with two class types:
  plain       ``example.AvoidingWithPrefix`` (no ``to_bytes``: classes are stored as they are)
  compressed  a subclass adding ``to_bytes``/``from_bytes`` (JSON of its fields): classes are stored zlib-compressed
(both through thin subclasses that only count calls of the class's own ``is_empty()``).

Oracle: a plain dictionary model (list of classes in order of first appearance + cache of emptiness).  Contract (deal) on
a sidecar wrapper of every public operation, judged against the model's prediction made BEFORE the call:
  get_label(class)  label of an equal class seen before, else the next dense label (len); stable; fresh equal objects
                    share the label
  get_label(int)    the int itself iff 0 <= int < len, else KeyError
  get_class(key)    a class == the stored one (an unknown class is labelled first); KeyError for unknown ints
  key in db         True for known classes and valid labels, False for every other class/int, never raises
  is_empty(c[, l])  the class's own ``is_empty()`` answer; the class's method is invoked iff the label has no cached
                    answer (hence at most once per label); KeyError if the class is unknown and no label is given
  set_empty(k, e)   (called with e = the class's own answer) caches; afterwards is_empty() is not re-computed
  add(c)            labels c iff unknown; TypeError for a non-class
After every history a consistency sweep reads the whole database back through the public API (labels dense
0..len-1 == iteration order, get_class(label) == stored, get_label(get_class(l)) == l, membership of every class/int of
the universe, cached emptiness == own answer, own ``is_empty()`` invoked at most once per label).
"""
import contextlib
import itertools
import json
import multiprocessing
import random
from collections import Counter

import deal

import comb_spec_searcher.class_db as class_db
from example import AvoidingWithPrefix

NPROC = 16
COUNTS = Counter()
_LAST = {}
EMPTY_CALLS = Counter()


def _note(check, what):
    _LAST.setdefault("check", check)
    _LAST.setdefault("what", what)
    return False


class PlainAWP(AvoidingWithPrefix):
    """example.AvoidingWithPrefix (stored as is); only counts calls of its own is_empty()."""

    def is_empty(self):
        EMPTY_CALLS[(self.prefix, self.patterns)] += 1
        return super().is_empty()


class CompressedAWP(AvoidingWithPrefix):
    """example.AvoidingWithPrefix with to_bytes/from_bytes (stored zlib-compressed by ClassDB)."""

    def is_empty(self):
        EMPTY_CALLS[(self.prefix, self.patterns)] += 1
        return super().is_empty()

    def to_bytes(self):
        return json.dumps([self.prefix, list(self.patterns), list(self.alphabet), self.just_prefix]).encode()

    @classmethod
    def from_bytes(cls, b):
        p, pats, alph, jp = json.loads(b.decode())
        return cls(p, pats, alph, jp)


TYPES = {"plain": PlainAWP, "compressed": CompressedAWP}
# (prefix, patterns): non-empty, EMPTY (pattern inside the prefix), non-empty
SPECS = [("", ("a",)), ("aa", ("a",)), ("b", ("aa",))]
TRUTH = [False, True, False]
INTS = (-2, -1, 0, 1, 2, 3, 4)


def mk(cls, i):
    """A FRESH object for class i (so that equality, not identity, decides the label)."""
    p, pats = SPECS[i]
    return cls(p, list(pats), "ab")


# --------------------------------------------------------------------------------------------------------------
# Dictionary model
# --------------------------------------------------------------------------------------------------------------


class Model:
    def __init__(self):
        self.order = []  # class index per label, in order of first appearance
        self.cache = {}  # label -> cached emptiness

    def label_of(self, i, add):
        if i in self.order:
            return self.order.index(i)
        if add:
            self.order.append(i)
            return len(self.order) - 1
        return None

    def expect(self, name, arg, extra=None):
        """Prediction for one operation, applied to the model.  arg: ('c', i) or ('k', int).
        Returns (kind, value[, own_is_empty_calls])."""
        n = len(self.order)
        if name == "get_label":
            if arg[0] == "c":
                return ("ret", self.label_of(arg[1], True))
            return ("ret", arg[1]) if 0 <= arg[1] < n else ("exc", KeyError)
        if name == "get_class":
            if arg[0] == "c":
                self.label_of(arg[1], True)
                return ("cls", arg[1])
            return ("cls", self.order[arg[1]]) if 0 <= arg[1] < n else ("exc", KeyError)
        if name == "contains":
            if arg[0] == "c":
                return ("ret", arg[1] in self.order)
            return ("ret", 0 <= arg[1] < n)
        if name == "is_empty":
            lab = self.label_of(arg[1], False)
            if lab is None:
                return ("exc", KeyError)
            calls = 0 if lab in self.cache else 1
            self.cache[lab] = TRUTH[arg[1]]
            return ("ret", TRUTH[arg[1]], (arg[1], calls))
        if name == "set_empty":
            if arg[0] == "c":
                lab = self.label_of(arg[1], True)
            elif 0 <= arg[1] < n:
                lab = arg[1]
            else:
                return ("exc", KeyError)
            self.cache[lab] = TRUTH[self.order[lab]]
            return ("ret", None)
        if name == "add":
            if arg[0] == "c":
                self.label_of(arg[1], True)
                return ("ret", None)
            return ("exc", TypeError)
        raise ValueError(name)


# --------------------------------------------------------------------------------------------------------------
# Contracts on sidecar wrappers
# --------------------------------------------------------------------------------------------------------------


def _judge(db, name, outcome):
    COUNTS["ClassDB." + name] += 1
    exp = db._h_exp
    tag, val = outcome
    desc = f"{name}{db._h_desc}"
    if exp[0] == "exc":
        if tag != "exc" or not isinstance(val, exp[1]):
            got = f"raised {type(val).__name__}" if tag == "exc" else f"returned {val!r}"
            return _note(f"{name}-expected-{exp[1].__name__}", f"{desc}: expected {exp[1].__name__}, {got}")
        return True
    if tag == "exc":
        return _note(f"{name}-raises", f"{desc}: raised {type(val).__name__}: {val}, expected {exp[1]!r}")
    if exp[0] == "cls":
        if not isinstance(val, db.combinatorial_class) or val != mk(db.combinatorial_class, exp[1]):
            return _note("get_class-equals-stored", f"{desc}: returned {val!r}, expected class {SPECS[exp[1]]}")
        return True
    if val is not exp[1] and not (isinstance(exp[1], int) and not isinstance(exp[1], bool) and val == exp[1]
                                 and type(val) is int):
        return _note(f"{name}-result", f"{desc}: returned {val!r}, expected {exp[1]!r}")
    if name == "is_empty":
        i, calls = exp[2]
        got = EMPTY_CALLS[SPECS[i][0], tuple(sorted(SPECS[i][1]))] - db._h_calls_before
        if got != calls:
            return _note("is_empty-computed-once", f"{desc}: the class's own is_empty() ran {got} times, expected {calls}")
    return True


_real = {}
_NAMES = {"get_label": "get_label", "get_class": "get_class", "contains": "__contains__", "is_empty": "is_empty",
          "set_empty": "set_empty", "add": "add"}


def _wrap(name):
    real = _real[name]

    @deal.ensure(lambda self, *args, result=None, **kwargs: _judge(self, name, result))
    def judged(self, *args, **kwargs):
        try:
            return ("ok", real(self, *args, **kwargs))
        except Exception as e:  # judged by the contract
            return ("exc", e)

    def method(self, *args, **kwargs):
        if getattr(self, "_h_exp", None) is None or self._h_depth:
            return real(self, *args, **kwargs)  # not a database under test, or a nested call of the real code
        self._h_depth += 1
        try:
            tag, val = judged(self, *args, **kwargs)
        finally:
            self._h_depth -= 1
        if tag == "exc":
            raise val
        return val

    return method


@contextlib.contextmanager
def installed():
    C = class_db.ClassDB
    for n, attr in _NAMES.items():
        _real[n] = getattr(C, attr)
    for n, attr in _NAMES.items():
        setattr(C, attr, _wrap(n))
    try:
        yield
    finally:
        for n, attr in _NAMES.items():
            setattr(C, attr, _real[n])


# --------------------------------------------------------------------------------------------------------------
# Histories
# --------------------------------------------------------------------------------------------------------------


def alphabet(nclasses, ints, lite=False):
    """Operations as JSON-able tuples (lite: without is_empty-with-label and add(non-class))."""
    ops = []
    for name in ("get_label", "get_class", "contains"):
        ops += [(name, "c", i) for i in range(nclasses)] + [(name, "k", k) for k in ints]
    ops += [("is_empty", "c", i) for i in range(nclasses)]  # label=None
    if not lite:
        ops += [("is_empty_l", "c", i) for i in range(nclasses)]  # with the label when the class is known
    ops += [("set_empty", "c", i) for i in range(nclasses)] + [("set_empty", "k", k) for k in ints]
    ops += [("add", "c", i) for i in range(nclasses)]
    if not lite:
        ops += [("add", "k", 7)]
    return ops


FULL = alphabet(3, INTS)
CORE = [o for o in alphabet(2, (-1, 0, 1), lite=True) if o[:2] != ("get_label", "k")]
MINI = [("get_label", "c", 0), ("get_label", "c", 1), ("get_label", "k", 1), ("get_class", "k", 0), ("get_class", "c", 1),
        ("contains", "c", 1), ("contains", "k", 1), ("is_empty", "c", 1), ("is_empty_l", "c", 0), ("set_empty", "c", 1),
        ("set_empty", "k", 0), ("add", "c", 0)]
ALPHABETS = {"full": FULL, "core": CORE, "mini": MINI}


def _key(i):
    return SPECS[i][0], tuple(sorted(SPECS[i][1]))


def _do(db, model, op):
    """One operation: predict with the model, then call the real (wrapped) method."""
    cls = db.combinatorial_class
    name, kind, x = op
    arg = (kind, x)
    obj = mk(cls, x) if kind == "c" else x
    db._h_desc = f"({SPECS[x] if kind == 'c' else x}) after {model.order}"
    if name in ("is_empty", "is_empty_l"):
        lab = model.label_of(x, False)
        db._h_calls_before = EMPTY_CALLS[_key(x)]
        db._h_exp = model.expect("is_empty", arg)
        if name == "is_empty_l" and lab is not None:
            return db.is_empty(obj, lab)
        return db.is_empty(obj)
    if name == "set_empty":
        truth = TRUTH[x] if kind == "c" else (TRUTH[model.order[x]] if 0 <= x < len(model.order) else True)
        db._h_exp = model.expect("set_empty", arg)
        return db.set_empty(obj, truth)
    db._h_exp = model.expect(name, arg)
    if name == "contains":
        return obj in db
    return getattr(db, name)(obj)


def _sweep(db, model, nclasses):
    """Read the whole database back through the public API (plain calls of the real methods) and compare with the
    model: dense labels, round trips, total membership, KeyError for unknown ints, cached emptiness, is_empty() once."""
    COUNTS["sweep"] += 1
    cls = db.combinatorial_class
    n = len(model.order)
    db._h_exp = None  # the wrappers pass straight through to the real methods from here on
    if list(db) != list(range(n)):
        return _note("labels-dense-in-order", f"iteration gives {list(db)}, expected {list(range(n))}")
    for i in range(nclasses):
        try:
            got = mk(cls, i) in db
        except Exception as e:
            return _note("contains-raises", f"{SPECS[i]} in db raised {type(e).__name__} after {model.order}")
        if got is not (i in model.order):
            return _note("contains-result", f"{SPECS[i]} in db = {got!r} after {model.order}")
    for k in INTS:
        valid = 0 <= k < n
        try:
            got = k in db
        except Exception as e:
            return _note("contains-raises", f"{k} in db raised {type(e).__name__} with {n} classes")
        if got is not valid:
            return _note("contains-result", f"{k} in db = {got!r} with {n} classes")
        for name in ("get_label", "get_class"):
            try:
                val = getattr(db, name)(k)
            except KeyError:
                if valid:
                    return _note(f"{name}-raises", f"{name}({k}) raised KeyError with {n} classes")
                continue
            except Exception as e:
                return _note(f"{name}-raises", f"{name}({k}) raised {type(e).__name__} with {n} classes")
            if not valid:
                return _note(f"{name}-expected-KeyError", f"{name}({k}) returned {val!r} with {n} classes")
            if name == "get_label" and val != k:
                return _note("get_label-result", f"get_label({k}) = {val!r}")
            if name == "get_class" and (not isinstance(val, cls) or val != mk(cls, model.order[k])):
                return _note("get_class-equals-stored", f"get_class({k}) = {val!r}, expected {SPECS[model.order[k]]}")
    for lab in range(n):
        i = model.order[lab]
        if db.get_label(mk(cls, i)) != lab or db.get_label(db.get_class(lab)) != lab:
            return _note("label-class-roundtrip", f"label {lab} (class {SPECS[i]}) does not round trip")
        if db.is_empty(mk(cls, i), lab) is not TRUTH[i] or db.is_empty(mk(cls, i)) is not TRUTH[i]:
            return _note("is_empty-result", f"is_empty of class {SPECS[i]} (label {lab}) differs from its own answer")
    if len(list(db)) != n:
        return _note("sweep-changed-the-database", "reading back added classes")
    return True


def run_history(tname, ops, nclasses=3):
    """Returns (violation or None, nontrivial)."""
    _LAST.clear()
    EMPTY_CALLS.clear()
    wit = {"type": tname, "ops": [list(o) for o in ops]}
    db = class_db.ClassDB(TYPES[tname])
    model = Model()
    db._h_depth = 0
    db._h_exp = ("ret", None)
    step = -1
    try:
        for step, op in enumerate(ops):
            try:
                _do(db, model, op)
            except (KeyError, TypeError):
                pass  # predicted or not: the contract has judged it
        step = len(ops)
        if _sweep(db, model, nclasses) is not True:
            raise deal.ContractError()
        for i in range(nclasses):
            if EMPTY_CALLS[_key(i)] > 1:
                _note("is_empty-computed-once", f"own is_empty() of class {SPECS[i]} ran {EMPTY_CALLS[_key(i)]} times in one history")
                raise deal.ContractError()
    except deal.ContractError:
        wit["step"] = step
        return {"check": _LAST.get("check", "contract"), "what": _LAST.get("what", "contract failed"), "witness": wit}, True
    except Exception as e:
        wit["step"] = step
        return {"check": "exception", "what": f"{type(e).__name__}: {e}", "witness": wit}, True
    return None, len(model.order) >= 2


def _worker(task):
    kind = task[0]
    COUNTS.clear()
    viols, evals, nontriv, samples = [], 0, 0, []
    with installed():
        if kind == "exh":
            _, tname, aname, length, shard, nshards = task
            ops = ALPHABETS[aname]
            nclasses = 3
            for hi, head in enumerate(itertools.product(ops, repeat=min(2, length))):
                if hi % nshards != shard:
                    continue
                for tail in itertools.product(ops, repeat=length - len(head)):
                    h = head + tail
                    v, nt = run_history(tname, h, nclasses)
                    evals += 1
                    nontriv += nt
                    if v is not None and len(viols) < 8:
                        viols.append(v)
                    if nt and not samples and evals % 11 == 0:
                        samples.append({"type": tname, "ops": [list(o) for o in h]})
        else:
            _, tname, maxlen, n, seed = task
            rng = random.Random(seed)
            ops = FULL
            seen = set()
            for _ in range(n):
                h = tuple(rng.choice(ops) for _ in range(rng.randint(4, maxlen)))
                if h in seen:
                    continue
                seen.add(h)
                v, nt = run_history(tname, h, 3)
                evals += 1
                nontriv += nt
                if v is not None and len(viols) < 8:
                    viols.append(v)
                if nt and not samples:
                    samples.append({"type": tname, "ops": [list(o) for o in h]})
    return {"viols": viols, "evals": evals, "nontriv": nontriv, "counts": dict(COUNTS), "samples": samples}


def run(tier, seed):
    tasks = []
    for tname in TYPES:
        off = 0 if tname == "plain" else 500
        if tier == "quick":
            tasks += [("exh", tname, "core", 4, s, 64) for s in range(64)]
            tasks += [("exh", tname, "mini", 5, s, 48) for s in range(48)]
            tasks += [("exh", tname, "full", 3, s, 25) for s in range(25)]
            tasks += [("exh", tname, "full", L, 0, 1) for L in (1, 2)]
            tasks += [("rnd", tname, 12, 1500, seed * 1000 + i + off) for i in range(16)]
        else:
            tasks += [("exh", tname, "full", 4, s, 1250) for s in range(1250)]
            tasks += [("exh", tname, "mini", 6, s, 144) for s in range(144)]
            tasks += [("exh", tname, "mini", 5, s, 48) for s in range(48)]
            tasks += [("exh", tname, "core", 4, s, 64) for s in range(64)]
            tasks += [("exh", tname, "full", 3, s, 25) for s in range(25)]
            tasks += [("exh", tname, "full", L, 0, 1) for L in (1, 2)]
            tasks += [("rnd", tname, 14, 8000, seed * 1000 + i + off) for i in range(32)]
    d1, d3 = (3, "exactly 5") if tier == "quick" else (4, "5 and 6")
    bound = (f"for BOTH class types (stored as is / zlib-compressed through to_bytes), fresh class objects in every operation: "
             f"EXHAUSTIVE every history of <={d1} operations over the full alphabet ({len(FULL)} operations: get_label, "
             f"get_class, `in`, set_empty on 3 classes (one of them empty) and on ints -2..4; is_empty with and without "
             f"label and add on the 3 classes; add(non-class)); every history of exactly 4 operations over the core alphabet "
             f"({len(CORE)} operations: the same on 2 classes and ints -1..1, without get_label(int), is_empty-with-label and add(non-class)); "
             f"every history of {d3} operations over a mini alphabet of {len(MINI)} operations {MINI}; "
             f"SEEDED {'24000' if tier == 'quick' else '256000'} histories of 4..{12 if tier == 'quick' else 14} operations "
             "over the full alphabet per type; every history is followed by a read-back sweep of the whole database over "
             "the 3 classes and ints -2..4")
    ctx = multiprocessing.get_context("fork")
    with ctx.Pool(NPROC) as pool:
        results = pool.map(_worker, tasks, chunksize=1)
    counts = Counter()
    viols, evals, nontriv, samples = [], 0, 0, []
    for r in results:
        counts.update(r["counts"])
        viols.extend(r["viols"])
        evals += r["evals"]
        nontriv += r["nontriv"]
        samples.extend(r["samples"])
    viols.sort(key=lambda v: (v["check"], len(v["witness"]["ops"]), str(v["witness"])))
    out, per = [], Counter()
    for v in viols:
        if per[v["check"]] < 2:
            per[v["check"]] += 1
            out.append(v)
    return {
        "bound": bound,
        "evaluations": evals,
        "distinct_nontrivial": nontriv,
        "rule": ("evaluation = one history replayed on a fresh ClassDB with fresh class objects for every operation; "
                 "histories enumerated without repetition per alphabet (seeded ones deduplicated per worker); "
                 "non-trivial = at least two classes get labelled"),
        "exhaustive": False,
        "contracts_evaluated": dict(counts),
        "samples": samples[:2] + samples[len(samples) // 2: len(samples) // 2 + 2] + samples[-2:],
        "violations": out[:20],
    }


def replay(violation):
    w = violation["witness"]
    COUNTS.clear()
    with installed():
        v, _ = run_history(w["type"], [tuple(o) for o in w["ops"]], 3)
    return v is not None
