"""Toy universe U shared by the bounded stand-ins (generalises /repo/example.py).

Everything here is *harness* code: combinatorial classes, strategies and packs that honour the documented
strategy contracts of comb_spec_searcher, plus brute-force oracles that never touch the library.

Classes
    Word                      str + CombinatorialObject
    Av(prefix, patterns, alphabet, just_prefix=False, stats=())
                              words over `alphabet` (any non-empty subset of letters, here 'a', 'b', 'ab') that
                              start with `prefix` and avoid the consecutive `patterns`; `just_prefix` = the single
                              word `prefix` (an atom).  `stats` is a tuple of tracked statistics out of
                              STAT_LETTER = {"na","nb","na2","nb2"} (number of a's / b's; the "2" versions are
                              duplicates used for many-to-one parameter maps).  Implements the extra-parameter
                              protocol: extra_parameters, get_parameters, possible_parameters, get_minimum_value,
                              objects_of_size(n, **params); is_empty, is_atom, minimum_size_of_object, is_finite,
                              to_jsonable/from_dict, __eq__/__hash__ (deterministic crc32 hash), derive(**changes).
    AvBytes                   same, with to_bytes/from_bytes (ClassDB then stores compressed keys).

Oracles (library independent, cached)
    brute_objects(cls, n) -> list[str]; brute_terms(cls, n) -> Counter{param tuple: count};
    brute_count(cls, n, **params) -> int

Strategies (all JSON round-trippable, forward/backward maps implemented)
    ExpansionStrategy(merge=False)   union: just the prefix | prefix+letter ... ; identity parameter maps
                                     (merge=True: children drop "na2"/"nb2" when "na"/"nb" is tracked, 2 -> 1 map)
    ExpansionDropStat                same union, a child drops every statistic that is identically 0 on it
    ExpansionZeroMerge               same union, a child on which >= 2 statistics are identically 0 keeps one of
                                     them and all of those parent statistics map onto it (many-to-one, values differ
                                     on the siblings)
    RemoveFrontOfPrefix(merge=False) product: atom(front of prefix) x rest ; additive parameters
    SwapSymmetry                     a<->b on prefix, patterns, alphabet and statistics (SymmetryStrategy)
    RemoveRedundantPatterns          single child: drop patterns containing another pattern (inferral)
    DropZeroStats                    single child: drop statistics that are identically 0 (child drops a statistic)
    MergeDuplicateStats              single child: (na, na2) -> (na) with both parent statistics mapped to "na"
    AddStat(stat="na")               single child, one-way, not an equivalence: the child tracks one more statistic
    StatAtomStrategy                 AtomStrategy that also knows the terms of atoms with statistics
    LongPrefixVerified(k=2)          verifies non-atom classes with len(prefix) >= k; counting/generation/sampling go
                                     through the library's VerificationStrategy defaults (specification found with
                                     pack(); cached); pack() expands the class
    FiniteVerified                   verifies finite non-atom classes by direct enumeration; no pack
    CoreFactory                      StrategyFactory yielding strategies (RemoveFrontOfPrefix if it applies, else
                                     ExpansionStrategy)
    LookAheadRuleFactory             StrategyFactory yielding ready rules, including rules whose parent is a *child*
                                     of the expanded class
    LookBackRuleFactory              yields the expansion rule of the class with the last prefix letter removed
                                     (parent differs from the expanded class and is reachable only this way)

    ExpansionAtomLast                ExpansionDropStat with the atom as *last* child, the atom naming its statistics
                                     differently (equivalence forms with child index > 0, maps differing per child)
    ExpansionNotSingle / RootVerified / PrependRuleFactory
                                     building blocks of the packs "reverse" and "quotient", whose specifications
                                     need Complement / Quotient rules (found by RuleDBForest only)

    Additions used by single modules (not part of PACKS / ALL_STRATEGIES, so the shared families are unchanged):
    stat_vanishes(cls, stat)         semantic test: the statistic is 0 on every word of the class (automaton search)
    ExpansionDropVanishing           the union; a child drops every statistic that really vanishes on it (a sibling
                                     may have it non-zero at the same size, e.g. nb on Av('a', ['ab']) vs Av('b', ['ab']))
    SplitPrefix(pieces, rest_at, local_names)
                                     the prefix factorisation with the front cut into `pieces` atoms and the non-atom
                                     factor listed at position `rest_at` (a factor of positive minimum size and no
                                     maximum size in non-last position); local_names=True: every factor tracks only
                                     the statistics that do not vanish on it, atoms under their duplicate names
    RenameStats                      single child, two-way equivalence: the same statistics under their duplicate
                                     names (na -> na2, nb -> nb2)
    OneWaySwap                       SwapSymmetry declared one-way (is_two_way / is_reversible False): applied to a
                                     class and to its image it closes a directed cycle of one-way unary rules
    StepRemoveRedundantPatterns      RemoveRedundantPatterns with can_be_equivalent() False (a two-way single-child
                                     rule that is not an equivalence rule)
    VerifiedThroughFactor            verification strategy whose rule has a child (a dependency): class(front + rest)
                                     is verified through class(rest) when class(front + rest) = {front} x class(rest)
    PrependStatFactory               as PrependRuleFactory, the longer class also tracking the statistic of the
                                     prepended letter when it vanishes on the class (SplitPrefix(local_names=True))

Packs / starts / search
    PACKS: {name: () -> fresh StrategyPack};  pack_applicable(name, start) -> bool
        example (= example.py, library AtomStrategy, statistics-free starts only), stat, noinitial, sym, inferral,
        factory, rulefactory, lookback, iterative (often no specification), longverif, longverif1, finite,
        dropstat, atomlast, zeromerge, merge, multi, addstat, reverse, quotient (the last two mostly without
        specification unless the rule database is RuleDBForest), all.
        Every pack generates a *finite* universe from every start class (needed by the fake-clock schedules).
    START_CLASSES(tier, seed=0) -> list[Av]       quick: 44 fixed classes (4 of them AvBytes); thorough: ~300
    run_search(start, pack, ruledb=None, expand_verified=False, **auto_search_kwargs) -> (spec | None, searcher)
    find_spec(start, pack, ruledb=None, **auto_search_kwargs) -> spec | None
    RULEDBS: {name: () -> fresh rule database}
    ALL_STRATEGIES() -> list of Strategy instances (non verification) ; closure(starts, strategies, limit)
    spec_check(spec, start, nmax) -> list of disagreement strings (count / terms vs brute force)

Second universe: plane trees (separate from everything above: not in PACKS / START_CLASSES / ALL_STRATEGIES)
    Tree                      str + CombinatorialObject: the preorder word of out-degrees ('200' = a root with two leaves)
    TreeClass(degrees, roots=degrees, forbidden=())
                              root degree in `roots`, other degrees in `degrees` (within 0..3), no (parent degree, child
                              degree) in `forbidden`; size = number of nodes; TreeClass(d, (0,), f) = the single node
    tree_brute_objects / tree_brute_count / tree_first_size / tree_truly_empty     library independent oracle
    SplitRoot                 union by the degree of the root (children can be empty: a degree no finite tree can use)
    RemoveRoot(atom_last)     product  node x subtree^r : the SAME child r times (keys with repeated labels)
    PruneDegrees              single child, two-way: the class described without its unusable degrees
    TreeLookAheadFactory      ready rules, including rules whose parent is a child of the expanded class
    TREE_PACKS, TREE_STARTS(tier, seed), all_tree_classes(), tree_spec_check(spec, start, nmax),
    tree_selfcheck(classes)   the harness' own classes (is_empty, minimum size, objects) against the oracle

    CycleSymmetry(inverse)    words over a, b, c: the letter renaming a -> b -> c -> a, a symmetry of order three (the
                              image of the image is not the class); classes without statistics
"""
from __future__ import annotations

import itertools
import json
import logging
import random as _random
import zlib
from collections import Counter, defaultdict
from functools import lru_cache
from typing import Callable, Dict, Iterable, Iterator, List, Optional, Tuple

import logzero

from comb_spec_searcher import (
    AtomStrategy,
    CartesianProductStrategy,
    CombinatorialClass,
    CombinatorialObject,
    CombinatorialSpecificationSearcher,
    DisjointUnionStrategy,
    StrategyFactory,
    StrategyPack,
    SymmetryStrategy,
    VerificationStrategy,
)
from comb_spec_searcher.exception import (
    ExceededMaxtimeError,
    InvalidOperationError,
    SpecificationNotFound,
    StrategyDoesNotApply,
)
from comb_spec_searcher.rule_db import RuleDB, RuleDBForest, RuleDBForgetStrategy

# importing comb_spec_searcher resets the log level to INFO
logzero.loglevel(logging.CRITICAL)

__all__ = [
    "Word",
    "Av",
    "AvBytes",
    "STAT_LETTER",
    "SWAP_STAT",
    "brute_objects",
    "brute_terms",
    "brute_count",
    "ExpansionStrategy",
    "ExpansionDropStat",
    "ExpansionZeroMerge",
    "ExpansionNotSingle",
    "ExpansionAtomLast",
    "RootVerified",
    "PrependRuleFactory",
    "RemoveFrontOfPrefix",
    "SwapSymmetry",
    "RemoveRedundantPatterns",
    "DropZeroStats",
    "MergeDuplicateStats",
    "AddStat",
    "StatAtomStrategy",
    "LongPrefixVerified",
    "FiniteVerified",
    "CoreFactory",
    "LookAheadRuleFactory",
    "LookBackRuleFactory",
    "PACKS",
    "pack_applicable",
    "START_CLASSES",
    "RULEDBS",
    "run_search",
    "find_spec",
    "ALL_STRATEGIES",
    "closure",
    "spec_check",
    "swap_word",
    "silence",
    "stat_vanishes",
    "ExpansionDropVanishing",
    "SplitPrefix",
    "RenameStats",
    "OneWaySwap",
    "StepRemoveRedundantPatterns",
    "VerifiedThroughFactor",
    "PrependStatFactory",
    "DUP_NAME",
    "TREE_DEGREES",
    "Tree",
    "TreeClass",
    "TREE_NODE",
    "tree_class_from_repr",
    "tree_brute_objects",
    "tree_brute_count",
    "tree_first_size",
    "tree_truly_empty",
    "SplitRoot",
    "RemoveRoot",
    "PruneDegrees",
    "TreeLookAheadFactory",
    "TREE_PACKS",
    "all_tree_classes",
    "TREE_STARTS",
    "tree_spec_check",
    "tree_selfcheck",
    "CycleSymmetry",
]

STAT_LETTER = {"na": "a", "nb": "b", "na2": "a", "nb2": "b"}
SWAP_STAT = {"na": "nb", "nb": "na", "na2": "nb2", "nb2": "na2"}
BASE_OF = {"na2": "na", "nb2": "nb"}
DUP_NAME = {"na": "na2", "na2": "na", "nb": "nb2", "nb2": "nb"}
_SWAP = str.maketrans("ab", "ba")


def silence() -> None:
    """Silence the library's logger (call again in worker processes)."""
    logzero.loglevel(logging.CRITICAL)


def swap_word(word: str) -> str:
    return word.translate(_SWAP)


class Word(str, CombinatorialObject):
    def size(self) -> int:
        return str.__len__(self)


# --------------------------------------------------------------------------------------------------------------
# the combinatorial class
# --------------------------------------------------------------------------------------------------------------


class Av(CombinatorialClass[Word]):
    """Words over `alphabet` starting with `prefix` and avoiding the consecutive `patterns`."""

    def __init__(
        self,
        prefix: str,
        patterns: Iterable[str],
        alphabet: Iterable[str],
        just_prefix: bool = False,
        stats: Iterable[str] = (),
    ):
        alphabet = tuple(sorted(set(alphabet)))
        if not alphabet or not all(
            isinstance(x, str) and len(x) == 1 for x in alphabet
        ):
            raise ValueError("Alphabet must be a non-empty iterable of letters.")
        self.alphabet: Tuple[str, ...] = alphabet
        if not self.word_over_alphabet(prefix):
            raise ValueError("Prefix must be a word over the given alphabet.")
        self.prefix: Word = Word(prefix)
        patterns = tuple(patterns)
        if not all(p and self.word_over_alphabet(p) for p in patterns):
            raise ValueError("Patterns must be non-empty words over the alphabet.")
        self.patterns: Tuple[Word, ...] = tuple(sorted(set(map(Word, patterns))))
        self.just_prefix = bool(just_prefix)
        stats = tuple(stats)
        if not all(s in STAT_LETTER for s in stats) or len(set(stats)) != len(stats):
            raise ValueError("Unknown or repeated statistic.")
        self.stats: Tuple[str, ...] = stats
        self._key = (
            type(self).__name__,
            str(self.prefix),
            tuple(map(str, self.patterns)),
            self.alphabet,
            self.just_prefix,
            self.stats,
        )
        self._hash = zlib.crc32(repr(self._key).encode())
        super().__init__()

    def word_over_alphabet(self, word: str) -> bool:
        return isinstance(word, str) and all(x in self.alphabet for x in word)

    def key(self) -> tuple:
        return self._key

    def derive(self, **changes) -> "Av":
        """A class of the same Python type with some fields replaced."""
        fields = {
            "prefix": self.prefix,
            "patterns": self.patterns,
            "alphabet": self.alphabet,
            "just_prefix": self.just_prefix,
            "stats": self.stats,
        }
        fields.update(changes)
        return type(self)(**fields)

    # ---- exploration -------------------------------------------------------------------------------------

    def is_empty(self) -> bool:
        return any(p in self.prefix for p in self.patterns)

    def is_atom(self) -> bool:
        return self.just_prefix and not self.is_empty()

    def minimum_size_of_object(self) -> int:
        return len(self.prefix)

    def is_finite(self) -> bool:
        """Finitely many words.  The set of sizes is an interval starting at len(prefix) (a word longer than
        the prefix stays in the class when its last letter is removed), and the automaton remembering the last
        m-1 letters has at most |alphabet|^(m-1) states."""
        if self.just_prefix or self.is_empty():
            return True
        m = max((len(p) for p in self.patterns), default=1)
        horizon = len(self.prefix) + len(self.alphabet) ** (m - 1) + 1
        return next(self.objects_of_size(horizon), None) is None

    # ---- extra parameters --------------------------------------------------------------------------------

    @property
    def extra_parameters(self) -> Tuple[str, ...]:
        return self.stats

    def get_parameters(self, obj: Word) -> Tuple[int, ...]:
        return tuple(obj.count(STAT_LETTER[s]) for s in self.stats)

    def get_minimum_value(self, parameter: str) -> int:
        # every word of the class starts with the prefix, and the prefix itself is in the class
        return self.prefix.count(STAT_LETTER[parameter])

    def possible_parameters(self, n: int) -> Iterator[Dict[str, int]]:
        for values in itertools.product(range(n + 1), repeat=len(self.stats)):
            yield dict(zip(self.stats, values))

    def objects_of_size(self, n: int, **parameters: int) -> Iterator[Word]:
        """Grow the prefix letter by letter, looking only at the suffixes created by the new letter."""
        if self.is_empty() or n < len(self.prefix):
            return

        def ok(word: str) -> bool:
            return all(
                word.count(STAT_LETTER[k]) == v for k, v in parameters.items()
            )

        if self.just_prefix:
            if n == len(self.prefix) and ok(self.prefix):
                yield Word(self.prefix)
            return
        stack = [str(self.prefix)]
        while stack:
            word = stack.pop()
            if len(word) == n:
                if ok(word):
                    yield Word(word)
                continue
            for letter in reversed(self.alphabet):
                new = word + letter
                if not any(new.endswith(p) for p in self.patterns):
                    stack.append(new)

    # ---- serialisation -----------------------------------------------------------------------------------

    def to_jsonable(self) -> dict:
        d = super().to_jsonable()
        d["prefix"] = str(self.prefix)
        d["patterns"] = [str(p) for p in self.patterns]
        d["alphabet"] = list(self.alphabet)
        d["just_prefix"] = int(self.just_prefix)
        d["stats"] = list(self.stats)
        return d

    @classmethod
    def from_dict(cls, d: dict) -> "Av":
        return cls(
            d["prefix"],
            d["patterns"],
            d["alphabet"],
            bool(int(d["just_prefix"])),
            tuple(d.get("stats", ())),
        )

    def __eq__(self, other: object) -> bool:
        if not isinstance(other, Av):
            return NotImplemented
        return self._key == other._key

    def __hash__(self) -> int:
        return self._hash

    def __repr__(self) -> str:
        return (
            f"{type(self).__name__}({str(self.prefix)!r}, {[str(p) for p in self.patterns]!r}, "
            f"{''.join(self.alphabet)!r}, {self.just_prefix!r}, {self.stats!r})"
        )

    def __str__(self) -> str:
        prefix = self.prefix if self.prefix else '""'
        tracked = f" tracking ({', '.join(self.stats)})" if self.stats else ""
        if self.just_prefix:
            return f"The word {prefix}{tracked}"
        return (
            f"Words over {{{', '.join(self.alphabet)}}} avoiding "
            f"{{{', '.join(self.patterns)}}} with prefix {prefix}{tracked}"
        )

    def short(self) -> str:
        """Compact JSON-able description (witnesses)."""
        return repr(self)


class AvBytes(Av):
    """Av with the optional compression hooks of CombinatorialClass."""

    def to_bytes(self) -> bytes:
        return json.dumps(
            [
                str(self.prefix),
                [str(p) for p in self.patterns],
                list(self.alphabet),
                int(self.just_prefix),
                list(self.stats),
            ]
        ).encode()

    @classmethod
    def from_bytes(cls, b: bytes) -> "AvBytes":
        prefix, patterns, alphabet, just_prefix, stats = json.loads(b.decode())
        return cls(prefix, patterns, alphabet, bool(just_prefix), tuple(stats))


def class_from_repr(text: str) -> Av:
    """Inverse of repr (used by replay)."""
    return eval(text, {"Av": Av, "AvBytes": AvBytes})  # pylint: disable=eval-used


# --------------------------------------------------------------------------------------------------------------
# brute force oracles (no library code)
# --------------------------------------------------------------------------------------------------------------


@lru_cache(maxsize=None)
def _brute(
    prefix: str,
    patterns: Tuple[str, ...],
    alphabet: Tuple[str, ...],
    just_prefix: bool,
    n: int,
) -> Tuple[str, ...]:
    res = []
    for letters in itertools.product(alphabet, repeat=n):
        word = "".join(letters)
        if not word.startswith(prefix):
            continue
        if just_prefix and word != prefix:
            continue
        if any(p in word for p in patterns):
            continue
        res.append(word)
    return tuple(res)


def brute_objects(cls: Av, n: int) -> List[str]:
    if n < 0:
        return []
    return list(
        _brute(
            str(cls.prefix),
            tuple(map(str, cls.patterns)),
            cls.alphabet,
            cls.just_prefix,
            n,
        )
    )


def brute_terms(cls: Av, n: int) -> Counter:
    terms: Counter = Counter()
    for word in brute_objects(cls, n):
        terms[tuple(word.count(STAT_LETTER[s]) for s in cls.stats)] += 1
    return terms


def brute_count(cls: Av, n: int, **params: int) -> int:
    return sum(
        1
        for word in brute_objects(cls, n)
        if all(word.count(STAT_LETTER[k]) == v for k, v in params.items())
    )


def stat_is_zero(cls: Av, stat: str) -> bool:
    """True iff the statistic is 0 on every word of the (non-empty) class."""
    letter = STAT_LETTER[stat]
    if letter in cls.prefix:
        return False
    return cls.just_prefix or letter not in cls.alphabet or letter in cls.patterns


# --------------------------------------------------------------------------------------------------------------
# strategies
# --------------------------------------------------------------------------------------------------------------


def _merge_dups(stats: Tuple[str, ...]) -> Tuple[Tuple[str, ...], Dict[str, str]]:
    """Drop "na2"/"nb2" when the base statistic is tracked; both parent statistics map to the base one."""
    mapping = {}
    kept = []
    for s in stats:
        base = BASE_OF.get(s)
        if base is not None and base in stats:
            mapping[s] = base
        else:
            mapping[s] = s
            kept.append(s)
    return tuple(kept), mapping


class ExpansionStrategy(DisjointUnionStrategy[Av, Word]):
    """Either just the prefix, or the prefix followed by one more letter."""

    def __init__(
        self,
        ignore_parent: bool = False,
        inferrable: bool = True,
        possibly_empty: bool = True,
        workable: bool = True,
        merge: bool = False,
    ):
        super().__init__(
            ignore_parent=ignore_parent,
            inferrable=inferrable,
            possibly_empty=possibly_empty,
            workable=workable,
        )
        self.merge = merge

    # how a child's statistics derive from the parent's: (child stats, {parent stat: child stat})
    def _child_params(
        self, parent: Av, child: Av
    ) -> Tuple[Tuple[str, ...], Dict[str, str]]:
        if self.merge:
            return _merge_dups(parent.stats)
        return parent.stats, {s: s for s in parent.stats}

    def _raw_children(self, comb_class: Av) -> Tuple[Av, ...]:
        children = [comb_class.derive(just_prefix=True)]
        for letter in comb_class.alphabet:
            children.append(comb_class.derive(prefix=comb_class.prefix + letter))
        return tuple(children)

    def decomposition_function(self, comb_class: Av) -> Optional[Tuple[Av, ...]]:
        if comb_class.just_prefix:
            return None
        return tuple(
            child.derive(stats=self._child_params(comb_class, child)[0])
            for child in self._raw_children(comb_class)
        )

    def extra_parameters(
        self, comb_class: Av, children: Optional[Tuple[Av, ...]] = None
    ) -> Tuple[Dict[str, str], ...]:
        if comb_class.just_prefix:
            raise StrategyDoesNotApply("Strategy does not apply")
        return tuple(
            self._child_params(comb_class, child)[1]
            for child in self._raw_children(comb_class)
        )

    def formal_step(self) -> str:
        return "Either just the prefix, or append a letter from the alphabet"

    def forward_map(
        self,
        comb_class: Av,
        obj: Word,
        children: Optional[Tuple[Av, ...]] = None,
    ) -> Tuple[Optional[Word], ...]:
        if children is None:
            children = self.decomposition_function(comb_class)
            assert children is not None
        if len(obj) == len(comb_class.prefix):
            idx = 0
        else:
            idx = 1 + comb_class.alphabet.index(obj[len(comb_class.prefix)])
        return tuple(Word(obj) if i == idx else None for i in range(len(children)))

    def to_jsonable(self) -> dict:
        d = super().to_jsonable()
        d["merge"] = self.merge
        return d

    @classmethod
    def from_dict(cls, d: dict) -> "ExpansionStrategy":
        return cls(**d)

    def __repr__(self) -> str:
        return f"{type(self).__name__}(merge={self.merge})"


class ExpansionDropStat(ExpansionStrategy):
    """Same union; a child drops every statistic that is identically 0 on it (the parent statistic is then not
    mapped to that child, as the contract of Strategy.extra_parameters allows)."""

    def _child_params(self, parent, child):
        kept = tuple(s for s in parent.stats if not stat_is_zero(child, s))
        return kept, {s: s for s in kept}

    def formal_step(self) -> str:
        return "Append a letter; children forget statistics that vanish"


class ExpansionZeroMerge(ExpansionStrategy):
    """Same union; on a child where several parent statistics are identically 0 one child statistic stands for all
    of them (several parent statistics map to one child statistic, with different values on the siblings)."""

    def _child_params(self, parent, child):
        zeros = [s for s in parent.stats if stat_is_zero(child, s)]
        if len(zeros) < 2:
            return parent.stats, {s: s for s in parent.stats}
        rep = zeros[0]
        kept = tuple(s for s in parent.stats if s == rep or s not in zeros)
        return kept, {s: (rep if s in zeros else s) for s in parent.stats}

    def formal_step(self) -> str:
        return "Append a letter; vanishing statistics share one child statistic"


class ExpansionAtomLast(ExpansionDropStat):
    """The union of ExpansionDropStat with the children in the order prefix+letter ..., just the prefix, and with
    the atom naming its statistics differently (na <-> na2, nb <-> nb2).  The first children can be empty while the
    last one is not, and the parameter maps differ from child to child."""

    def _raw_children(self, comb_class: Av) -> Tuple[Av, ...]:
        children = super()._raw_children(comb_class)
        return children[1:] + children[:1]

    def _child_params(self, parent, child):
        kept, mapping = super()._child_params(parent, child)
        if child.just_prefix:
            # statistic names are local to a class: the atom calls its statistics by their duplicate names
            mapping = {s: DUP_NAME[s] for s in kept}
            kept = tuple(DUP_NAME[s] for s in kept)
        return kept, mapping

    def forward_map(self, comb_class, obj, children=None):
        res = super().forward_map(comb_class, obj, children)
        return res[1:] + res[:1]

    def formal_step(self) -> str:
        return "Append a letter, or just the prefix; children forget statistics that vanish"


class ExpansionNotSingle(ExpansionStrategy):
    """The expansion, except that it does not apply to the classes whose prefix is a single letter (such a class
    can then only be specified through the reverse of a rule in which it is a child)."""

    def decomposition_function(self, comb_class: Av) -> Optional[Tuple[Av, ...]]:
        if len(comb_class.prefix) == 1:
            return None
        return super().decomposition_function(comb_class)

    def formal_step(self) -> str:
        return "Append a letter (unless the prefix is a single letter)"


class RemoveFrontOfPrefix(CartesianProductStrategy[Av, Word]):
    """prefix = front + rest where no occurrence of a pattern can use a letter of `front`:
    class(prefix) = {front} x class(rest)."""

    def __init__(
        self,
        ignore_parent: bool = True,
        inferrable: bool = False,
        possibly_empty: bool = False,
        workable: bool = True,
        merge: bool = False,
    ):
        super().__init__(
            ignore_parent=ignore_parent,
            inferrable=inferrable,
            possibly_empty=possibly_empty,
            workable=workable,
        )
        self.merge = merge

    @staticmethod
    def index_safe_to_remove_up_to(comb_class: Av) -> int:
        prefix, patterns = comb_class.prefix, comb_class.patterns
        m = max((len(p) for p in patterns), default=1)
        safe = max(0, len(prefix) - m + 1)
        for i in range(safe, len(prefix)):
            end = prefix[i:]
            if any(end == patt[: len(end)] for patt in patterns):
                break
            safe = i + 1
        return safe

    def _params(self, comb_class: Av) -> Tuple[Tuple[str, ...], Dict[str, str]]:
        if self.merge:
            return _merge_dups(comb_class.stats)
        return comb_class.stats, {s: s for s in comb_class.stats}

    def decomposition_function(self, comb_class: Av) -> Optional[Tuple[Av, ...]]:
        if comb_class.just_prefix or comb_class.is_empty():
            return None
        safe = self.index_safe_to_remove_up_to(comb_class)
        if safe <= 0:
            return None
        stats = self._params(comb_class)[0]
        start = comb_class.derive(
            prefix=comb_class.prefix[:safe], just_prefix=True, stats=stats
        )
        end = comb_class.derive(prefix=comb_class.prefix[safe:], stats=stats)
        return (start, end)

    def extra_parameters(
        self, comb_class: Av, children: Optional[Tuple[Av, ...]] = None
    ) -> Tuple[Dict[str, str], ...]:
        mapping = self._params(comb_class)[1]
        return (dict(mapping), dict(mapping))

    def formal_step(self) -> str:
        return "removing redundant prefix"

    def backward_map(
        self,
        comb_class: Av,
        objs: Tuple[Optional[Word], ...],
        children: Optional[Tuple[Av, ...]] = None,
    ) -> Iterator[Word]:
        assert len(objs) == 2 and objs[0] is not None and objs[1] is not None
        yield Word(objs[0] + objs[1])

    def forward_map(
        self,
        comb_class: Av,
        obj: Word,
        children: Optional[Tuple[Av, ...]] = None,
    ) -> Tuple[Word, ...]:
        if children is None:
            children = self.decomposition_function(comb_class)
            assert children is not None
        cut = len(children[0].prefix)
        return Word(obj[:cut]), Word(obj[cut:])

    def to_jsonable(self) -> dict:
        d = super().to_jsonable()
        d["merge"] = self.merge
        return d

    @classmethod
    def from_dict(cls, d: dict) -> "RemoveFrontOfPrefix":
        return cls(**d)

    def __repr__(self) -> str:
        return f"{type(self).__name__}(merge={self.merge})"


class SwapSymmetry(SymmetryStrategy[Av, Word]):
    """Exchange the letters a and b everywhere (prefix, patterns, alphabet, statistics)."""

    def decomposition_function(self, comb_class: Av) -> Optional[Tuple[Av, ...]]:
        if comb_class.is_empty():
            return None
        return (
            comb_class.derive(
                prefix=swap_word(comb_class.prefix),
                patterns=tuple(swap_word(p) for p in comb_class.patterns),
                alphabet=tuple(swap_word(x) for x in comb_class.alphabet),
                stats=tuple(SWAP_STAT[s] for s in comb_class.stats),
            ),
        )

    def extra_parameters(
        self, comb_class: Av, children: Optional[Tuple[Av, ...]] = None
    ) -> Tuple[Dict[str, str], ...]:
        return ({s: SWAP_STAT[s] for s in comb_class.stats},)

    def formal_step(self) -> str:
        return "swap the letters a and b"

    def forward_map(self, comb_class, obj, children=None):
        return (Word(swap_word(obj)),)

    def backward_map(self, comb_class, objs, children=None):
        assert objs[0] is not None
        yield Word(swap_word(objs[0]))

    @classmethod
    def from_dict(cls, d: dict) -> "SwapSymmetry":
        return cls(**d)

    def __repr__(self) -> str:
        return f"{type(self).__name__}()"


class _SingleChild(DisjointUnionStrategy[Av, Word]):
    """Single-child union strategies where the objects do not change."""

    def __init__(
        self,
        ignore_parent: bool = True,
        inferrable: bool = True,
        possibly_empty: bool = False,
        workable: bool = True,
    ):
        super().__init__(
            ignore_parent=ignore_parent,
            inferrable=inferrable,
            possibly_empty=possibly_empty,
            workable=workable,
        )

    def forward_map(self, comb_class, obj, children=None):
        return (Word(obj),)

    @classmethod
    def from_dict(cls, d: dict):
        return cls(**d)

    def __repr__(self) -> str:
        return f"{type(self).__name__}()"


class RemoveRedundantPatterns(_SingleChild):
    """A pattern containing another pattern is implied by it."""

    def decomposition_function(self, comb_class: Av) -> Optional[Tuple[Av, ...]]:
        if comb_class.is_empty():
            return None
        minimal = tuple(
            p
            for p in comb_class.patterns
            if not any(q != p and q in p for q in comb_class.patterns)
        )
        if minimal == comb_class.patterns:
            return None
        return (comb_class.derive(patterns=minimal),)

    def extra_parameters(self, comb_class, children=None):
        return ({s: s for s in comb_class.stats},)

    def formal_step(self) -> str:
        return "remove patterns implied by other patterns"


class DropZeroStats(_SingleChild):
    """A statistic that is identically 0 need not be tracked: the child drops it."""

    def decomposition_function(self, comb_class: Av) -> Optional[Tuple[Av, ...]]:
        if comb_class.is_empty():
            return None
        kept = tuple(s for s in comb_class.stats if not stat_is_zero(comb_class, s))
        if kept == comb_class.stats:
            return None
        return (comb_class.derive(stats=kept),)

    def extra_parameters(self, comb_class, children=None):
        return ({s: s for s in comb_class.stats if not stat_is_zero(comb_class, s)},)

    def formal_step(self) -> str:
        return "forget statistics that vanish"


class MergeDuplicateStats(_SingleChild):
    """(na, na2) carries the same information as (na): two parent statistics map to one child statistic."""

    def decomposition_function(self, comb_class: Av) -> Optional[Tuple[Av, ...]]:
        if comb_class.is_empty():
            return None
        kept, _ = _merge_dups(comb_class.stats)
        if kept == comb_class.stats:
            return None
        return (comb_class.derive(stats=kept),)

    def extra_parameters(self, comb_class, children=None):
        return (_merge_dups(comb_class.stats)[1],)

    def formal_step(self) -> str:
        return "merge duplicate statistics"


class AddStat(_SingleChild):
    """The child tracks one more statistic than the parent (parent terms = child terms summed over it).
    One-way and not an equivalence, as the analogous strategies of real users are declared."""

    def __init__(
        self,
        ignore_parent: bool = True,
        inferrable: bool = True,
        possibly_empty: bool = False,
        workable: bool = True,
        stat: str = "na",
        only_root: bool = True,
    ):
        super().__init__(
            ignore_parent=ignore_parent,
            inferrable=inferrable,
            possibly_empty=possibly_empty,
            workable=workable,
        )
        self.stat = stat
        self.only_root = only_root

    def can_be_equivalent(self) -> bool:
        return False

    def is_two_way(self, comb_class) -> bool:
        return False

    def is_reversible(self, comb_class) -> bool:
        return False

    def decomposition_function(self, comb_class: Av) -> Optional[Tuple[Av, ...]]:
        if comb_class.is_empty() or self.stat in comb_class.stats:
            return None
        if self.only_root and (comb_class.prefix or comb_class.just_prefix):
            return None
        return (comb_class.derive(stats=comb_class.stats + (self.stat,)),)

    def extra_parameters(self, comb_class, children=None):
        return ({s: s for s in comb_class.stats},)

    def formal_step(self) -> str:
        return f"track the statistic {self.stat}"

    def to_jsonable(self) -> dict:
        d = super().to_jsonable()
        d["stat"] = self.stat
        d["only_root"] = self.only_root
        return d

    def __repr__(self) -> str:
        return f"AddStat(stat={self.stat!r}, only_root={self.only_root})"


# ---- verification ------------------------------------------------------------------------------------------


class StatAtomStrategy(AtomStrategy):
    """AtomStrategy that also handles atoms carrying statistics (the library's raises NotImplementedError)."""

    def get_terms(self, comb_class: Av, n: int) -> Counter:
        if not comb_class.extra_parameters:
            return super().get_terms(comb_class, n)
        if n == comb_class.minimum_size_of_object():
            return Counter([comb_class.get_parameters(comb_class.prefix)])
        return Counter()

    def get_objects(self, comb_class: Av, n: int):
        if not comb_class.extra_parameters:
            return super().get_objects(comb_class, n)
        res = defaultdict(list)
        if n == comb_class.minimum_size_of_object():
            res[comb_class.get_parameters(comb_class.prefix)].append(
                Word(comb_class.prefix)
            )
        return res

    def random_sample_object_of_size(self, comb_class: Av, n: int, **parameters: int):
        if not comb_class.extra_parameters:
            return super().random_sample_object_of_size(comb_class, n, **parameters)
        if n != comb_class.minimum_size_of_object():
            raise ValueError("Invalid size")
        return Word(comb_class.prefix)

    def get_genf(self, comb_class, funcs=None):
        if not comb_class.extra_parameters:
            return super().get_genf(comb_class, funcs)
        import sympy  # pylint: disable=import-outside-toplevel

        res = sympy.var("x") ** len(comb_class.prefix)
        for s, v in zip(comb_class.stats, comb_class.get_parameters(comb_class.prefix)):
            res *= sympy.var(s) ** v
        return res

    @classmethod
    def from_dict(cls, d: dict) -> "StatAtomStrategy":
        assert not d
        return cls()


_SPEC_CACHE: Dict[tuple, object] = {}


def _base_pack(name: str = "base") -> StrategyPack:
    return StrategyPack(
        initial_strats=[RemoveFrontOfPrefix()],
        inferral_strats=[],
        expansion_strats=[[ExpansionStrategy()]],
        ver_strats=[StatAtomStrategy()],
        name=name,
    )


class LongPrefixVerified(VerificationStrategy[Av, Word]):
    """Verifies every non-atom, non-empty class whose prefix has length >= k.  Terms, objects and samples come
    from the library's defaults, i.e. from a specification found with `pack()` (cached per class)."""

    def __init__(self, ignore_parent: bool = False, k: int = 2):
        super().__init__(ignore_parent=ignore_parent)
        self.k = k

    def verified(self, comb_class: Av) -> bool:
        return (
            not comb_class.just_prefix
            and len(comb_class.prefix) >= self.k
            and not comb_class.is_empty()
        )

    def pack(self, comb_class: Av) -> StrategyPack:
        return _base_pack("pack of LongPrefixVerified")

    def get_specification(self, comb_class: Av):
        key = (self.k, comb_class.key())
        if key not in _SPEC_CACHE:
            _SPEC_CACHE[key] = super().get_specification(comb_class)
        return _SPEC_CACHE[key]

    def formal_step(self) -> str:
        return f"prefix of length at least {self.k}"

    def to_jsonable(self) -> dict:
        d = super().to_jsonable()
        d["k"] = self.k
        return d

    @classmethod
    def from_dict(cls, d: dict) -> "LongPrefixVerified":
        return cls(**d)

    def __repr__(self) -> str:
        return f"LongPrefixVerified(k={self.k})"


class RootVerified(LongPrefixVerified):
    """Verifies the non-atom, non-empty classes with empty prefix (same machinery as LongPrefixVerified)."""

    def verified(self, comb_class: Av) -> bool:
        return (
            not comb_class.just_prefix
            and not comb_class.prefix
            and not comb_class.is_empty()
        )

    def formal_step(self) -> str:
        return "empty prefix"

    def __repr__(self) -> str:
        return "RootVerified()"


class FiniteVerified(VerificationStrategy[Av, Word]):
    """Verifies finite non-atom classes; enumeration by listing the words.  No pack."""

    def verified(self, comb_class: Av) -> bool:
        return (
            not comb_class.just_prefix
            and not comb_class.is_empty()
            and comb_class.is_finite()
        )

    def get_terms(self, comb_class: Av, n: int) -> Counter:
        if not self.verified(comb_class):
            raise StrategyDoesNotApply("The combinatorial class is not verified")
        return comb_class.get_terms(n)

    def get_objects(self, comb_class: Av, n: int):
        if not self.verified(comb_class):
            raise StrategyDoesNotApply("The combinatorial class is not verified")
        return comb_class.get_objects(n)

    def random_sample_object_of_size(self, comb_class: Av, n: int, **parameters: int):
        objs = list(comb_class.objects_of_size(n, **parameters))
        return _random.choice(objs)

    def get_genf(self, comb_class, funcs=None):
        import sympy  # pylint: disable=import-outside-toplevel

        x = sympy.var("x")
        res = sympy.Integer(0)
        n = len(comb_class.prefix)
        while True:
            terms = comb_class.get_terms(n)
            if not terms:
                return res
            for param, value in terms.items():
                mono = x**n
                for s, v in zip(comb_class.stats, param):
                    mono *= sympy.var(s) ** v
                res += value * mono
            n += 1

    def formal_step(self) -> str:
        return "finite class"

    @classmethod
    def from_dict(cls, d: dict) -> "FiniteVerified":
        return cls(**d)

    def __repr__(self) -> str:
        return "FiniteVerified()"


# ---- factories ---------------------------------------------------------------------------------------------


class _Factory(StrategyFactory[Av]):
    def __str__(self) -> str:
        return type(self).__name__

    def __repr__(self) -> str:
        return f"{type(self).__name__}()"

    @classmethod
    def from_dict(cls, d: dict):
        return cls()


class CoreFactory(_Factory):
    """Yields strategies: the prefix factorisation when it applies, otherwise the expansion (so that the universe
    stays finite even when the factory is the only expansion strategy)."""

    def __call__(self, comb_class: Av):
        front = RemoveFrontOfPrefix()
        if front.decomposition_function(comb_class) is not None:
            yield front
        else:
            yield ExpansionStrategy()


class LookAheadRuleFactory(_Factory):
    """Yields ready rules: the expansion of the class and of each of its non-atom, non-empty children (rules whose
    parent is not the class being expanded)."""

    def __call__(self, comb_class: Av):
        strat = ExpansionStrategy()
        if comb_class.just_prefix:
            return
        rule = strat(comb_class)
        yield rule
        for child in rule.children:
            if not child.just_prefix and not child.is_empty():
                yield strat(child)


class LookBackRuleFactory(_Factory):
    """Yields the expansion rule of the class obtained by removing the last letter of the prefix."""

    def __call__(self, comb_class: Av):
        if comb_class.just_prefix or not comb_class.prefix:
            return
        yield ExpansionStrategy()(comb_class.derive(prefix=comb_class.prefix[:-1]))


class PrependRuleFactory(_Factory):
    """For a class C with a one-letter prefix p and every other letter x: yields the expansion rule of the class
    with prefix x (this makes the class with prefix xp known to the searcher as a child) and, when it is valid, the
    prefix factorisation  class(xp) = {x} x C.  C is never a parent: it can only be specified by the quotient rule."""

    def __call__(self, comb_class: Av):
        if (
            comb_class.just_prefix
            or comb_class.is_empty()
            or len(comb_class.prefix) != 1
        ):
            return
        front = RemoveFrontOfPrefix()
        for letter in comb_class.alphabet:
            if letter == comb_class.prefix:
                continue
            yield ExpansionStrategy()(comb_class.derive(prefix=letter))
            longer = comb_class.derive(prefix=letter + comb_class.prefix)
            children = front.decomposition_function(longer)
            if children is not None and children[1] == comb_class:
                yield front(longer)


# --------------------------------------------------------------------------------------------------------------
# richer building blocks (used by single modules; deliberately not part of PACKS / ALL_STRATEGIES)
# --------------------------------------------------------------------------------------------------------------


@lru_cache(maxsize=None)
def _letter_can_follow(
    prefix: str, patterns: Tuple[str, ...], alphabet: Tuple[str, ...], letter: str
) -> bool:
    """Is there a word prefix.u.letter avoiding the patterns (u over the alphabet)?  The shortest such u has no
    `letter` and visits no state (= last m-1 letters) twice, so a search over states decides it.  No library code."""
    if any(p in prefix for p in patterns):
        return False
    m = max((len(p) for p in patterns), default=1)

    def tail(word: str) -> str:
        return word[-(m - 1):] if m > 1 else ""

    start = tail(prefix)
    seen = {start}
    todo = [start]
    while todo:
        state = todo.pop()
        for x in alphabet:
            new = state + x
            if any(new.endswith(p) for p in patterns):
                continue
            if x == letter:
                return True
            t = tail(new)
            if t not in seen:
                seen.add(t)
                todo.append(t)
    return False


def stat_vanishes(cls: Av, stat: str) -> bool:
    """True iff the statistic is 0 on every word of the class (decided semantically, unlike stat_is_zero which only
    looks at the alphabet and at one-letter patterns)."""
    letter = STAT_LETTER[stat]
    if letter in cls.prefix:
        return cls.is_empty()
    if cls.just_prefix or letter not in cls.alphabet:
        return True
    return not _letter_can_follow(
        str(cls.prefix), tuple(map(str, cls.patterns)), cls.alphabet, letter
    )


class ExpansionDropVanishing(ExpansionDropStat):
    """The union of ExpansionStrategy; a child drops every statistic that really vanishes on it (stat_vanishes).  A
    sibling can have that statistic non-zero on words of the same size: in Av('', ['ab'], 'ab', ('nb',)) the child
    with prefix a = {a^i} drops nb, the child with prefix b keeps it."""

    def _child_params(self, parent, child):
        kept = tuple(s for s in parent.stats if not stat_vanishes(child, s))
        return kept, {s: s for s in kept}

    def formal_step(self) -> str:
        return "Append a letter; children forget statistics that vanish on all their words"


class SplitPrefix(CartesianProductStrategy[Av, Word]):
    """prefix = front + rest as in RemoveFrontOfPrefix (no occurrence of a pattern uses a letter of the front).  The
    front is cut into `pieces` atoms (the first pieces - 1 of one letter each, the last one takes what is left; the
    strategy applies only when the front has at least `pieces` letters) and the non-atom factor class(rest) is the
    child number `rest_at` (0 = first, any value >= pieces = last).  Whatever the order of the children, the word is
    atom_1 ... atom_pieces . w with w in class(rest).

    local_names=False: every factor tracks all the statistics of the parent (identity maps, additive).
    local_names=True : a factor tracks only the statistics that do not vanish on it (the parent statistic is then not
                       mapped to it), and an atom calls its statistics by their duplicate names (na <-> na2, ...)."""

    def __init__(
        self,
        ignore_parent: bool = True,
        inferrable: bool = False,
        possibly_empty: bool = False,
        workable: bool = True,
        pieces: int = 1,
        rest_at: int = 0,
        local_names: bool = False,
    ):
        super().__init__(
            ignore_parent=ignore_parent,
            inferrable=inferrable,
            possibly_empty=possibly_empty,
            workable=workable,
        )
        if pieces < 1 or rest_at < 0:
            raise ValueError("pieces >= 1 and rest_at >= 0")
        self.pieces = int(pieces)
        self.rest_at = int(rest_at)
        self.local_names = bool(local_names)

    def _word_order(self, comb_class: Av) -> Optional[List[Av]]:
        """The factors in the order in which they make up the word (statistics of the parent)."""
        if comb_class.just_prefix or comb_class.is_empty():
            return None
        safe = RemoveFrontOfPrefix.index_safe_to_remove_up_to(comb_class)
        if safe <= 0 or safe < self.pieces:
            return None
        cuts = list(range(self.pieces)) + [safe]
        parts = [
            comb_class.derive(prefix=comb_class.prefix[cuts[i] : cuts[i + 1]], just_prefix=True)
            for i in range(self.pieces)
        ]
        parts.append(comb_class.derive(prefix=comb_class.prefix[safe:]))
        return parts

    def _positions(self) -> List[int]:
        """positions[i] = index in word order of the i-th child."""
        r = min(self.rest_at, self.pieces)
        atoms = list(range(self.pieces))
        return atoms[:r] + [self.pieces] + atoms[r:]

    def _factor_params(self, parent: Av, factor: Av) -> Tuple[Tuple[str, ...], Dict[str, str]]:
        if not self.local_names:
            return parent.stats, {s: s for s in parent.stats}
        kept = tuple(s for s in parent.stats if not stat_vanishes(factor, s))
        if factor.just_prefix:
            return tuple(DUP_NAME[s] for s in kept), {s: DUP_NAME[s] for s in kept}
        return kept, {s: s for s in kept}

    def decomposition_function(self, comb_class: Av) -> Optional[Tuple[Av, ...]]:
        parts = self._word_order(comb_class)
        if parts is None:
            return None
        return tuple(
            parts[i].derive(stats=self._factor_params(comb_class, parts[i])[0])
            for i in self._positions()
        )

    def extra_parameters(
        self, comb_class: Av, children: Optional[Tuple[Av, ...]] = None
    ) -> Tuple[Dict[str, str], ...]:
        parts = self._word_order(comb_class)
        if parts is None:
            raise StrategyDoesNotApply("Strategy does not apply")
        return tuple(
            dict(self._factor_params(comb_class, parts[i])[1]) for i in self._positions()
        )

    def formal_step(self) -> str:
        return (
            f"split the redundant front of the prefix into {self.pieces} atom(s), the remaining class is child "
            f"{min(self.rest_at, self.pieces)}" + (" (local statistic names)" if self.local_names else "")
        )

    def backward_map(
        self,
        comb_class: Av,
        objs: Tuple[Optional[Word], ...],
        children: Optional[Tuple[Av, ...]] = None,
    ) -> Iterator[Word]:
        positions = self._positions()
        assert len(objs) == len(positions) and all(o is not None for o in objs)
        in_word_order = sorted(zip(positions, objs))
        yield Word("".join(o for _, o in in_word_order))

    def forward_map(
        self,
        comb_class: Av,
        obj: Word,
        children: Optional[Tuple[Av, ...]] = None,
    ) -> Tuple[Word, ...]:
        parts = self._word_order(comb_class)
        assert parts is not None
        pieces, at = [], 0
        for part in parts[:-1]:
            pieces.append(Word(obj[at : at + len(part.prefix)]))
            at += len(part.prefix)
        pieces.append(Word(obj[at:]))
        return tuple(pieces[i] for i in self._positions())

    def to_jsonable(self) -> dict:
        d = super().to_jsonable()
        d["pieces"] = self.pieces
        d["rest_at"] = self.rest_at
        d["local_names"] = self.local_names
        return d

    @classmethod
    def from_dict(cls, d: dict) -> "SplitPrefix":
        return cls(**d)

    def __repr__(self) -> str:
        return f"SplitPrefix(pieces={self.pieces}, rest_at={self.rest_at}, local_names={self.local_names})"


class RenameStats(_SingleChild):
    """Statistic names are local to a class: the child is the same set of words tracking the same statistics under
    their duplicate names (na -> na2, nb -> nb2).  A two-way single-child equivalence whose parameter map is not the
    identity on names.  Applies to classes tracking base names only (so it cannot be applied twice in a row)."""

    def decomposition_function(self, comb_class: Av) -> Optional[Tuple[Av, ...]]:
        if comb_class.is_empty() or not comb_class.stats:
            return None
        if any(s in BASE_OF for s in comb_class.stats):
            return None
        return (comb_class.derive(stats=tuple(DUP_NAME[s] for s in comb_class.stats)),)

    def extra_parameters(self, comb_class, children=None):
        return ({s: DUP_NAME[s] for s in comb_class.stats},)

    def formal_step(self) -> str:
        return "call the statistics by their duplicate names"


class OneWaySwap(SwapSymmetry):
    """The letter swap declared one-way: a genuine single-child equivalence whose author declines the reverse
    direction (is_two_way / is_reversible False), as real users do for strategies whose reverse they did not
    implement.  Applied to a class and then to its image it closes a directed cycle of one-way unary rules."""

    def is_two_way(self, comb_class) -> bool:
        return False

    def is_reversible(self, comb_class) -> bool:
        return False

    def formal_step(self) -> str:
        return "swap the letters a and b (one way)"


class StepRemoveRedundantPatterns(RemoveRedundantPatterns):
    """RemoveRedundantPatterns declared `can_be_equivalent() == False`: a two-way single-child rule that is not an
    equivalence rule (it stays a node of its own in a specification)."""

    def can_be_equivalent(self) -> bool:
        return False

    def formal_step(self) -> str:
        return "remove patterns implied by other patterns (a step of its own)"


class VerifiedThroughFactor(VerificationStrategy[Av, Word]):
    """Verifies a non-atom, non-empty class class(front + rest) to which the prefix factorisation applies with a
    non-empty remaining prefix: class(front + rest) = {front} x class(rest).  The rule has the child class(rest): the
    documented way of marking that the verification depends on another class (its generating function is
    atom * F_child).  Terms, objects and samples are obtained by listing the words of the class.  No pack."""

    def _dependency(self, comb_class: Av) -> Optional[Av]:
        if comb_class.just_prefix or comb_class.is_empty():
            return None
        children = RemoveFrontOfPrefix().decomposition_function(comb_class)
        if children is None or not children[1].prefix:
            return None
        return children[1]

    def verified(self, comb_class: Av) -> bool:
        return self._dependency(comb_class) is not None

    def decomposition_function(self, comb_class: Av) -> Optional[Tuple[Av, ...]]:
        dep = self._dependency(comb_class)
        return None if dep is None else (dep,)

    def shifts(self, comb_class: Av, children: Optional[Tuple[Av, ...]] = None) -> Tuple[int, ...]:
        # the honest shift of the dependency: a word of size n of the class is `front` + a word of size n - |front| of the child
        dep = self._dependency(comb_class)
        return () if dep is None else (len(comb_class.prefix) - len(dep.prefix),)

    def get_terms(self, comb_class: Av, n: int) -> Counter:
        if not self.verified(comb_class):
            raise StrategyDoesNotApply("The combinatorial class is not verified")
        return comb_class.get_terms(n)

    def get_objects(self, comb_class: Av, n: int):
        if not self.verified(comb_class):
            raise StrategyDoesNotApply("The combinatorial class is not verified")
        return comb_class.get_objects(n)

    def random_sample_object_of_size(self, comb_class: Av, n: int, **parameters: int):
        objs = list(comb_class.objects_of_size(n, **parameters))
        return _random.choice(objs)

    def get_genf(self, comb_class, funcs=None):
        import sympy  # pylint: disable=import-outside-toplevel

        dep = self._dependency(comb_class)
        if dep is None:
            raise StrategyDoesNotApply("The combinatorial class is not verified")
        if funcs is None or dep not in funcs:
            raise NotImplementedError("the generating function needs the function of the dependency")
        front = comb_class.prefix[: len(comb_class.prefix) - len(dep.prefix)]
        atom = sympy.var("x") ** len(front)
        for s in comb_class.stats:
            atom *= sympy.var(s) ** front.count(STAT_LETTER[s])
        return atom * funcs[dep]

    def formal_step(self) -> str:
        return "verified through the class left when the redundant front of the prefix is removed"

    @classmethod
    def from_dict(cls, d: dict) -> "VerifiedThroughFactor":
        return cls(**d)

    def __repr__(self) -> str:
        return "VerifiedThroughFactor()"


class PrependStatFactory(_Factory):
    """For a class C with a one-letter prefix p and every other letter x such that class(xp) = {x} x C is valid:
    yields that product (SplitPrefix(local_names=True), atom first) for the longer class tracking the statistics of C
    and, whenever a statistic of the letter x vanishes on C and is not tracked by C, that statistic as well (the
    atom then carries it under its duplicate name and C none of it).  C is never a parent: it can only be specified by
    the quotient rule, whose counted child C has fewer statistics than the parent and the sibling."""

    def __call__(self, comb_class: Av):
        if (
            comb_class.just_prefix
            or comb_class.is_empty()
            or len(comb_class.prefix) != 1
        ):
            return
        split = SplitPrefix(local_names=True, rest_at=1)
        for letter in comb_class.alphabet:
            if letter == comb_class.prefix:
                continue
            extra = tuple(
                s
                for s in ("na", "nb")
                if STAT_LETTER[s] == letter
                and s not in comb_class.stats
                and DUP_NAME[s] not in comb_class.stats
                and stat_vanishes(comb_class, s)
            )
            longer = comb_class.derive(
                prefix=letter + comb_class.prefix, stats=comb_class.stats + extra
            )
            children = split.decomposition_function(longer)
            if children is not None and children[1] == comb_class:
                # (the expansion of the class with prefix x makes the longer class known to the searcher as a
                # child, so that the verification strategies of the pack are tried on it)
                yield ExpansionStrategy()(longer.derive(prefix=letter))
                yield split(longer)


# --------------------------------------------------------------------------------------------------------------
# packs
# --------------------------------------------------------------------------------------------------------------


def _pack(name, initial, inferral, expansion, ver, symmetries=None, iterative=False):
    return StrategyPack(
        initial_strats=initial,
        inferral_strats=inferral,
        expansion_strats=expansion,
        ver_strats=ver,
        name=name,
        symmetries=symmetries,
        iterative=iterative,
    )


PACKS: Dict[str, Callable[[], StrategyPack]] = {
    # exactly the pack of example.py (library AtomStrategy: classes without statistics only)
    "example": lambda: _pack(
        "example", [RemoveFrontOfPrefix()], [], [[ExpansionStrategy()]], [AtomStrategy()]
    ),
    "stat": lambda: _base_pack("stat"),
    "noinitial": lambda: _pack(
        "noinitial",
        [],
        [],
        [[RemoveFrontOfPrefix(), ExpansionStrategy()]],
        [StatAtomStrategy()],
    ),
    "sym": lambda: _pack(
        "sym",
        [RemoveFrontOfPrefix()],
        [],
        [[ExpansionStrategy()]],
        [StatAtomStrategy()],
        symmetries=[SwapSymmetry()],
    ),
    "inferral": lambda: _pack(
        "inferral",
        [RemoveFrontOfPrefix()],
        [RemoveRedundantPatterns(), DropZeroStats()],
        [[ExpansionStrategy()]],
        [StatAtomStrategy()],
    ),
    "factory": lambda: _pack(
        "factory", [], [], [[CoreFactory()]], [StatAtomStrategy()]
    ),
    "rulefactory": lambda: _pack(
        "rulefactory",
        [RemoveFrontOfPrefix()],
        [],
        [[LookAheadRuleFactory()]],
        [StatAtomStrategy()],
    ),
    "lookback": lambda: _pack(
        "lookback",
        [RemoveFrontOfPrefix()],
        [],
        [[ExpansionStrategy()], [LookBackRuleFactory()]],
        [StatAtomStrategy()],
    ),
    "iterative": lambda: _pack(
        "iterative",
        [RemoveFrontOfPrefix()],
        [],
        [[ExpansionStrategy()]],
        [StatAtomStrategy()],
        iterative=True,
    ),
    "longverif": lambda: _pack(
        "longverif",
        [RemoveFrontOfPrefix()],
        [],
        [[ExpansionStrategy()]],
        [StatAtomStrategy(), LongPrefixVerified(k=2)],
    ),
    "longverif1": lambda: _pack(
        "longverif1",
        [RemoveFrontOfPrefix()],
        [],
        [[ExpansionStrategy()], [LookBackRuleFactory()]],
        [StatAtomStrategy(), LongPrefixVerified(k=1)],
    ),
    "finite": lambda: _pack(
        "finite",
        [RemoveFrontOfPrefix()],
        [],
        [[ExpansionStrategy()]],
        [StatAtomStrategy(), FiniteVerified()],
    ),
    "dropstat": lambda: _pack(
        "dropstat",
        [RemoveFrontOfPrefix()],
        [],
        [[ExpansionDropStat()]],
        [StatAtomStrategy()],
    ),
    "atomlast": lambda: _pack(
        "atomlast",
        [RemoveFrontOfPrefix()],
        [],
        [[ExpansionAtomLast()]],
        [StatAtomStrategy()],
    ),
    "zeromerge": lambda: _pack(
        "zeromerge",
        [RemoveFrontOfPrefix()],
        [],
        [[ExpansionZeroMerge()]],
        [StatAtomStrategy()],
    ),
    "merge": lambda: _pack(
        "merge",
        [RemoveFrontOfPrefix(merge=True)],
        [MergeDuplicateStats()],
        [[ExpansionStrategy(merge=True)]],
        [StatAtomStrategy()],
    ),
    "multi": lambda: _pack(
        "multi",
        [RemoveFrontOfPrefix()],
        [],
        [[ExpansionStrategy(), ExpansionDropStat()], [LookAheadRuleFactory()]],
        [StatAtomStrategy()],
    ),
    "addstat": lambda: _pack(
        "addstat",
        [AddStat(stat="na"), RemoveFrontOfPrefix()],
        [],
        [[ExpansionStrategy()]],
        [StatAtomStrategy()],
    ),
    # a start class with a one-letter prefix is only reachable as a child: specified by a Complement rule (forest db)
    "reverse": lambda: _pack(
        "reverse",
        [RemoveFrontOfPrefix()],
        [],
        [[ExpansionNotSingle()], [LookBackRuleFactory()]],
        [StatAtomStrategy(), RootVerified()],
    ),
    # classes are only ever children of product rules: specified by Quotient rules (forest db)
    "quotient": lambda: _pack(
        "quotient",
        [],
        [],
        [[PrependRuleFactory()]],
        [StatAtomStrategy(), LongPrefixVerified(k=2)],
    ),
    "all": lambda: _pack(
        "all",
        [RemoveFrontOfPrefix()],
        [RemoveRedundantPatterns(), DropZeroStats()],
        [[ExpansionStrategy(), CoreFactory()], [LookAheadRuleFactory()]],
        [StatAtomStrategy(), FiniteVerified()],
        symmetries=[SwapSymmetry()],
    ),
}


def pack_applicable(name: str, start: Av) -> bool:
    """The library's AtomStrategy cannot count atoms with statistics."""
    if name == "example":
        return not start.stats
    return True


RULEDBS: Dict[str, Callable[[], object]] = {
    "base": RuleDB,
    "forget": RuleDBForgetStrategy,
    "forest": RuleDBForest,
}


# --------------------------------------------------------------------------------------------------------------
# start classes
# --------------------------------------------------------------------------------------------------------------


def _words(alphabet: str, max_len: int, min_len: int = 0) -> List[str]:
    return [
        "".join(w)
        for k in range(min_len, max_len + 1)
        for w in itertools.product(alphabet, repeat=k)
    ]


def all_start_classes() -> List[Av]:
    """Alphabets a, b, ab; <= 2 patterns of length <= 3; prefixes of length <= 2; 0, 1, 2 statistics."""
    res = []
    stat_choices = [(), ("na",), ("nb",), ("na", "nb"), ("nb", "na"), ("na", "na2")]
    for alphabet in ("a", "b", "ab"):
        patterns = _words(alphabet, 3, 1)
        pattern_sets = [()]
        pattern_sets += [(p,) for p in patterns]
        pattern_sets += list(itertools.combinations(patterns, 2))
        for patts in pattern_sets:
            for prefix in _words(alphabet, 2):
                for stats in stat_choices:
                    res.append(Av(prefix, patts, alphabet, False, stats))
    return res


_QUICK = [
    ("", [], "a", ()),
    ("", ["a"], "a", ()),
    ("", ["aa"], "a", ("na",)),
    ("", ["aaa"], "a", ("na", "nb")),
    ("a", ["aaa"], "a", ()),
    ("", ["bb"], "b", ("nb",)),
    ("", ["b", "bbb"], "b", ()),
    ("", [], "ab", ()),
    ("", [], "ab", ("na",)),
    ("", [], "ab", ("na", "nb")),
    ("", ["b"], "ab", ()),
    ("", ["b"], "ab", ("na", "nb")),
    ("", ["ab"], "ab", ()),
    ("", ["ab"], "ab", ("nb",)),
    ("", ["aa", "bb"], "ab", ()),
    ("", ["aa", "bb"], "ab", ("na", "nb")),
    ("", ["bb"], "ab", ()),
    ("", ["bb"], "ab", ("na",)),
    ("", ["bb"], "ab", ("nb", "na")),
    ("", ["aa"], "ab", ("na", "na2")),
    ("", ["aab"], "ab", ()),
    ("", ["aba"], "ab", ("na",)),
    ("", ["aba", "bb"], "ab", ()),
    ("", ["aba", "bab"], "ab", ("na", "nb")),
    ("", ["ab", "aba"], "ab", ()),
    ("", ["a", "ba"], "ab", ("nb",)),
    ("", ["aa", "aab"], "ab", ("na",)),
    ("", ["aaa", "bbb"], "ab", ()),
    ("", ["abb", "ba"], "ab", ("nb",)),
    ("a", ["bb"], "ab", ()),
    ("a", ["aa"], "ab", ("na",)),
    ("b", ["ab"], "ab", ("na", "nb")),
    ("ab", ["bb"], "ab", ()),
    ("ab", ["aba"], "ab", ("nb",)),
    ("ba", ["aa", "bb"], "ab", ("na", "nb")),
    ("aa", ["aa"], "ab", ()),
    ("bb", ["bbb"], "ab", ("nb",)),
    ("b", ["a"], "ab", ("na", "nb")),
    ("", ["aab", "abb"], "ab", ("na", "na2")),
    ("", ["bab"], "ab", ("nb", "na")),
    ("b", ["bb"], "ab", ()),
    ("b", ["bab"], "ab", ("nb",)),
    ("a", ["aa", "ab"], "ab", ("na", "nb")),
    ("b", ["ba", "bbb"], "ab", ("na",)),
]


def START_CLASSES(tier: str = "quick", seed: int = 0) -> List[Av]:
    """quick: a fixed list of 44 classes (four of them as AvBytes); thorough: these plus a seeded sample of 260 of
    the full family."""
    quick = [Av(p, patts, al, False, st) for p, patts, al, st in _QUICK]
    quick = (
        quick[:36]
        + [AvBytes(c.prefix, c.patterns, c.alphabet, False, c.stats) for c in quick[36:40]]
        + quick[40:]
    )
    if tier == "quick":
        return quick
    rng = _random.Random(seed)
    family = all_start_classes()
    sample = rng.sample(family, 260)
    seen = set(quick)
    res = list(quick)
    for c in sample:
        if c not in seen:
            seen.add(c)
            res.append(c)
    return res


# --------------------------------------------------------------------------------------------------------------
# searching
# --------------------------------------------------------------------------------------------------------------


def run_search(
    start: Av,
    pack: StrategyPack,
    ruledb=None,
    expand_verified: bool = False,
    **auto_search_kwargs,
):
    """Run auto_search with a small budget.  Returns (specification or None, searcher).  Only the two documented
    "no result" exceptions are swallowed."""
    auto_search_kwargs.setdefault("max_expansion_time", 10)
    searcher = CombinatorialSpecificationSearcher(
        start, pack, ruledb=ruledb, expand_verified=expand_verified
    )
    silence()
    try:
        spec = searcher.auto_search(**auto_search_kwargs)
    except (SpecificationNotFound, ExceededMaxtimeError):
        spec = None
    return spec, searcher


def find_spec(start: Av, pack: StrategyPack, ruledb=None, **auto_search_kwargs):
    return run_search(start, pack, ruledb, **auto_search_kwargs)[0]


def spec_check(spec, start: Av, nmax: int) -> List[str]:
    """Counts and terms of a specification against brute force."""
    problems = []
    for n in range(nmax + 1):
        truth = brute_terms(start, n)
        got = spec.get_terms(n)
        keys = set(truth) | set(got)
        if any(truth[k] != got[k] for k in keys):
            problems.append(f"get_terms({n}) = {dict(got)} expected {dict(truth)}")
        for param in sorted(set(truth) | {tuple(0 for _ in start.stats)}):
            kwargs = dict(zip(start.stats, param))
            c = spec.count_objects_of_size(n, **kwargs)
            if c != truth[param]:
                problems.append(
                    f"count_objects_of_size({n}, {kwargs}) = {c} expected {truth[param]}"
                )
    return problems


# --------------------------------------------------------------------------------------------------------------
# strategies and classes for the per-rule properties
# --------------------------------------------------------------------------------------------------------------


def ALL_STRATEGIES() -> List:
    return [
        ExpansionStrategy(),
        ExpansionStrategy(merge=True),
        ExpansionDropStat(),
        ExpansionZeroMerge(),
        ExpansionAtomLast(),
        RemoveFrontOfPrefix(),
        RemoveFrontOfPrefix(merge=True),
        SwapSymmetry(),
        RemoveRedundantPatterns(),
        DropZeroStats(),
        MergeDuplicateStats(),
        AddStat(stat="na", only_root=False),
        AddStat(stat="nb", only_root=False),
    ]


def closure(starts: Iterable[Av], strategies: Iterable, limit: int = 2000) -> List[Av]:
    """All classes reachable from `starts` by applying the strategies (breadth first, deterministic order)."""
    strategies = list(strategies)
    seen = {}
    queue = []
    for c in starts:
        if c not in seen:
            seen[c] = None
            queue.append(c)
    i = 0
    while i < len(queue) and len(queue) < limit:
        c = queue[i]
        i += 1
        for strat in strategies:
            if isinstance(strat, StrategyFactory):
                rules = [
                    x if not hasattr(x, "decomposition_function") else None
                    for x in strat(c)
                ]
                children_sets = [r.children for r in rules if r is not None]
                children_sets += [(r.comb_class,) for r in rules if r is not None]
            else:
                children = strat.decomposition_function(c)
                children_sets = [children] if children is not None else []
            for children in children_sets:
                for child in children:
                    if child not in seen:
                        seen[child] = None
                        queue.append(child)
    return queue


# --------------------------------------------------------------------------------------------------------------
# A second tiny universe: plane trees.  Products with REPEATED factors (a node with r subtrees of one class), unions
# whose children can be empty for a non-syntactic reason.  Used by single modules; not part of PACKS / START_CLASSES.
# --------------------------------------------------------------------------------------------------------------

TREE_DEGREES = (0, 1, 2, 3)


def _subtree_end(word: str, start: int) -> int:
    """Index just after the subtree whose root is the node at position `start` of a preorder degree word."""
    need = 1
    i = start
    while need:
        if i >= len(word):
            raise ValueError("not the degree word of a tree")
        need += int(word[i]) - 1
        i += 1
    return i


class Tree(str, CombinatorialObject):
    """A plane tree, written as the word of the out-degrees of its nodes in preorder: '200' is a root with two leaves,
    '0' the single node.  Size = number of nodes = length of the word."""

    def size(self) -> int:
        return str.__len__(self)

    def subtrees(self) -> Tuple["Tree", ...]:
        res = []
        i = 1
        for _ in range(int(self[0])):
            j = _subtree_end(self, i)
            res.append(Tree(self[i:j]))
            i = j
        if i != len(self):
            raise ValueError("not the degree word of a tree")
        return tuple(res)


class TreeClass(CombinatorialClass[Tree]):
    """Plane trees whose root has out-degree in `roots`, whose other nodes have out-degree in `degrees`, and in which no
    node of out-degree i has a child of out-degree j for (i, j) in `forbidden` (degrees within TREE_DEGREES; `roots`
    defaults to `degrees`).  TreeClass(d, (0,), f) is the single node (an atom) whatever d and f."""

    def __init__(self, degrees: Iterable[int], roots: Optional[Iterable[int]] = None, forbidden: Iterable = ()):
        self.degrees: Tuple[int, ...] = tuple(sorted(set(int(d) for d in degrees)))
        self.roots: Tuple[int, ...] = (
            self.degrees if roots is None else tuple(sorted(set(int(r) for r in roots)))
        )
        self.forbidden: Tuple[Tuple[int, int], ...] = tuple(
            sorted(set((int(i), int(j)) for i, j in forbidden))
        )
        used = set(self.degrees) | set(self.roots) | {x for e in self.forbidden for x in e}
        if not used <= set(TREE_DEGREES):
            raise ValueError("degrees must be within TREE_DEGREES")
        self._key = (type(self).__name__, self.degrees, self.roots, self.forbidden)
        self._hash = zlib.crc32(repr(self._key).encode())
        self._gen_cache: Dict[Tuple[Tuple[int, ...], int], Tuple[str, ...]] = {}
        super().__init__()

    def key(self) -> tuple:
        return self._key

    def derive(self, **changes) -> "TreeClass":
        fields = {"degrees": self.degrees, "roots": self.roots, "forbidden": self.forbidden}
        fields.update(changes)
        return type(self)(**fields)

    def allowed_below(self, degree: int) -> Tuple[int, ...]:
        """The out-degrees a child of a node of out-degree `degree` may have."""
        return tuple(j for j in self.degrees if (degree, j) not in self.forbidden)

    def feasible_degrees(self) -> Tuple[int, ...]:
        """The d in `degrees` such that some finite tree of the class (with any root) has a non-root node ... i.e. such
        that a finite tree with root degree d and all other nodes obeying the class exists (least fixed point)."""
        feas: set = set()
        while True:
            new = {
                d
                for d in self.degrees
                if d == 0 or any(j in feas for j in self.allowed_below(d))
            }
            if new == feas:
                return tuple(sorted(feas))
            feas = new

    def feasible_roots(self) -> Tuple[int, ...]:
        feas = set(self.feasible_degrees())
        return tuple(
            r for r in self.roots if r == 0 or any(j in feas for j in self.allowed_below(r))
        )

    # ---- exploration -------------------------------------------------------------------------------------

    def is_empty(self) -> bool:
        return not self.feasible_roots()

    def is_atom(self) -> bool:
        return self.roots == (0,)

    def minimum_size_of_object(self) -> int:
        """Shortest-tree sizes by relaxation (a tree of minimum size repeats the smallest subtree)."""
        best: Dict[int, int] = {}
        for _ in range(len(self.degrees) + 1):
            for d in self.degrees:
                if d == 0:
                    best[d] = 1
                    continue
                below = [best[j] for j in self.allowed_below(d) if j in best]
                if below:
                    best[d] = 1 + d * min(below)
        sizes = []
        for r in self.roots:
            if r == 0:
                sizes.append(1)
                continue
            below = [best[j] for j in self.allowed_below(r) if j in best]
            if below:
                sizes.append(1 + r * min(below))
        if not sizes:
            raise ValueError("the class is empty")
        return min(sizes)

    def _generate(self, roots: Tuple[int, ...], n: int) -> Tuple[str, ...]:
        """Degree words of the trees of size n with root degree in `roots` (top-down, by compositions)."""
        key = (roots, n)
        if key in self._gen_cache:
            return self._gen_cache[key]
        res: List[str] = []
        for r in roots:
            if r == 0:
                if n == 1:
                    res.append("0")
                continue
            if n < r + 1:
                continue
            below = self.allowed_below(r)
            # sequences of r subtrees of total size n - 1
            stack = [("", n - 1, r)]
            while stack:
                word, left, todo = stack.pop()
                if todo == 0:
                    if left == 0:
                        res.append(str(r) + word)
                    continue
                for k in range(1, left - (todo - 1) + 1):
                    for sub in self._generate(below, k):
                        stack.append((word + sub, left - k, todo - 1))
        out = tuple(sorted(res))
        self._gen_cache[key] = out
        return out

    def objects_of_size(self, n: int, **parameters: int) -> Iterator[Tree]:
        assert not parameters
        for word in self._generate(self.roots, n):
            yield Tree(word)

    # ---- serialisation -----------------------------------------------------------------------------------

    def to_jsonable(self) -> dict:
        d = super().to_jsonable()
        d["degrees"] = list(self.degrees)
        d["roots"] = list(self.roots)
        d["forbidden"] = [list(e) for e in self.forbidden]
        return d

    @classmethod
    def from_dict(cls, d: dict) -> "TreeClass":
        return cls(d["degrees"], d["roots"], [tuple(e) for e in d["forbidden"]])

    def __eq__(self, other: object) -> bool:
        if not isinstance(other, TreeClass):
            return NotImplemented
        return self._key == other._key

    def __hash__(self) -> int:
        return self._hash

    def __repr__(self) -> str:
        return f"{type(self).__name__}({self.degrees!r}, {self.roots!r}, {self.forbidden!r})"

    def __str__(self) -> str:
        avoid = "".join(f", no {j}-node under a {i}-node" for i, j in self.forbidden)
        if self.roots == (0,):
            return "The single node"
        return f"Plane trees with root degree in {set(self.roots) or '{}'}, other degrees in {set(self.degrees) or '{}'}{avoid}"

    def short(self) -> str:
        return repr(self)


TREE_NODE = TreeClass((), (0,), ())


def tree_class_from_repr(text: str) -> TreeClass:
    """Inverse of repr (used by replay)."""
    return eval(text, {"TreeClass": TreeClass})  # pylint: disable=eval-used


def _tree_words(
    degrees: Tuple[int, ...],
    roots: Tuple[int, ...],
    forbidden: Tuple[Tuple[int, int], ...],
    n: int,
) -> Iterator[str]:
    """Oracle (no library code, no class of this module): the words of length n over the digits, written letter by
    letter, that are the preorder degree word of ONE tree with root degree in `roots`, other degrees in `degrees` and no
    forbidden (parent degree, child degree).  A prefix is abandoned as soon as it cannot be completed: more children
    promised than letters left, or the tree closed before the last letter."""
    if n < 1:
        return
    word: List[int] = []
    # for every node still waiting for children: [its degree, children still missing]
    waiting: List[List[int]] = []

    def extend(promised: int) -> Iterator[str]:
        left = n - len(word)
        if left == 0:
            if promised == 0:
                yield "".join(map(str, word))
            return
        if word and promised == 0:
            return  # the tree is complete, a second one would start
        for d in roots if not word else degrees:
            if word and (waiting[-1][0], d) in forbidden:
                continue
            new_promised = promised - (1 if word else 0) + d
            if new_promised > left - 1:
                continue
            popped = None
            if word:
                waiting[-1][1] -= 1
                if waiting[-1][1] == 0:
                    popped = waiting.pop()
            if d:
                waiting.append([d, d])
            word.append(d)
            yield from extend(new_promised)
            word.pop()
            if d:
                waiting.pop()
            if popped is not None:
                waiting.append(popped)
            if word:
                waiting[-1][1] += 1

    yield from extend(0)


@lru_cache(maxsize=None)
def _tree_brute(
    degrees: Tuple[int, ...],
    roots: Tuple[int, ...],
    forbidden: Tuple[Tuple[int, int], ...],
    n: int,
) -> Tuple[str, ...]:
    return tuple(_tree_words(degrees, roots, forbidden, n))


def tree_brute_objects(cls: TreeClass, n: int) -> List[str]:
    return list(_tree_brute(cls.degrees, cls.roots, cls.forbidden, n))


def tree_brute_count(cls: TreeClass, n: int) -> int:
    return len(_tree_brute(cls.degrees, cls.roots, cls.forbidden, n))


# a smallest tree never repeats a degree along a branch below the root: at most 1 + 3 * (1 + 2 * (1 + 1)) nodes
TREE_EMPTY_HORIZON = 16


@lru_cache(maxsize=None)
def _tree_first_size(
    degrees: Tuple[int, ...], roots: Tuple[int, ...], forbidden: Tuple[Tuple[int, int], ...]
) -> Optional[int]:
    for n in range(1, TREE_EMPTY_HORIZON + 1):
        if next(_tree_words(degrees, roots, forbidden, n), None) is not None:
            return n
    return None


def tree_first_size(cls: TreeClass) -> Optional[int]:
    """Size of a smallest tree of the class by brute force, None if there is none up to TREE_EMPTY_HORIZON."""
    return _tree_first_size(cls.degrees, cls.roots, cls.forbidden)


def tree_truly_empty(cls: TreeClass) -> bool:
    return tree_first_size(cls) is None


class SplitRoot(DisjointUnionStrategy[TreeClass, Tree]):
    """By the out-degree of the root (a class with at least two possible root degrees).  Children can be empty: a root
    degree all of whose admissible subtrees are infinite."""

    def decomposition_function(self, comb_class: TreeClass) -> Optional[Tuple[TreeClass, ...]]:
        if len(comb_class.roots) < 2:
            return None
        return tuple(comb_class.derive(roots=(r,)) for r in comb_class.roots)

    def formal_step(self) -> str:
        return "split by the out-degree of the root"

    def forward_map(self, comb_class, obj, children=None):
        idx = comb_class.roots.index(int(obj[0]))
        return tuple(Tree(obj) if i == idx else None for i in range(len(comb_class.roots)))

    @classmethod
    def from_dict(cls, d: dict) -> "SplitRoot":
        return cls(**d)

    def __repr__(self) -> str:
        return "SplitRoot()"


class RemoveRoot(CartesianProductStrategy[TreeClass, Tree]):
    """A class with one possible root degree r >= 1:  the root node x r subtrees, all r of ONE class (repeated factor).
    atom_last: the node is listed after the subtrees instead of before."""

    def __init__(
        self,
        ignore_parent: bool = True,
        inferrable: bool = False,
        possibly_empty: bool = False,
        workable: bool = True,
        atom_last: bool = False,
    ):
        super().__init__(
            ignore_parent=ignore_parent,
            inferrable=inferrable,
            possibly_empty=possibly_empty,
            workable=workable,
        )
        self.atom_last = bool(atom_last)

    def decomposition_function(self, comb_class: TreeClass) -> Optional[Tuple[TreeClass, ...]]:
        if len(comb_class.roots) != 1 or comb_class.roots[0] == 0 or comb_class.is_empty():
            return None
        r = comb_class.roots[0]
        sub = comb_class.derive(roots=comb_class.allowed_below(r))
        if self.atom_last:
            return (sub,) * r + (TREE_NODE,)
        return (TREE_NODE,) + (sub,) * r

    def formal_step(self) -> str:
        return "remove the root" + (" (node last)" if self.atom_last else "")

    def backward_map(self, comb_class, objs, children=None):
        assert all(o is not None for o in objs)
        subs = objs[:-1] if self.atom_last else objs[1:]
        yield Tree(str(len(subs)) + "".join(subs))

    def forward_map(self, comb_class, obj, children=None):
        subs = Tree(obj).subtrees()
        if self.atom_last:
            return subs + (Tree("0"),)
        return (Tree("0"),) + subs

    def to_jsonable(self) -> dict:
        d = super().to_jsonable()
        d["atom_last"] = self.atom_last
        return d

    @classmethod
    def from_dict(cls, d: dict) -> "RemoveRoot":
        return cls(**d)

    def __repr__(self) -> str:
        return f"RemoveRoot(atom_last={self.atom_last})"


class PruneDegrees(DisjointUnionStrategy[TreeClass, Tree]):
    """Single child, two-way: the same trees described without the degrees no finite tree can use (infeasible degrees
    and root degrees, and the forbidden pairs mentioning a removed degree)."""

    def __init__(
        self,
        ignore_parent: bool = True,
        inferrable: bool = True,
        possibly_empty: bool = False,
        workable: bool = True,
    ):
        super().__init__(
            ignore_parent=ignore_parent,
            inferrable=inferrable,
            possibly_empty=possibly_empty,
            workable=workable,
        )

    def decomposition_function(self, comb_class: TreeClass) -> Optional[Tuple[TreeClass, ...]]:
        if comb_class.is_empty() or comb_class.is_atom():
            return None
        degrees = comb_class.feasible_degrees()
        roots = comb_class.feasible_roots()
        kept = set(degrees) | set(roots)
        forbidden = tuple((i, j) for i, j in comb_class.forbidden if i in kept and j in degrees)
        child = TreeClass(degrees, roots, forbidden)
        if child == comb_class:
            return None
        return (child,)

    def formal_step(self) -> str:
        return "forget the degrees no finite tree can use"

    def forward_map(self, comb_class, obj, children=None):
        return (Tree(obj),)

    @classmethod
    def from_dict(cls, d: dict) -> "PruneDegrees":
        return cls(**d)

    def __repr__(self) -> str:
        return "PruneDegrees()"


class TreeLookAheadFactory(StrategyFactory[TreeClass]):
    """Yields ready rules: the root split of the class and the root removal of each of its non-empty children (rules
    whose parent is a child of the class being expanded); the root removal of the class itself when it applies."""

    def __call__(self, comb_class: TreeClass):
        split, remove = SplitRoot(), RemoveRoot()
        if remove.decomposition_function(comb_class) is not None:
            yield remove(comb_class)
        children = split.decomposition_function(comb_class)
        if children is None:
            return
        yield split(comb_class)
        for child in children:
            if remove.decomposition_function(child) is not None:
                yield remove(child)

    def __str__(self) -> str:
        return "TreeLookAheadFactory"

    def __repr__(self) -> str:
        return "TreeLookAheadFactory()"

    @classmethod
    def from_dict(cls, d: dict):
        return cls()


TREE_PACKS: Dict[str, Callable[[], StrategyPack]] = {
    "tree": lambda: _pack("tree", [], [], [[SplitRoot(), RemoveRoot()]], [AtomStrategy()]),
    "tree-initial": lambda: _pack("tree-initial", [RemoveRoot()], [], [[SplitRoot()]], [AtomStrategy()]),
    "tree-atomlast": lambda: _pack(
        "tree-atomlast", [RemoveRoot(atom_last=True)], [], [[SplitRoot()]], [AtomStrategy()]
    ),
    "tree-prune": lambda: _pack(
        "tree-prune", [RemoveRoot()], [PruneDegrees()], [[SplitRoot()]], [AtomStrategy()]
    ),
    "tree-factory": lambda: _pack("tree-factory", [], [], [[TreeLookAheadFactory()]], [AtomStrategy()]),
}

_TREE_QUICK = [
    ((0, 2), None, ()),  # binary trees by nodes
    ((0, 1), None, ()),  # paths
    ((0, 3), None, ()),
    ((0, 1, 2), None, ()),  # Motzkin trees
    ((0, 2, 3), None, ()),
    ((0, 1, 2, 3), None, ()),
    ((0, 2), (2,), ()),
    ((0, 1, 2), (1, 2), ()),
    ((0, 1, 2), (3,), ()),
    ((0, 2), None, ((2, 2),)),  # finite
    ((0, 1, 2), None, ((1, 1),)),
    ((0, 1, 2), None, ((2, 0),)),
    ((0, 1, 2), None, ((1, 0), (1, 2))),  # no finite tree has a unary node
    ((0, 2, 3), None, ((3, 0), (3, 3))),
    ((0, 2, 3), None, ((2, 2), (3, 3))),
    ((0, 1, 2, 3), None, ((1, 0), (1, 2), (1, 3), (3, 0), (3, 3))),  # below a 3-node: unary (infeasible) or binary
    ((0, 1, 2, 3), (3,), ((1, 0), (1, 2), (1, 3), (3, 0), (3, 3))),
    ((0, 1, 3), (1, 3), ((1, 0), (3, 3))),
    ((1, 2), None, ()),  # empty
    ((1, 2), (0, 2), ()),  # only the single node
    ((0,), (0, 3), ()),
    ((0, 2), None, ((2, 0),)),  # only the single node: a binary node needs binary children for ever
]


def all_tree_classes() -> List[TreeClass]:
    """degrees containing 0 (plus two without), roots = degrees or a non-empty subset of TREE_DEGREES of size <= 2,
    <= 3 forbidden pairs among the degrees."""
    res = []
    subsets = [s for k in range(1, 5) for s in itertools.combinations(TREE_DEGREES, k)]
    for degrees in subsets:
        if 0 not in degrees and degrees not in ((1, 2), (2,)):
            continue
        pairs = [(i, j) for i in degrees if i for j in degrees]
        forb_sets = [()] + [(p,) for p in pairs]
        forb_sets += list(itertools.combinations(pairs, 2)) + list(itertools.combinations(pairs, 3))
        root_sets = [None] + [s for s in subsets if len(s) <= 2]
        for forbidden in forb_sets:
            for roots in root_sets:
                res.append(TreeClass(degrees, roots, forbidden))
    return res


def TREE_STARTS(tier: str = "quick", seed: int = 0) -> List[TreeClass]:
    """quick: the fixed list; thorough: these plus a seeded sample of 200 of `all_tree_classes()`."""
    quick = [TreeClass(d, r, f) for d, r, f in _TREE_QUICK]
    if tier == "quick":
        return quick
    rng = _random.Random(seed)
    seen = set(quick)
    res = list(quick)
    for c in rng.sample(all_tree_classes(), 200):
        if c not in seen:
            seen.add(c)
            res.append(c)
    return res


def tree_spec_check(spec, start: TreeClass, nmax: int) -> List[str]:
    """Counts (and, up to size 5, the generated objects) of a specification against brute force."""
    problems = []
    for n in range(nmax + 1):
        truth = tree_brute_objects(start, n)
        c = spec.count_objects_of_size(n)
        if c != len(truth):
            problems.append(f"count_objects_of_size({n}) = {c} expected {len(truth)}")
        if n <= 5:
            got = sorted(str(o) for o in spec.generate_objects_of_size(n))
            if got != sorted(truth):
                problems.append(f"generate_objects_of_size({n}) = {got[:6]}.. expected {sorted(truth)[:6]}..")
    return problems


def tree_selfcheck(classes: Iterable[TreeClass], nmax: int = 6) -> List[str]:
    """The harness' own classes against the brute-force oracle: is_empty, minimum size, objects_of_size."""
    problems = []
    for c in classes:
        empty = tree_truly_empty(c)
        if c.is_empty() != empty:
            problems.append(f"{c!r}: is_empty {c.is_empty()} but brute force says {empty}")
            continue
        if empty:
            continue
        first = tree_first_size(c)
        if c.minimum_size_of_object() != first:
            problems.append(f"{c!r}: minimum size {c.minimum_size_of_object()} but brute force says {first}")
        for n in range(nmax + 1):
            if sorted(map(str, c.objects_of_size(n))) != sorted(tree_brute_objects(c, n)):
                problems.append(f"{c!r}: objects_of_size({n}) differs from brute force")
    return problems


# --------------------------------------------------------------------------------------------------------------
# A symmetry that is not an involution (used by single modules; not part of PACKS / ALL_STRATEGIES)
# --------------------------------------------------------------------------------------------------------------

_CYCLE = str.maketrans("abc", "bca")
_UNCYCLE = str.maketrans("abc", "cab")


class CycleSymmetry(SymmetryStrategy[Av, Word]):
    """Rename the letters a -> b -> c -> a everywhere (prefix, patterns, alphabet); inverse=True: the other way round.
    A symmetry of order three: applying it to the image of a class does not give the class back, so a pack listing only
    this generator never produces the rule  image -> class  as a forward rule.  Classes without statistics only (there is
    no statistic counting the letter c)."""

    def __init__(
        self,
        ignore_parent: bool = False,
        inferrable: bool = False,
        possibly_empty: bool = False,
        workable: bool = False,
        inverse: bool = False,
    ):
        super().__init__(
            ignore_parent=ignore_parent,
            inferrable=inferrable,
            possibly_empty=possibly_empty,
            workable=workable,
        )
        self.inverse = bool(inverse)

    def _table(self, back: bool = False):
        return _UNCYCLE if self.inverse != back else _CYCLE

    def decomposition_function(self, comb_class: Av) -> Optional[Tuple[Av, ...]]:
        if comb_class.is_empty() or comb_class.stats:
            return None
        t = self._table()
        return (
            comb_class.derive(
                prefix=comb_class.prefix.translate(t),
                patterns=tuple(p.translate(t) for p in comb_class.patterns),
                alphabet=tuple(x.translate(t) for x in comb_class.alphabet),
            ),
        )

    def extra_parameters(self, comb_class, children=None):
        return ({},)

    def formal_step(self) -> str:
        return "rename the letters c -> b -> a -> c" if self.inverse else "rename the letters a -> b -> c -> a"

    def forward_map(self, comb_class, obj, children=None):
        return (Word(obj.translate(self._table())),)

    def backward_map(self, comb_class, objs, children=None):
        assert objs[0] is not None
        yield Word(objs[0].translate(self._table(back=True)))

    def to_jsonable(self) -> dict:
        d = super().to_jsonable()
        d["inverse"] = self.inverse
        return d

    @classmethod
    def from_dict(cls, d: dict) -> "CycleSymmetry":
        return cls(**d)

    def __repr__(self) -> str:
        return f"CycleSymmetry(inverse={self.inverse})"
