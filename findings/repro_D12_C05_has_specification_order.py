"""C05: has_specification must answer True as soon as the start class survives the pruning of the rules taken up to
equivalence.  The representative of the start label was looked up BEFORE the equivalences were brought up to date."""
import sys; sys.path.insert(0, "/repo")
from comb_spec_searcher.rule_db import RuleDB
class Strat: pass
class R:
    def __init__(s, n, two): s.children=[object()]*n; s.possibly_empty=False; s.strategy=Strat(); s._two=two
    def is_two_way(s): return s._two
bad = []
for iterative in (True, False):
    class Pack: pass
    Pack.iterative = iterative
    class Searcher:
        start_label=0; strategy_pack=Pack(); classdb=None
    db = RuleDB(); db.link_searcher(Searcher())
    # 0 -> (0,0) ; 0 -> (1) and 1 -> (0) one-way (a cycle: 0 ~ 1) ; 0 -> () makes it productive in recursive mode
    for st, ends in [(0,(0,0)), (0,()), (0,(1,)), (1,(0,))]:
        db.add(st, ends, R(len(ends), False))
    first, second = db.has_specification(), db.has_specification()
    if not (first and second): bad.append((iterative, first, second))
print("FAIL" if bad else "OK", bad); sys.exit(1 if bad else 0)
