"""C17: a searcher using RuleDBForest never equals its pickled copy (RuleDBForest/TableMethod/Function have no __eq__)."""
import pickle, sys; sys.path.insert(0, "/repo")
from example import AvoidingWithPrefix, pack
from comb_spec_searcher import CombinatorialSpecificationSearcher
from comb_spec_searcher.rule_db import RuleDB, RuleDBForgetStrategy, RuleDBForest
res = {}
for R in (RuleDB, RuleDBForgetStrategy, RuleDBForest):
    css = CombinatorialSpecificationSearcher(AvoidingWithPrefix("", ["aa"], ["a", "b"]), pack, ruledb=R())
    new = pickle.loads(pickle.dumps(css))
    res[R.__name__] = (new == css, [k for k in css.__dict__ if not css.__dict__[k] == new.__dict__[k]])
print(res); ok = all(v[0] for v in res.values()); print("OK" if ok else "FAIL"); sys.exit(0 if ok else 1)
