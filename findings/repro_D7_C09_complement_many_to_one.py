"""Complement.get_terms: two parent statistics mapped to one statistic of the counted child -> AssertionError."""
from collections import Counter
from comb_spec_searcher.strategies.constructor import Complement, DisjointUnion

class C:  # minimal stand-in of a combinatorial class: only extra_parameters is read by the constructors
    def __init__(self, *params): self.extra_parameters = params

P, A, B = C("x", "y"), C("a"), C("b1", "b2")
maps = ({"x": "a", "y": "a"}, {"x": "b1", "y": "b2"})      # on A both parent statistics equal A's single statistic
tA = Counter({(0,): 1})                                      # one object in A, x = y = 0
tB = Counter({(1, 2): 1})                                    # one object in B, x = 1, y = 2
tP = DisjointUnion(P, (A, B), maps).get_terms(None, (lambda n: tA, lambda n: tB), 0)
print("union   P =", dict(tP))                               # {(0, 0): 1, (1, 2): 1}  correct
comp = Complement(P, (A, B), 0, maps)                        # A = P - B
try:
    print("complement A =", dict(comp.get_terms(None, (lambda n: tP, lambda n: tB), 0)))
except AssertionError as e:
    import traceback; traceback.print_exc(limit=-2)
    print("AssertionError (expected {(0,): 1})")
