"""C18: spec == from_dict(json(to_jsonable(spec))) also when a lazily added empty rule exists; strategy equality independent of creation site."""
import sys, json; sys.path.insert(0, "/repo")
from example import AvoidingWithPrefix, pack
from comb_spec_searcher import CombinatorialSpecificationSearcher, CombinatorialSpecification
from comb_spec_searcher.strategies.strategy import EmptyStrategy
spec = CombinatorialSpecificationSearcher(AvoidingWithPrefix("", ["aa", "b"], "ab"), pack).auto_search()
[spec.count_objects_of_size(n) for n in range(6)]
spec2 = CombinatorialSpecification.from_dict(json.loads(json.dumps(spec.to_jsonable())))
ok1 = spec == spec2
ok2 = EmptyStrategy[AvoidingWithPrefix, str]() == EmptyStrategy()
print("OK" if ok1 and ok2 else "FAIL", ok1, ok2); sys.exit(0 if ok1 and ok2 else 1)
