"""F2 (C13), known finding, not repaired: both parallel finders return a pair of specifications that are NOT isomorphic.

When a start class is joined to a verified atom by single-child rules only, the recursion's atom base case
(`((), ()) in matching_info[...]`, `_atom_path_match` defaulting to True) matches the two roots without ever comparing the
non-equivalence unary steps inside the root's equivalence label (`_eq_path_matches` is not reached).  Needs a two-way
single-child strategy with can_be_equivalent() == False (a documented override).

run:  PYTHONPATH=/verif:/repo /verif/.venv312/bin/python findings/repro_F2_C13_nonisomorphic_pair_through_verified_start.py
exit 1 = defect present."""
import sys
from comb_spec_searcher import CombinatorialSpecificationSearcher as S, StrategyPack
from comb_spec_searcher.bijection import EqPathParallelSpecFinder, ParallelSpecFinder
from comb_spec_searcher.isomorphism import Isomorphism
from harness.universe import *
def pack(step): return StrategyPack(initial_strats=[RemoveFrontOfPrefix()],
    inferral_strats=[StepRemoveRedundantPatterns()] if step else [],
    expansion_strats=[[ExpansionStrategy()]], ver_strats=[StatAtomStrategy()], name="p")
r = EqPathParallelSpecFinder(S(Av("",["a"],"a"), pack(False)), S(Av("",["a","aa"],"a"), pack(True))).find()
a, b = r
print(a); print(b)
print(Isomorphism.check(a, b))   # False
r2 = ParallelSpecFinder(S(Av("",["a"],"a"), pack(False)), S(Av("",["a","aa"],"a"), pack(True))).find()
print("plain finder:", r2 is not None and Isomorphism.check(*r2))

sys.exit(1 if not Isomorphism.check(a, b) else 0)
