"""C17: with RuleDBForgetStrategy, comparing a searcher with its pickled copy changes both of them, differently:
`restored == searcher` is True the first time and False the second.  RecomputingDict has no __eq__, so
Mapping.__eq__ reads every value back; RecomputingDict.__getitem__ labels (classdb.get_label) the children of every
strategy it tries, in the iteration order of a set -- which pickle does not preserve.  The two class databases end up
holding the same new classes under different labels (so the two searchers would label their universes differently
from then on).  Uses the toy universe of /verif/harness (honest strategies); run with PYTHONPATH=/verif:/repo."""
import pickle, sys
from harness.universe import Av, PACKS, silence
from comb_spec_searcher import CombinatorialSpecificationSearcher
from comb_spec_searcher.exception import NoMoreClassesToExpandError
from comb_spec_searcher.rule_db import RuleDBForgetStrategy
silence()
bad = []
for levels in range(1, 30):   # number of work packets expanded (the loop body of do_level)
    css = CombinatorialSpecificationSearcher(Av("a", ["bb"], "ab", False, ("nb",)), PACKS["all"](), ruledb=RuleDBForgetStrategy())
    for _ in range(levels):
        try: label, strategies, inferral = next(css.classqueue)
        except StopIteration: break
        if not css.ruledb.is_verified(label):
            css._expand(css.classdb.get_class(label), label, strategies, inferral)
    new = pickle.loads(pickle.dumps(css))
    n0 = len(css.classdb.label_to_info)
    first, second = new == css, new == css
    if first != second or not first:
        bad.append({"packets": levels, "first ==": first, "second ==": second,
                    "classes before/after ==": (n0, len(css.classdb.label_to_info)), "classdbs equal": css.classdb == new.classdb})
print(bad[:2]); print("FAIL" if bad else "OK"); sys.exit(1 if bad else 0)
